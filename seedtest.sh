#!/bin/sh
# Validates one seeded change and runs checks against it.
#   ./seedtest.sh <dir with patch.diff + demo> <check ids...>
# Steps: scratch worktree of /repo HEAD; apply patch; existing suite must pass; the demonstration
# must fail with the patch and pass without it; then the named checks run with VERIF_REPO=<scratch>.
export GOFLAGS=-mod=mod GOPROXY=off GOSUMDB=off GOTOOLCHAIN=local
D=$1; shift
W=$(mktemp -d /tmp/mt.XXXXXX); rmdir "$W"
git -C /repo worktree add -q --detach "$W" HEAD || exit 2
cleanup() { git -C /repo worktree remove --force "$W" 2>/dev/null; rm -rf "$W"; }
trap cleanup EXIT
place_demo() {
  for f in "$D"/*_test.go; do
    [ -f "$f" ] || continue
    pkg=$(grep -m1 '^package ' "$f" | awk '{print $2}')
    case "$pkg" in
      testdirectory*) cp "$f" "$W/testdirectory/zz_seed_$(basename "$f")";;
      *) cp "$f" "$W/zz_seed_$(basename "$f")";;
    esac
  done
  if [ -d "$D/demo" ]; then mkdir -p "$W/zz_seed_demo"; cp -r "$D/demo/." "$W/zz_seed_demo/"; fi
  for f in "$D"/*.go; do case "$f" in *_test.go) ;; *) [ -f "$f" ] && { mkdir -p "$W/zz_seed_demo"; cp "$f" "$W/zz_seed_demo/"; };; esac; done
}
run_demo() {
  rc=0
  names=$(cat "$W"/zz_seed_*_test.go "$W"/testdirectory/zz_seed_*_test.go 2>/dev/null | grep -o '^func Test[A-Za-z0-9_]*' | awk '{print $2}' | sort -u | paste -sd'|')
  if [ -n "$names" ]; then (cd "$W" && go test $SEED_RACE -vet=off -count=1 -run "^($names)\$" ./... >"$W/.demo.log" 2>&1) || rc=1; fi
  if [ -d "$W/zz_seed_demo" ]; then (cd "$W" && go run ./zz_seed_demo >>"$W/.demo.log" 2>&1) || rc=1; fi
  return $rc
}
place_demo
if run_demo; then echo "demo without patch: PASS (ok)"; else echo "demo without patch: FAIL (unexpected)"; tail -15 "$W/.demo.log"; fi
git -C "$W" apply "$D/patch.diff" || { echo "PATCH DOES NOT APPLY"; exit 2; }
(cd "$W" && go build ./... ) || { echo "DOES NOT BUILD"; exit 2; }
if run_demo; then echo "demo with patch: PASS (unexpected - not a demonstration)"; else echo "demo with patch: FAIL (ok)"; fi
rm -rf "$W"/zz_seed_* "$W"/testdirectory/zz_seed_*
if (cd "$W" && go test -vet=off -count=1 ./... >"$W/.suite.log" 2>&1); then echo "existing suite with patch: PASS (ok)"; else echo "existing suite with patch: FAIL"; tail -5 "$W/.suite.log"; fi
for id in "$@"; do
  t0=$(date +%s)
  out=$(cd ${SEED_VERIF:-/verif} && VERIF_REPO=$W VERIF_NO_EVIDENCE=1 timeout 3000 ./check "$id" quick 2>&1); rc=$?
  echo "check $id rc=$rc $(( $(date +%s)-t0 ))s: $(echo "$out" | grep -a "^$id " | tail -1 | cut -c1-160)"
  echo "$out" | grep -a "  key:" | sort | uniq -c | head -8
done
