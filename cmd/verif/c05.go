package main

import (
	"bufio"
	"crypto/tls"
	"fmt"
	"io"
	"net"
	"os"
	"strconv"
	"strings"
	"sync"
	"sync/atomic"
	"time"

	"github.com/jimlambrt/gldap"

	"verif/internal/sber"
)

func init() {
	register(&Check{
		ID: "C05", Level: "exploration", Primary: "interleavings", EvalCount: "frames_checked", RaceIsViolation: true,
		Rule: "one run = N searches pipelined on one connection (N in {2,8,64}; up to 512 in thorough); each handler first joins a barrier that opens only when all N handlers have entered " +
			"(simultaneity is proven, not assumed), then writes K entries with unique ids (h=<message id>,j=<seq>) whose payload is a function of (h,j,len), len cycling through {3,100,5000,70000} " +
			"(below/above the 4096-byte write buffer), then SearchDone; every Write result is logged. Runs cover plain / TLS-listener / StartTLS-upgraded transports x eager / back-pressure reading x GOMAXPROCS {1,2,4,16}, " +
			"under the race detector; plus thousands of small bursts (2..4 writers, then silence) on one long-lived connection, where every frame of a burst must arrive before the client sends anything else (a second server in the process has a connection of the same number, which ends a third of the way through); and runs in which the server is stopped while handlers are writing and the client keeps pipelining (gldap's own shutdown notice shares the stream); runs in which the client (16KB receive buffer) stops reading for 2.6..4.4s in the middle of a stream of 70KB frames, so that one writer sits in the network write and the others wait for it all that time; runs against a server with a write timeout in which a frame larger than every socket buffer is written to a client that reads again only after a Write has failed, followed by a further request; victim connections that reset in the middle of a response before and between the writer rounds; connections that stay in use after one to three Writes panicked while encoding (recovered); single frames whose encoded size sweeps the neighbourhood of the write buffer size, each followed by silence; pipelines that end with an Unbind so that the server closes while the slow client still has most frames to read; and pipelines with a StartTLS request behind the searches, which the server answers from the read loop while the handlers write; and handlers that panic (recovered) while another handler of their connection is blocked in Write; every fourth small burst travels with the first octets of the NEXT request, which the client completes only after every frame of the burst has arrived. Oracle: strict incremental parse; multiset of ids == set of successful writes; per-writer order; payload check. " +
			"distinct_nontrivial = distinct cross-writer interleaving signatures (order of writer ids in the received stream) with at least one cross-writer switch",
		Assume: []string{"the client-side parser (internal/sber) is strict and independent of asn1-ber"},
		Phases: func(tier string, seed int64) []Phase {
			var ps []Phase
			procs := []string{"16", "2"}
			if tier == "thorough" {
				procs = []string{"16", "4", "2", "1"}
			}
			if tier != "thorough" {
				// a single P in the quick tier as well, with a slice of the workload (concurrent writers with and without
				// back-pressure): on one P goroutines still interleave whenever one of them blocks in the network
				ps = append(ps, Phase{Name: "writers-p1-light", Race: true, Run: c05Run, Env: map[string]string{"GOMAXPROCS": "1", "C05_LIGHT": "1"}})
			}
			for _, p := range procs {
				ps = append(ps, Phase{Name: "writers-p" + p, Race: true, Run: c05Run, Env: map[string]string{"GOMAXPROCS": p}})
			}
			return ps
		},
		MinObserved: []string{"frames_checked", "cross_writer_switches", "barrier_openings", "bursts_fully_answered_without_further_traffic", "bursts_sent_together_with_the_first_octets_of_the_next_request", "stops_during_concurrent_writes", "write_timeout_runs", "victim_connections_reset_mid_response", "connections_used_after_a_panic_inside_write", "single_frames_around_the_write_buffer_size", "runs_in_which_the_server_closes_before_the_client_has_read_everything", "runs_with_a_starttls_request_answered_among_the_writers", "panics_next_to_a_writer_blocked_in_write", "runs_in_which_the_client_stopped_reading_for_seconds", "bursts_runs_in_which_another_servers_connection_of_the_same_number_ended"},
	})
}

func c05Payload(h int64, j, n int) []byte {
	b := make([]byte, n)
	x := uint32(h)*2654435761 + uint32(j)*40503 + uint32(n)
	for i := range b {
		x = x*1664525 + 1013904223
		b[i] = byte(x >> 24)
	}
	return b
}

var c05Lens = []int{3, 100, 5000, 70000}

type c05Cfg struct {
	N         int
	K         int
	Transport string // plain tls starttls
	Slow      bool
	// Unbind: an Unbind rides behind the pipeline, so that it is the SERVER that closes the connection - as soon as the
	// handlers are done, possibly long before the (slow) client has read what they wrote
	Unbind bool
	// ExtraStartTLS: a StartTLS extended request (which the server answers from its read loop, not from a handler
	// goroutine) rides behind the searches, so that its response shares the stream with the writers' frames
	ExtraStartTLS bool
	// Stall: the client (with a small receive buffer) reads a little, then nothing at all for this long, then everything;
	// most frames are 70KB, so that a writer sits in the network write for the whole stall while the others wait for it
	Stall time.Duration
}

// stallReader reads normally, except that once - after `at` bytes - it reads nothing at all for `stall`.
type stallReader struct {
	r     io.Reader
	at    int
	stall time.Duration
	read  int
	done  bool
}

func (s *stallReader) Read(p []byte) (int, error) {
	if !s.done && s.read >= s.at {
		s.done = true
		time.Sleep(s.stall)
	}
	k, err := s.r.Read(p)
	s.read += k
	return k, err
}

// slowReader sips from the connection in small chunks with pauses for the
// first part of the stream, so that socket buffers fill and writers block
// inside gldap's write critical section.
type slowReader struct {
	r     io.Reader
	rng   *Rand
	limit int
	read  int
}

func (s *slowReader) Read(p []byte) (int, error) {
	if s.read < s.limit {
		n := 1 + s.rng.Intn(700)
		if n > len(p) {
			n = len(p)
		}
		if s.rng.Chance(30) {
			time.Sleep(time.Duration(200+s.rng.Intn(1500)) * time.Microsecond)
		}
		k, err := s.r.Read(p[:n])
		s.read += k
		return k, err
	}
	return s.r.Read(p)
}

func c05One(c *Ctx, pki *PKI, cfg c05Cfg, r *Rand) {
	type wkey struct {
		h int64
		j int
	}
	var mu sync.Mutex
	okWrites := map[wkey]bool{}
	var failedWrites int64
	var entered atomic.Int64
	open := make(chan struct{})
	var once sync.Once
	handler := func(w *gldap.ResponseWriter, req *gldap.Request) {
		m, err := req.GetSearchMessage()
		if err != nil {
			return
		}
		if m.BaseDN == "victim" {
			// a client that resets right after its request: these small writes fail (a fault elsewhere on the server
			// must not disturb the frames of other writers)
			for j := 0; j < 4; j++ {
				time.Sleep(15 * time.Millisecond)
				e := req.NewSearchResponseEntry("cn=victim")
				e.AddAttribute("p", []string{"small"})
				w.Write(e)
			}
			w.Write(req.NewSearchDoneResponse(gldap.WithResponseCode(0)))
			return
		}
		if entered.Add(1) == int64(cfg.N) {
			once.Do(func() { close(open) })
		}
		select {
		case <-open:
		case <-time.After(patience):
			return // barrier never opened: judged below
		}
		h := m.GetID()
		for j := 0; j < cfg.K; j++ {
			n := c05Lens[(int(h)+j)%len(c05Lens)]
			if cfg.Stall > 0 && j%5 != 4 {
				n = 70000
			}
			e := req.NewSearchResponseEntry(fmt.Sprintf("h=%d,j=%d", h, j))
			e.AddAttribute("p", []string{string(c05Payload(h, j, n))})
			err := w.Write(e)
			mu.Lock()
			if err == nil {
				okWrites[wkey{h, j}] = true
			} else {
				failedWrites++
			}
			mu.Unlock()
		}
		err = w.Write(req.NewSearchDoneResponse(gldap.WithResponseCode(0)))
		mu.Lock()
		if err == nil {
			okWrites[wkey{h, -1}] = true
		} else {
			failedWrites++
		}
		mu.Unlock()
	}
	var stc *tls.Config
	if cfg.Transport == "tls" {
		stc = pki.ServerOnly
	}
	srv, err := startSrv(SrvCfg{TLS: stc}, func(m *gldap.Mux) {
		m.Search(handler)
		m.ExtendedOperation(func(w *gldap.ResponseWriter, req *gldap.Request) {
			w.Write(req.NewExtendedResponse(gldap.WithResponseCode(0)))
			req.StartTLS(pki.ServerOnly)
		}, gldap.ExtendedOperationStartTLS)
	})
	if err != nil {
		c.Inconclusive("server start: " + err.Error())
		return
	}
	defer srv.StopWithin(patience)
	// victims first: a few connections whose handlers' writes fail (plain transport to the same server when possible)
	if cfg.Transport != "tls" {
		for v := 0; v < 4; v++ {
			if vc, err := dialRaw(srv.Addr, nil); err == nil {
				vc.Send(sber.Message(1, sber.Search{Base: []byte("victim"), Scope: 2, Filter: sber.PresentFilter("cn"), Attrs: [][]byte{}}.Node(), nil).Encode())
				time.Sleep(2 * time.Millisecond)
				vc.Reset()
				c.Count("victim_connections_reset_mid_response", 1)
			}
		}
		time.Sleep(40 * time.Millisecond) // the victims' first writes have failed by now; the others overlap the run
	}
	var conn net.Conn
	switch cfg.Transport {
	case "plain", "starttls":
		conn, err = net.Dial("tcp", srv.Addr)
	case "tls":
		conn, err = tls.Dial("tcp", srv.Addr, pki.ClientPlain)
	}
	if err != nil {
		c.Inconclusive("dial: " + err.Error())
		return
	}
	defer conn.Close()
	if tcpc, ok := conn.(*net.TCPConn); ok && cfg.Stall > 0 {
		tcpc.SetReadBuffer(16 << 10)
	}
	if cfg.Transport == "starttls" {
		conn.Write(sber.Message(1, sber.ExtendedRequest([]byte(sber.OIDStartTLS), nil, false), nil).Encode())
		cl := wrapClient(conn)
		m, err := cl.ReadMsg(patience)
		if err != nil || m.ID != 1 {
			c.Inconclusive(fmt.Sprintf("starttls response: %v", err))
			return
		}
		tc := tls.Client(conn, pki.ClientPlain)
		conn.SetDeadline(time.Now().Add(patience))
		if err := tc.Handshake(); err != nil {
			c.Inconclusive("starttls handshake: " + err.Error())
			return
		}
		conn.SetDeadline(time.Time{})
		conn = tc
	}
	// pipeline N searches with distinct message IDs
	var all []byte
	ids := map[int64]bool{}
	base := int64(10 + r.Intn(1000))
	for i := 0; i < cfg.N; i++ {
		id := base + int64(i)
		ids[id] = true
		all = append(all, sber.Message(id, sber.Search{Base: []byte("dc=x"), Scope: 2, Filter: sber.PresentFilter("objectClass"), Attrs: [][]byte{}}.Node(), nil).Encode()...)
	}
	extID := int64(-1)
	if cfg.ExtraStartTLS {
		extID = base + int64(cfg.N) + 7
		ids[extID] = true
		all = append(all, sber.Message(extID, sber.ExtendedRequest([]byte(sber.OIDStartTLS), nil, false), nil).Encode()...)
		c.Count("runs_with_a_starttls_request_answered_among_the_writers", 1)
	}
	if cfg.Unbind {
		all = append(all, sber.Message(base+int64(cfg.N)+5, sber.UnbindRequest(), nil).Encode()...)
		c.Count("runs_in_which_the_server_closes_before_the_client_has_read_everything", 1)
	}
	go func() {
		conn.SetWriteDeadline(time.Now().Add(2 * patience))
		conn.Write(all)
	}()
	var rd io.Reader = conn
	if cfg.Slow {
		rd = &slowReader{r: conn, rng: r.Sub("slow"), limit: 400000}
	}
	if cfg.Stall > 0 {
		rd = &stallReader{r: conn, at: 150000, stall: cfg.Stall}
		c.Count("runs_in_which_the_client_stopped_reading_for_seconds", 1)
	}
	br := bufio.NewReaderSize(rd, 32<<10)
	want := cfg.N * (cfg.K + 1)
	if cfg.ExtraStartTLS {
		want++ // the answer to the StartTLS request (a refusal: no such route on this server)
	}
	seen := map[wkey]int{}
	lastJ := map[int64]int{}
	done := map[int64]bool{}
	var order []int64
	switches := 0
	det := map[string]any{"cfg": cfg}
	for got := 0; got < want; got++ {
		conn.SetReadDeadline(time.Now().Add(2 * patience))
		f, err := sber.ReadFrame(br)
		if err != nil {
			if isTimeout(err) {
				if entered.Load() < int64(cfg.N) {
					c.Inconclusive(fmt.Sprintf("barrier did not open: only %d of %d handlers entered (see C06)", entered.Load(), cfg.N))
				} else {
					mu.Lock()
					ok := len(okWrites)
					mu.Unlock()
					if ok > got {
						c.Violate("frames lost: successful writes never arrived", fmt.Sprintf("%d successful writes, %d frames received before the stream stalled", ok, got), det)
					} else {
						c.Inconclusive("stream stalled after " + strconv.Itoa(got) + " frames")
					}
				}
				return
			}
			c.Violate("byte stream is not a concatenation of whole LDAPMessages", fmt.Sprintf("frame %d: %v (head %x)", got, err, trunc(f, 32)), det)
			return
		}
		m, err := sber.ParseMessage(f)
		if err != nil {
			c.Violate("byte stream is not a concatenation of whole LDAPMessages", fmt.Sprintf("frame %d: %v", got, err), det)
			return
		}
		c.Count("frames_checked", 1)
		c.Count("bytes_parsed", int64(len(f)))
		h := m.ID
		if !ids[h] {
			c.Violate("frame with a message ID no request had", fmt.Sprint(h), det)
			continue
		}
		if h == extID {
			if m.Op.Tag != sber.AppExtendedResponse {
				c.Violate("byte stream is not a concatenation of whole LDAPMessages", fmt.Sprintf("the answer to the StartTLS request has protocolOp tag %d", m.Op.Tag), det)
			}
			continue
		}
		if len(order) > 0 && order[len(order)-1] != h {
			switches++
		}
		order = append(order, h)
		if m.Op.Tag == sber.AppSearchResultDone {
			seen[wkey{h, -1}]++
			if lastJ[h] != cfg.K {
				c.Violate("frames of one handler out of order", fmt.Sprintf("h=%d: SearchDone arrived after %d of %d entries", h, lastJ[h], cfg.K), det)
			}
			done[h] = true
			continue
		}
		e, err := sber.AsEntry(m.Op)
		if err != nil {
			c.Violate("byte stream is not a concatenation of whole LDAPMessages", "entry shape: "+err.Error(), det)
			continue
		}
		var eh int64
		var ej int
		if _, err := fmt.Sscanf(string(e.DN), "h=%d,j=%d", &eh, &ej); err != nil || eh != h {
			c.Violate("frames merged or torn: entry id does not match its envelope", fmt.Sprintf("dn %q under message id %d", e.DN, h), det)
			continue
		}
		seen[wkey{h, ej}]++
		if ej != lastJ[h] || done[h] {
			c.Violate("frames of one handler out of order", fmt.Sprintf("h=%d: j=%d arrived when j=%d was next", h, ej, lastJ[h]), det)
		}
		lastJ[h] = ej + 1
		n := c05Lens[(int(h)+ej)%len(c05Lens)]
		if cfg.Stall > 0 && ej%5 != 4 {
			n = 70000
		}
		if len(e.Attrs) != 1 || len(e.Attrs[0].Vals) != 1 || string(e.Attrs[0].Vals[0]) != string(c05Payload(h, ej, n)) {
			c.Violate("frame payload does not match its id (torn or merged frame)", fmt.Sprintf("h=%d j=%d", h, ej), det)
		}
		c.Distinct("frame_size_classes", lenClass(len(f)))
	}
	// nothing more may follow
	conn.SetReadDeadline(time.Now().Add(50 * time.Millisecond))
	if extra, _ := io.ReadAll(br); len(extra) > 0 {
		c.Violate("duplicated or spurious bytes after the last expected frame", fmt.Sprintf("%d extra bytes: %x", len(extra), trunc(extra, 32)), det)
	}
	mu.Lock()
	for k := range okWrites {
		if seen[k] == 0 {
			c.Violate("frame lost although its Write returned nil", fmt.Sprintf("h=%d j=%d", k.h, k.j), det)
		}
	}
	for k, n := range seen {
		if n > 1 {
			c.Violate("frame duplicated", fmt.Sprintf("h=%d j=%d seen %d times", k.h, k.j, n), det)
		}
		if !okWrites[k] {
			c.Violate("frame received although its Write did not succeed", fmt.Sprintf("h=%d j=%d", k.h, k.j), det)
		}
	}
	c.Count("failed_writes", failedWrites)
	mu.Unlock()
	c.Count("runs", 1)
	c.Count("barrier_openings", 1)
	c.Count("writers", int64(cfg.N))
	c.Count("cross_writer_switches", int64(switches))
	c.Max("max/writers_simultaneously_inside_handlers", int64(cfg.N))
	if switches > 0 {
		var sb strings.Builder
		for _, h := range order {
			sb.WriteString(strconv.FormatInt(h-base, 36))
			sb.WriteByte('.')
		}
		c.Distinct("interleavings", fmt.Sprintf("%d/%d/%s", cfg.N, cfg.K, sb.String()))
	}
	c.Distinct("variants", fmt.Sprintf("%s/slow=%v/N=%d/unbind=%v/ext=%v", cfg.Transport, cfg.Slow, cfg.N, cfg.Unbind, cfg.ExtraStartTLS))
	if cfg.N == 8 && !cfg.Slow {
		var head []int64
		for _, h := range order[:min(len(order), 24)] {
			head = append(head, h-base)
		}
		c.Sample(map[string]any{"cfg": cfg, "writer_order_head": head, "switches": switches, "frames": len(order)})
	}
}

// c05Bursts: thousands of small bursts of 2..4 concurrent writers on one long-lived connection, each followed by
// silence. A frame whose Write returned nil must arrive without any further traffic: after a burst the client waits
// (bounded progress, B = 5s) for every frame of that burst before it sends anything else.
func c05Bursts(c *Ctx, r *Rand, bursts int) {
	var okWrites atomic.Int64
	srv, err := startSrv(SrvCfg{}, func(m *gldap.Mux) {
		m.Search(func(w *gldap.ResponseWriter, req *gldap.Request) {
			sm, err := req.GetSearchMessage()
			if err != nil {
				return
			}
			e := req.NewSearchResponseEntry(fmt.Sprintf("h=%d,j=0", sm.GetID()))
			var plen int
			if _, err := fmt.Sscanf(sm.BaseDN, "len=%d", &plen); err == nil {
				// size sweep: ONE frame of the requested payload length, and then silence
				e.AddAttribute("p", []string{string(c05Payload(sm.GetID(), 0, plen))})
				if w.Write(e) == nil {
					okWrites.Add(1)
				}
				return
			}
			e.AddAttribute("p", []string{string(c05Payload(sm.GetID(), 0, 40))})
			if w.Write(e) == nil {
				okWrites.Add(1)
			}
			if w.Write(req.NewSearchDoneResponse(gldap.WithResponseCode(0))) == nil {
				okWrites.Add(1)
			}
		})
	})
	if err != nil {
		c.Inconclusive("server start: " + err.Error())
		return
	}
	defer srv.StopWithin(patience)
	cl, err := dialRaw(srv.Addr, nil)
	if err != nil {
		c.Inconclusive("dial: " + err.Error())
		return
	}
	defer cl.Close()
	// a second server lives in the same process and has a connection that carries the SAME number as ours (connection
	// numbers are per server); it goes away in the middle of the bursts. What one server's connections do is nothing to
	// another server's.
	var otherConn *Client
	if other, err := startSrv(SrvCfg{}, func(m *gldap.Mux) {
		m.Search(func(w *gldap.ResponseWriter, req *gldap.Request) {
			w.Write(req.NewSearchDoneResponse(gldap.WithResponseCode(0)))
		})
	}); err == nil {
		defer other.StopWithin(patience)
		if oc, err := dialRaw(other.Addr, nil); err == nil {
			oc.Send(sber.Message(1, sber.Search{Base: []byte("dc=x"), Scope: 2, Filter: sber.PresentFilter("objectClass"), Attrs: [][]byte{}}.Node(), nil).Encode())
			oc.ReadMsg(patience)
			otherConn = oc
			defer func() {
				if otherConn != nil {
					otherConn.Close()
				}
			}()
		}
	}
	id := int64(1)
	var carry []byte
	var carryID int64
	// size sweep first: single frames whose encoded length runs through the neighbourhood of the 4096-byte write buffer
	// (and of twice that), each followed by silence until it has arrived
	var sweep []int
	for n := 3960; n <= 4130; n++ {
		sweep = append(sweep, n)
	}
	for n := 8100; n <= 8230; n += 1 + bursts%2 {
		sweep = append(sweep, n)
	}
	for b := 0; b < bursts+len(sweep); b++ {
		if otherConn != nil && b == len(sweep)+bursts/3 {
			// the other server's connection of the same number ends now, between two of our requests
			otherConn.Close()
			otherConn = nil
			time.Sleep(5 * time.Millisecond)
			c.Count("bursts_runs_in_which_another_servers_connection_of_the_same_number_ended", 1)
		}
		n := 2 + r.Intn(3)
		per := 2
		base := "dc=x"
		if b < len(sweep) {
			n, per, base = 1, 1, fmt.Sprintf("len=%d", sweep[b])
			c.Count("single_frames_around_the_write_buffer_size", 1)
		}
		var all []byte
		want := map[int64]int{}
		expect := 0
		if carry != nil {
			// the rest of the request whose first octets travelled with the previous burst
			all, carry = append(all, carry...), nil
			want[carryID] = 2
			expect += 2
		}
		for i := 0; i < n; i++ {
			id++
			want[id] = per
			expect += per
			all = append(all, sber.Message(id, sber.Search{Base: []byte(base), Scope: 2, Filter: sber.PresentFilter("objectClass"), Attrs: [][]byte{}}.Node(), nil).Encode()...)
		}
		if b%4 == 1 {
			// the segment that carries this burst ends with the first octets of the NEXT request (a request cut by a
			// segment boundary); the client completes it only after every frame of this burst has arrived
			id++
			nx := sber.Message(id, sber.Search{Base: []byte("dc=x"), Scope: 2, Filter: sber.PresentFilter("objectClass"), Attrs: [][]byte{}}.Node(), nil).Encode()
			k := 1 + r.Intn(len(nx)-1)
			all = append(all, nx[:k]...)
			carry, carryID = nx[k:], id
			c.Count("bursts_sent_together_with_the_first_octets_of_the_next_request", 1)
		}
		cl.Send(all)
		got := 0
		for got < expect {
			m, err := cl.ReadMsg(5 * time.Second)
			if err != nil {
				if !isTimeout(err) {
					c.Violate("byte stream is not a concatenation of whole LDAPMessages", "burst mode: "+err.Error(), map[string]any{"burst": b})
					return
				}
				// B expired with the connection silent: is the frame stranded until later traffic?
				missing := expect - got
				id++
				cl.Send(carry) // (completes a request begun with the burst, if there is one)
				cl.Send(sber.Message(id, sber.Search{Base: []byte("dc=x"), Scope: 2, Filter: sber.PresentFilter("objectClass"), Attrs: [][]byte{}}.Node(), nil).Encode())
				late := 0
				for {
					m2, err := cl.ReadMsg(5 * time.Second)
					if err != nil {
						break
					}
					if want[m2.ID] > 0 {
						want[m2.ID]--
						late++
					}
				}
				c.Violate("frame withheld or lost although its Write returned nil", fmt.Sprintf("burst %d of %d writers: %d of %d frames had not arrived 5s after the burst (request base %q) while the connection was silent (%d successful writes so far); %d of them arrived only after a later request caused more writes", b, n, missing, expect, base, okWrites.Load(), late),
					map[string]any{"burst": b, "writers": n, "missing": missing, "arrived_after_later_traffic": late})
				return
			}
			if want[m.ID] <= 0 {
				c.Violate("frame duplicated", fmt.Sprintf("burst mode: message id %d", m.ID), nil)
				return
			}
			want[m.ID]--
			got++
			c.Count("frames_checked", 1)
		}
		c.Count("bursts_fully_answered_without_further_traffic", 1)
	}
}

// c05StopDuringWrites: the server is stopped while handlers are in the middle of writing and the client keeps
// pipelining requests (so that the connection's read loop is busy, not parked in a network read). Whatever gldap
// itself writes at shutdown shares the stream with the handlers' frames: the client must still receive a
// concatenation of whole LDAPMessages, every successfully written frame exactly once.
func c05StopDuringWrites(c *Ctx, r *Rand, round int) {
	type wkey struct {
		h int64
		j int
	}
	var mu sync.Mutex
	ok := map[wkey]bool{}
	var failed int64
	srv, err := startSrv(SrvCfg{}, func(m *gldap.Mux) {
		m.Search(func(w *gldap.ResponseWriter, req *gldap.Request) {
			sm, err := req.GetSearchMessage()
			if err != nil {
				return
			}
			h := sm.GetID()
			for j := 0; j < 6; j++ {
				e := req.NewSearchResponseEntry(fmt.Sprintf("h=%d,j=%d", h, j))
				e.AddAttribute("p", []string{string(c05Payload(h, j, 1500+int(h%5)*400))})
				err := w.Write(e)
				mu.Lock()
				if err == nil {
					ok[wkey{h, j}] = true
				} else {
					failed++
				}
				mu.Unlock()
				if err != nil {
					return
				}
			}
		})
	})
	if err != nil {
		c.Inconclusive("server start: " + err.Error())
		return
	}
	cn, err := net.Dial("tcp", srv.Addr)
	if err != nil {
		c.Inconclusive("dial: " + err.Error())
		srv.StopWithin(patience)
		return
	}
	defer cn.Close()
	var stopWriting atomic.Bool
	var sent atomic.Int64
	go func() {
		for id := int64(1); !stopWriting.Load() && id < 4000; id++ {
			cn.SetWriteDeadline(time.Now().Add(5 * time.Second))
			if _, err := cn.Write(sber.Message(id, sber.Search{Base: []byte("dc=x"), Scope: 2, Filter: sber.PresentFilter("cn"), Attrs: [][]byte{}}.Node(), nil).Encode()); err != nil {
				return
			}
			sent.Store(id)
		}
	}()
	// read slowly for a while (back-pressure builds up), then stop the server and drain
	br := bufio.NewReaderSize(cn, 64<<10)
	seen := map[wkey]int{}
	frames, notices := 0, 0
	det := map[string]any{"round": round}
	readOne := func(d time.Duration) (bool, error) {
		cn.SetReadDeadline(time.Now().Add(d))
		f, err := sber.ReadFrame(br)
		if err != nil {
			return false, err
		}
		m, perr := sber.ParseMessage(f)
		if perr != nil {
			return false, fmt.Errorf("unparseable frame %x: %v", trunc(f, 24), perr)
		}
		frames++
		c.Count("frames_checked", 1)
		if m.Op.Tag == sber.AppExtendedResponse && m.ID == 0 {
			notices++ // gldap's own notice of disconnection
			return true, nil
		}
		e, perr := sber.AsEntry(m.Op)
		if perr != nil {
			return false, fmt.Errorf("unexpected frame (tag %d id %d): %v", m.Op.Tag, m.ID, perr)
		}
		var eh int64
		var ej int
		if _, serr := fmt.Sscanf(string(e.DN), "h=%d,j=%d", &eh, &ej); serr != nil || eh != m.ID {
			return false, fmt.Errorf("entry %q under message id %d", e.DN, m.ID)
		}
		if len(e.Attrs) != 1 || string(e.Attrs[0].Vals[0]) != string(c05Payload(eh, ej, 1500+int(eh%5)*400)) {
			return false, fmt.Errorf("payload of h=%d j=%d does not match", eh, ej)
		}
		seen[wkey{eh, ej}]++
		return true, nil
	}
	for i := 0; i < 30+r.Intn(60); i++ {
		if _, err := readOne(patience); err != nil {
			c.Violate("byte stream is not a concatenation of whole LDAPMessages", "before Stop: "+err.Error(), det)
			stopWriting.Store(true)
			srv.StopWithin(patience)
			return
		}
		if r.Chance(40) {
			time.Sleep(time.Duration(r.Intn(800)) * time.Microsecond)
		}
	}
	stopRet := make(chan struct{})
	go func() { srv.S.Stop(); close(stopRet) }()
	var streamErr error
	cleanEOF := false
	for {
		if _, err := readOne(patience); err != nil {
			if !strings.Contains(err.Error(), "EOF") && !strings.Contains(err.Error(), "reset") && !isTimeout(err) {
				streamErr = err
			}
			// the server may close with unread requests in its receive queue: TCP then resets the connection and may
			// discard frames still in flight - only a clean EOF proves that everything written was deliverable
			cleanEOF = err == io.EOF
			break
		}
	}
	stopWriting.Store(true)
	select {
	case <-stopRet:
	case <-time.After(patience):
		c.Inconclusive("Stop did not return (see C11)")
	}
	mu.Lock()
	defer mu.Unlock()
	if streamErr != nil && failed == 0 {
		c.Violate("byte stream is not a concatenation of whole LDAPMessages", fmt.Sprintf("while the server was stopping (no Write had failed): %v", streamErr), det)
	} else if streamErr != nil {
		c.Count("torn_tail_after_a_failed_write_tolerated", 1)
	}
	for k, n := range seen {
		if n > 1 {
			c.Violate("frame duplicated", fmt.Sprintf("h=%d j=%d seen %d times around Stop", k.h, k.j, n), det)
		}
		if !ok[k] && failed == 0 {
			c.Violate("frame received although its Write did not succeed", fmt.Sprintf("h=%d j=%d", k.h, k.j), det)
		}
	}
	if streamErr == nil && cleanEOF {
		for k := range ok {
			if seen[k] == 0 {
				c.Violate("frame lost although its Write returned nil", fmt.Sprintf("h=%d j=%d (server stopping)", k.h, k.j), det)
				break
			}
		}
	}
	c.Count("stops_during_concurrent_writes", 1)
	c.Count("notices_of_disconnection_seen", int64(notices))
}

// c05WriteTimeout: a server with WithWriteTimeout, frames larger than the socket buffers and a client that pauses
// longer than the timeout, then reads on. Writes may fail - but every Write that returned nil must have put one whole
// frame on the stream, and nothing that follows a torn frame may be claimed as written.
func c05WriteTimeout(c *Ctx, r *Rand, round int) {
	type wkey struct {
		h int64
		j int
	}
	var mu sync.Mutex
	ok := map[wkey]bool{}
	var failed, handlersDone int64
	const nHandlers = 4
	// odd rounds: one frame per handler that no socket buffer can hold, so that a write which runs into the timeout
	// has already put part of its frame on the wire
	wtSize := func(h int64, j int) int {
		if h >= 1000 {
			return 300
		}
		if round%2 == 1 && j == 2 && h%2 == 1 {
			return 6 << 20
		}
		if j%2 == 1 {
			return 300
		}
		return 150000
	}
	srv, err := startSrv(SrvCfg{WriteTimeout: 400 * time.Millisecond}, func(m *gldap.Mux) {
		m.Search(func(w *gldap.ResponseWriter, req *gldap.Request) {
			sm, err := req.GetSearchMessage()
			if err != nil {
				return
			}
			h := sm.GetID()
			jmax := 8
			if h >= 1000 { // the follow-up request sent after the client resumed reading
				jmax = 3
			}
			for j := 0; j < jmax; j++ {
				n := wtSize(h, j)
				e := req.NewSearchResponseEntry(fmt.Sprintf("h=%d,j=%d", h, j))
				e.AddAttribute("p", []string{string(c05Payload(h, j, n))})
				tw := time.Now()
				err := w.Write(e)
				if n > 1<<20 && os.Getenv("VERIF_VERBOSE") != "" {
					fmt.Fprintf(os.Stderr, "c05 wt: big write h=%d began %s took %s\n", h, tw.Format("05.000"), time.Since(tw))
				}
				mu.Lock()
				if err == nil {
					ok[wkey{h, j}] = true
				} else {
					failed++
					if os.Getenv("VERIF_VERBOSE") != "" {
						fmt.Fprintf(os.Stderr, "c05 wt: h=%d j=%d: %v\n", h, j, err)
					}
				}
				mu.Unlock()
				time.Sleep(60 * time.Millisecond)
			}
			mu.Lock()
			handlersDone++
			mu.Unlock()
		})
	})
	if err != nil {
		c.Inconclusive("server start: " + err.Error())
		return
	}
	defer srv.StopWithin(patience)
	cn, err := net.Dial("tcp", srv.Addr)
	if err != nil {
		c.Inconclusive("dial: " + err.Error())
		return
	}
	defer cn.Close()
	var all []byte
	for i := 0; i < nHandlers; i++ {
		all = append(all, sber.Message(int64(1+i), sber.Search{Base: []byte("dc=x"), Scope: 2, Filter: sber.PresentFilter("cn"), Attrs: [][]byte{}}.Node(), nil).Encode()...)
	}
	cn.Write(all)
	br := bufio.NewReaderSize(cn, 64<<10)
	seen := map[wkey]int{}
	var parseErr error
	t0 := time.Now()
	dbg := func(what string) {
		if os.Getenv("VERIF_VERBOSE") != "" {
			fmt.Fprintf(os.Stderr, "c05 wt: %6dms %s (stream: %v)\n", time.Since(t0).Milliseconds(), what, parseErr)
		}
	}
	readSome := func(max int, d time.Duration) {
		defer dbg("readSome returns")
		for i := 0; i < max && parseErr == nil; i++ {
			cn.SetReadDeadline(time.Now().Add(d))
			f, err := sber.ReadFrame(br)
			if err != nil {
				if !isTimeout(err) && err != io.EOF {
					parseErr = err
				} else if len(f) > 0 {
					parseErr = fmt.Errorf("stream ends inside a frame (%d bytes of it)", len(f))
				} else {
					parseErr = io.EOF
				}
				return
			}
			m, perr := sber.ParseMessage(f)
			if perr != nil {
				parseErr = perr
				return
			}
			c.Count("frames_checked", 1)
			if e, eerr := sber.AsEntry(m.Op); eerr == nil {
				var eh int64
				var ej int
				if _, serr := fmt.Sscanf(string(e.DN), "h=%d,j=%d", &eh, &ej); serr == nil && eh == m.ID {
					n := wtSize(eh, ej)
					if len(e.Attrs) == 1 && string(e.Attrs[0].Vals[0]) == string(c05Payload(eh, ej, n)) {
						seen[wkey{eh, ej}]++
						continue
					}
				}
				parseErr = fmt.Errorf("frame content does not match its id (dn %q under id %d)", e.DN, m.ID)
			}
		}
	}
	readSome(2+r.Intn(3), patience)
	if round%2 == 1 {
		// back-pressure until a Write has failed (encoding a frame of several MiB takes seconds in a race build, so
		// this waits for the event, not for a time)
		for dl := time.Now().Add(patience); time.Now().Before(dl); time.Sleep(5 * time.Millisecond) {
			mu.Lock()
			f, d := failed, handlersDone
			mu.Unlock()
			if f > 0 || d == nHandlers {
				break
			}
		}
		dbg("first failed write seen, reading on")
	} else {
		time.Sleep(900 * time.Millisecond) // back-pressure for longer than the write timeout
	}
	drain := func() {
		if parseErr != nil && parseErr != io.EOF {
			// the stream stopped being a sequence of whole frames (or ended inside one). Keep taking bytes off the
			// socket like a client that has not noticed yet, so that later writes are not held back by our not
			// reading; whatever those writes report as written can no longer arrive as a whole frame: judged below.
			cn.SetReadDeadline(time.Time{})
			go io.Copy(io.Discard, br)
			c.Count("streams_that_ended_inside_a_frame_after_a_failed_write", 1)
		}
	}
	readSome(1<<30, 1500*time.Millisecond)
	drain()
	// let the handlers finish their remaining (failing or succeeding) writes, then judge
	for dl := time.Now().Add(patience); time.Now().Before(dl); time.Sleep(10 * time.Millisecond) {
		mu.Lock()
		d := handlersDone
		mu.Unlock()
		if d == nHandlers {
			break
		}
	}
	if parseErr == nil || parseErr == io.EOF {
		parseErr = nil
		readSome(1<<30, 500*time.Millisecond)
		drain()
	}
	dbg("sending the follow-up")
	// one more request on the same connection, after whatever the timeout did to the earlier responses: whatever its
	// handler is told was written must arrive as whole frames as well (nothing may follow a torn frame)
	cn.SetWriteDeadline(time.Now().Add(2 * time.Second))
	if _, werr := cn.Write(sber.Message(1000, sber.Search{Base: []byte("dc=x"), Scope: 2, Filter: sber.PresentFilter("cn"), Attrs: [][]byte{}}.Node(), nil).Encode()); werr == nil {
		for dl := time.Now().Add(3 * time.Second); time.Now().Before(dl); time.Sleep(10 * time.Millisecond) {
			mu.Lock()
			d := handlersDone
			mu.Unlock()
			if d == nHandlers+1 {
				break
			}
		}
		if parseErr == io.EOF {
			parseErr = nil
			readSome(1<<30, 500*time.Millisecond)
		}
		c.Count("follow_up_requests_after_write_timeouts", 1)
	}
	mu.Lock()
	defer mu.Unlock()
	det := map[string]any{"round": round, "failed_writes": failed, "successful_writes": len(ok), "stream_end": fmt.Sprint(parseErr)}
	if os.Getenv("VERIF_VERBOSE") != "" {
		fmt.Fprintf(os.Stderr, "c05 write-timeout run: %v seen=%d\n", det, len(seen))
	}
	for k := range ok {
		if seen[k] == 0 {
			c.Violate("frame lost although its Write returned nil", fmt.Sprintf("with a write timeout and a client that paused: h=%d j=%d was reported written but never arrived as a whole frame (stream ended with: %v)", k.h, k.j, parseErr), det)
			break
		}
	}
	for k, n := range seen {
		if n > 1 {
			c.Violate("frame duplicated", fmt.Sprintf("h=%d j=%d seen %d times (write-timeout run)", k.h, k.j, n), det)
		}
	}
	c.Count("write_timeout_runs", 1)
	c.Count("failed_writes", failed)
}

// c05PanicInWrite: a handler panics INSIDE ResponseWriter.Write (a response whose encoding panics: a nil control); the
// panic is recovered per request. Whatever Write had begun for that response, the connection's stream must stay sound:
// every later Write that returns nil puts exactly one whole frame on the wire (bounded: 5s with no further traffic).
func c05PanicInWrite(c *Ctx, r *Rand, round int) {
	var mu sync.Mutex
	ok := map[int64]bool{}
	panicked := 0
	srv, err := startSrv(SrvCfg{}, func(m *gldap.Mux) {
		m.Bind(func(w *gldap.ResponseWriter, req *gldap.Request) {
			bm, err := req.GetSimpleBindMessage()
			if err != nil {
				return
			}
			resp := req.NewBindResponse(gldap.WithResponseCode(0))
			if bm.UserName == "cn=panic-in-write" {
				mu.Lock()
				panicked++
				mu.Unlock()
				var none gldap.Control
				resp.SetControls(none)
			}
			if w.Write(resp) == nil {
				mu.Lock()
				ok[bm.GetID()] = true
				mu.Unlock()
			}
		})
	})
	if err != nil {
		c.Inconclusive("server start: " + err.Error())
		return
	}
	defer srv.StopWithin(patience)
	cl, err := dialRaw(srv.Addr, nil)
	if err != nil {
		c.Inconclusive("dial: " + err.Error())
		return
	}
	defer cl.Close()
	bind := func(id int64, name string) []byte {
		return sber.Message(id, sber.BindRequest(3, []byte(name), []byte("p")), nil).Encode()
	}
	n := 20 + r.Intn(60)
	var buf []byte
	buf = append(buf, bind(1, "cn=fine")...)
	nPanics := 1 + round%3
	for k := 0; k < nPanics; k++ {
		buf = append(buf, bind(int64(2+k), "cn=panic-in-write")...)
	}
	if round%2 == 0 {
		cl.Send(buf)
		buf = nil
		time.Sleep(20 * time.Millisecond) // the panics have happened before the burst arrives
	}
	for i := 0; i < n; i++ {
		buf = append(buf, bind(int64(100+i), "cn=fine")...)
	}
	cl.Send(buf)
	seen := map[int64]int{}
	var streamErr error
	for len(seen) < n+1 {
		m, err := cl.ReadMsg(5 * time.Second)
		if err != nil {
			streamErr = err
			break
		}
		seen[m.ID]++
		c.Count("frames_checked", 1)
	}
	time.Sleep(5 * time.Millisecond)
	mu.Lock()
	defer mu.Unlock()
	det := map[string]any{"round": round, "writes_that_panicked": panicked, "successful_writes": len(ok), "frames_received": len(seen), "stream_end": fmt.Sprint(streamErr)}
	for id := range ok {
		if seen[id] == 0 {
			c.Violate("frame lost although its Write returned nil", fmt.Sprintf("after %d Write calls on the connection had panicked (recovered): message id %d was reported written but did not arrive within 5s (stream: %v)", panicked, id, streamErr), det)
			break
		}
	}
	for id, k := range seen {
		if k > 1 {
			c.Violate("frame duplicated", fmt.Sprintf("message id %d seen %d times after a Write had panicked", id, k), det)
		}
	}
	if panicked > 0 && srv.Log.PanicCount() > 0 {
		c.Count("connections_used_after_a_panic_inside_write", 1)
	}
}

// c05PanicNextToBlockedWriter: one handler streams 3KB entries to a client that is not reading and is therefore
// blocked inside Write; another handler of the same connection panics (recovered by gldap). Whatever the recovery does,
// it does not touch the stream: once the client reads, it finds every frame the streaming handler was told it had
// written, once, in order, whole.
func c05PanicNextToBlockedWriter(c *Ctx, r *Rand, round int) {
	var mu sync.Mutex
	okJ := map[int]bool{}
	var writes atomic.Int64
	total := 1500 + r.Intn(1000)
	done := make(chan struct{})
	srv, err := startSrv(SrvCfg{}, func(m *gldap.Mux) {
		m.Search(func(w *gldap.ResponseWriter, req *gldap.Request) {
			defer close(done)
			for j := 0; j < total; j++ {
				e := req.NewSearchResponseEntry(fmt.Sprintf("h=1,j=%d", j))
				e.AddAttribute("p", []string{string(c05Payload(1, j, 3000))})
				err := w.Write(e)
				writes.Add(1)
				if err != nil {
					return
				}
				mu.Lock()
				okJ[j] = true
				mu.Unlock()
			}
			w.Write(req.NewSearchDoneResponse(gldap.WithResponseCode(0)))
		})
		m.Delete(func(w *gldap.ResponseWriter, req *gldap.Request) {
			panic("injected panic next to a blocked writer (C05)")
		})
	})
	if err != nil {
		c.Inconclusive("server start: " + err.Error())
		return
	}
	defer srv.StopWithin(patience)
	cn, err := net.Dial("tcp", srv.Addr)
	if err != nil {
		c.Inconclusive("dial: " + err.Error())
		return
	}
	defer cn.Close()
	cn.Write(sber.Message(1, sber.Search{Base: []byte("dc=x"), Scope: 2, Filter: sber.PresentFilter("cn"), Attrs: [][]byte{}}.Node(), nil).Encode())
	// wait until the writer makes no progress any more (socket buffers full)
	last, still := int64(-1), 0
	for dl := time.Now().Add(10 * time.Second); time.Now().Before(dl) && still < 5; time.Sleep(20 * time.Millisecond) {
		if w := writes.Load(); w == last && w > 0 {
			still++
		} else {
			last, still = w, 0
		}
	}
	blocked := still >= 5
	for k := 0; k < 1+round%3; k++ {
		cn.Write(sber.Message(int64(2+k), sber.DelRequest([]byte("cn=x")), nil).Encode())
	}
	time.Sleep(50 * time.Millisecond)
	br := bufio.NewReaderSize(cn, 64<<10)
	next := 0
	var streamErr error
	for {
		cn.SetReadDeadline(time.Now().Add(5 * time.Second))
		f, err := sber.ReadFrame(br)
		if err != nil {
			streamErr = err
			break
		}
		m, perr := sber.ParseMessage(f)
		if perr != nil {
			streamErr = perr
			break
		}
		c.Count("frames_checked", 1)
		if m.ID != 1 {
			continue // (a response to a delete, should the recovery send one)
		}
		if m.Op.Tag == sber.AppSearchResultDone {
			break
		}
		e, eerr := sber.AsEntry(m.Op)
		var eh, ej int
		if eerr != nil {
			streamErr = eerr
			break
		}
		if _, serr := fmt.Sscanf(string(e.DN), "h=%d,j=%d", &eh, &ej); serr != nil || ej != next || len(e.Attrs) != 1 || string(e.Attrs[0].Vals[0]) != string(c05Payload(1, ej, 3000)) {
			streamErr = fmt.Errorf("frame %q arrived where j=%d was due (or its payload is not its own)", e.DN, next)
			break
		}
		next++
	}
	select {
	case <-done:
	case <-time.After(5 * time.Second):
	}
	mu.Lock()
	defer mu.Unlock()
	det := map[string]any{"round": round, "writer_was_blocked": blocked, "frames_reported_written": len(okJ), "frames_received_in_order": next, "stream_end": fmt.Sprint(streamErr)}
	if streamErr != nil && !isTimeout(streamErr) {
		c.Violate("byte stream is not a concatenation of whole LDAPMessages", fmt.Sprintf("a handler panicked (recovered) while another handler of the connection was blocked in Write: %v", streamErr), det)
	} else if next < len(okJ) {
		c.Violate("frame lost although its Write returned nil", fmt.Sprintf("a handler panicked (recovered) while another handler of the connection was blocked in Write: %d frames reported written, %d received", len(okJ), next), det)
	}
	if blocked {
		c.Count("panics_next_to_a_writer_blocked_in_write", 1)
	}
}

func c05Run(c *Ctx) {
	pki := newPKI()
	r := c.Rng
	if os.Getenv("C05_LIGHT") != "" {
		for _, slow := range []bool{true, false} {
			for _, n := range []int{2, 8} {
				c05One(c, pki, c05Cfg{N: n, K: 6, Transport: "plain", Slow: slow}, r.Sub(fmt.Sprintf("light/%v/%d", slow, n)))
				c05One(c, pki, c05Cfg{N: n, K: 6, Transport: "plain", Slow: slow, ExtraStartTLS: true}, r.Sub(fmt.Sprintf("light/ext/%v/%d", slow, n)))
			}
		}
		c05One(c, pki, c05Cfg{N: 8, K: 6, Transport: "tls", Slow: true, Unbind: true}, r.Sub("light/tls"))
		c05PanicNextToBlockedWriter(c, r.Sub("light/pnw"), 0)
		c.Count("runs_on_a_single_p", 1)
		return
	}
	for i := 0; i < c.N(2, 30); i++ {
		c05WriteTimeout(c, r.Sub(fmt.Sprintf("wt%d", i)), i)
	}
	for i := 0; i < c.N(3, 30); i++ {
		c05PanicNextToBlockedWriter(c, r.Sub(fmt.Sprintf("pnw%d", i)), i)
	}
	for i := 0; i < c.N(6, 60); i++ {
		c05PanicInWrite(c, r.Sub(fmt.Sprintf("piw%d", i)), i)
	}
	for i := 0; i < c.N(6, 80); i++ {
		c05StopDuringWrites(c, r.Sub(fmt.Sprintf("stop%d", i)), i)
	}
	// a client that stops reading for seconds in the middle of the stream: some writer sits in its network write all
	// that time and the others wait for it - however long that takes, they wait
	stallTr := []string{"plain", "starttls"}
	if c.Quick() && os.Getenv("GOMAXPROCS") != "16" {
		stallTr = nil // quick: in one of the phases only
	}
	if !c.Quick() {
		stallTr = []string{"plain", "starttls", "tls", "plain", "plain"}
	}
	for i, tr := range stallTr {
		c05One(c, pki, c05Cfg{N: 4 + 2*(i%2), K: 30, Transport: tr, Stall: time.Duration(2600+900*(i%3)) * time.Millisecond}, r.Sub(fmt.Sprintf("stall/%d", i)))
	}
	c05Bursts(c, r.Sub("bursts"), c.N(4000, 60000))
	ns := []int{2, 8, 64}
	k := 6
	reps := 1
	if !c.Quick() {
		ns = []int{2, 8, 64, 200, 512}
		reps = 3
	}
	for rep := 0; rep < reps; rep++ {
		for _, tr := range []string{"plain", "tls", "starttls"} {
			for _, slow := range []bool{false, true} {
				for _, n := range ns {
					kk := k
					if n >= 200 {
						kk = 3
					}
					c05One(c, pki, c05Cfg{N: n, K: kk, Transport: tr, Slow: slow}, r.Sub(fmt.Sprintf("%d/%s/%v/%d", rep, tr, slow, n)))
					if slow && n <= 64 {
						c05One(c, pki, c05Cfg{N: n, K: kk, Transport: tr, Slow: true, Unbind: true}, r.Sub(fmt.Sprintf("%d/%s/unbind/%d", rep, tr, n)))
					}
					if tr != "starttls" && n <= 64 {
						c05One(c, pki, c05Cfg{N: n, K: kk, Transport: tr, Slow: slow, ExtraStartTLS: true}, r.Sub(fmt.Sprintf("%d/%s/%v/ext/%d", rep, tr, slow, n)))
					}
				}
			}
		}
	}
}
