package main

import (
	"bytes"
	"testing"

	"github.com/jimlambrt/gldap"
)

func TestDbgDecode(t *testing.T) {
	r := NewRand(1)
	errs := map[string]int{}
	for i := 0; i < 20000; i++ {
		q := genReq(r, pick(r, reqKinds))
		var err error
		if m, st := catch(func() { _, err = gldap.VerifReadRequest(bytes.NewReader(q.Encode())) }); m != "" {
			k := "PANIC " + normPanic(m) + " @ " + innermostGldap(st)
			if errs[k] == 0 {
				t.Logf("%s\n  %s", k, q.Sig())
			}
			errs[k]++
			continue
		}
		if err != nil {
			k := normPanic(err.Error())
			if errs[k] == 0 {
				t.Logf("%s\n  %s", err, q.Sig())
			}
			errs[k]++
		}
	}
	for k, v := range errs {
		t.Logf("%6d %s", v, k)
	}
}
