package main

import (
	"bufio"
	"bytes"
	"crypto/ecdsa"
	"crypto/elliptic"
	"crypto/rand"
	"crypto/tls"
	"crypto/x509"
	"crypto/x509/pkix"
	"encoding/hex"
	"encoding/json"
	"errors"
	"fmt"
	"io"
	"math/big"
	"net"
	"os"
	"runtime"
	"strings"
	"sync"
	"sync/atomic"
	"time"

	"github.com/hashicorp/go-hclog"
	"github.com/jimlambrt/gldap"

	"verif/internal/sber"
)

// ---------------------------------------------------------------- event clock

// seq is the process-wide monotonic event counter: every monitor event is
// stamped at the moment it happens.
var seqCounter atomic.Int64

func nextSeq() int64 { return seqCounter.Add(1) }

// ---------------------------------------------------------------- log sink

// logSink captures the server's hclog output (JSON lines) so that recovered
// panics and error-path messages become observable events.
type logSink struct {
	mu     sync.Mutex
	buf    bytes.Buffer
	panics []string // messages of "Caught panic" records
	errors int64
	lines  int64
}

func (l *logSink) Write(p []byte) (int, error) {
	l.mu.Lock()
	defer l.mu.Unlock()
	l.buf.Write(p)
	for {
		b := l.buf.Bytes()
		i := bytes.IndexByte(b, '\n')
		if i < 0 {
			break
		}
		line := append([]byte{}, b[:i]...)
		l.buf.Next(i + 1)
		l.lines++
		if bytes.Contains(line, []byte("Caught panic")) {
			var rec map[string]any
			msg := string(line)
			if json.Unmarshal(line, &rec) == nil {
				if v, ok := rec["conn/req"].(string); ok {
					msg = v
				}
			}
			l.panics = append(l.panics, msg)
		}
		if bytes.Contains(line, []byte(`"@level":"error"`)) || bytes.Contains(line, []byte(" [ERROR] ")) {
			l.errors++
		}
	}
	return len(p), nil
}

func (l *logSink) Panics() []string {
	l.mu.Lock()
	defer l.mu.Unlock()
	return append([]string{}, l.panics...)
}

func (l *logSink) PanicCount() int {
	l.mu.Lock()
	defer l.mu.Unlock()
	return len(l.panics)
}

func (l *logSink) logger(level hclog.Level, text ...bool) hclog.Logger {
	if len(text) > 0 && text[0] {
		// hclog's text format: the one that renders every value with fmt (the library's own default logger is of this kind)
		return hclog.New(&hclog.LoggerOptions{Name: "sut", Level: level, Output: l})
	}
	return hclog.New(&hclog.LoggerOptions{Name: "sut", Level: level, Output: l, JSONFormat: true})
}

// ---------------------------------------------------------------- log gate

// gateLogger wraps the server's logger (a user-supplied object) and parks the goroutine that logs a message
// containing Pattern - once - until Release is closed. It turns gldap's own log statements into schedule points
// without touching gldap's code.
type gateLogger struct {
	hclog.Logger
	Pattern string
	Reached chan struct{}
	Release chan struct{}
	once    sync.Once
}

func newGateLogger(inner hclog.Logger, pattern string) *gateLogger {
	return &gateLogger{Logger: inner, Pattern: pattern, Reached: make(chan struct{}), Release: make(chan struct{})}
}

func (g *gateLogger) gate(msg string) {
	if g.Pattern != "" && strings.Contains(msg, g.Pattern) {
		g.once.Do(func() {
			close(g.Reached)
			select {
			case <-g.Release:
			case <-time.After(patience):
			}
		})
	}
}

func (g *gateLogger) Debug(msg string, args ...interface{}) {
	g.gate(msg)
	g.Logger.Debug(msg, args...)
}
func (g *gateLogger) Info(msg string, args ...interface{}) { g.gate(msg); g.Logger.Info(msg, args...) }
func (g *gateLogger) Error(msg string, args ...interface{}) {
	g.gate(msg)
	g.Logger.Error(msg, args...)
}
func (g *gateLogger) IsDebug() bool { return true }

// ---------------------------------------------------------------- server

// SrvCfg configures a server under test.
type SrvCfg struct {
	TLS            *tls.Config // listener TLS config (nil = plain), given to Run
	CtorTLS        *tls.Config // a TLS config given to NewServer (Run's is the one that counts)
	DisableRecover bool
	ReadTimeout    time.Duration
	WriteTimeout   time.Duration
	LogLevel       hclog.Level
	LogText        bool         // hclog's text format instead of JSON lines
	OnClose        func(id int) // harness callback, called inside OnClose
	NoOnClose      bool
	Addr           string // default 127.0.0.1:0-ish (we pick a free port)
	// RouterFirst: the (still empty) mux is attached with Server.Router BEFORE the routes are registered on it; Run
	// comes last either way
	RouterFirst bool
}

// Srv is a running gldap server plus the monitor's view of it.
type Srv struct {
	S    *gldap.Server
	Mux  *gldap.Mux
	Addr string
	Log  *logSink

	runDone  chan struct{}
	runErr   error
	runRet   atomic.Int64 // seq at which Run returned (0 = still running)
	closeMu  sync.Mutex
	closes   []closeEv
	closeCnt atomic.Int64
}

type closeEv struct {
	ID          int
	Enter, Exit int64
}

func freePort() int {
	// the ephemeral range can be exhausted for a moment by sockets in TIME_WAIT: be patient, not fatal
	var err error
	for i := 0; i < 600; i++ {
		var l net.Listener
		l, err = net.Listen("tcp", "127.0.0.1:0")
		if err == nil {
			defer l.Close()
			return l.Addr().(*net.TCPAddr).Port
		}
		time.Sleep(100 * time.Millisecond)
	}
	panic(err)
}

// harnessLogLevel, when set, is the level of every server whose configuration does not name one (C15 repeats its
// workloads with Debug-level loggers: gldap's debug statements read connection state, too).
var harnessLogLevel hclog.Level

// newSrv builds (but does not run) a server with a fresh mux.
func newSrv(cfg SrvCfg) (*Srv, error) {
	s := &Srv{Log: &logSink{}, runDone: make(chan struct{})}
	lvl := cfg.LogLevel
	if lvl == hclog.NoLevel {
		lvl = hclog.Error
		if harnessLogLevel != hclog.NoLevel {
			lvl = harnessLogLevel
		}
	}
	opts := []gldap.Option{gldap.WithLogger(s.Log.logger(lvl, cfg.LogText))}
	if cfg.CtorTLS != nil {
		opts = append(opts, gldap.WithTLSConfig(cfg.CtorTLS))
	}
	if cfg.DisableRecover {
		opts = append(opts, gldap.WithDisablePanicRecovery())
	}
	if cfg.ReadTimeout != 0 {
		opts = append(opts, gldap.WithReadTimeout(cfg.ReadTimeout))
	}
	if cfg.WriteTimeout != 0 {
		opts = append(opts, gldap.WithWriteTimeout(cfg.WriteTimeout))
	}
	if !cfg.NoOnClose {
		opts = append(opts, gldap.WithOnClose(func(id int) {
			ev := closeEv{ID: id, Enter: nextSeq()}
			if cfg.OnClose != nil {
				cfg.OnClose(id)
			}
			ev.Exit = nextSeq()
			s.closeMu.Lock()
			s.closes = append(s.closes, ev)
			s.closeMu.Unlock()
			s.closeCnt.Add(1)
		}))
	}
	var err error
	s.S, err = gldap.NewServer(opts...)
	if err != nil {
		return nil, err
	}
	s.Mux, err = gldap.NewMux()
	if err != nil {
		return nil, err
	}
	return s, nil
}

// Start runs the server (routes must already be registered on s.Mux) and waits
// until it accepts connections.
func (s *Srv) Start(cfg SrvCfg) error {
	if !cfg.RouterFirst {
		if err := s.S.Router(s.Mux); err != nil {
			return err
		}
	}
	var ropts []gldap.Option
	if cfg.TLS != nil {
		ropts = append(ropts, gldap.WithTLSConfig(cfg.TLS))
	}
	// the harness picks a free port by probing; between the probe and Run's own bind somebody else (another
	// harness goroutine, another process) may take it: that is the harness's problem, so try another port
	for attempt := 0; ; attempt++ {
		addr := cfg.Addr
		if addr == "" {
			addr = fmt.Sprintf("127.0.0.1:%d", freePort())
		}
		s.Addr = addr
		early := make(chan error, 1)
		started := make(chan struct{})
		go func() {
			err := s.S.Run(addr, ropts...)
			select {
			case <-started:
				s.runErr = err
				s.runRet.Store(nextSeq())
				close(s.runDone)
			default:
				early <- err
			}
		}()
		deadline := time.Now().Add(20 * time.Second)
		for {
			select {
			case err := <-early:
				if cfg.Addr == "" && attempt < 20 && err != nil && strings.Contains(err.Error(), "address already in use") {
					goto retry
				}
				s.runErr = err
				close(s.runDone)
				return fmt.Errorf("Run returned early: %v", err)
			default:
			}
			// Ready() is used (not a probe dial) so that the harness itself
			// consumes no connection ID; a failed listen is caught via 'early'.
			if s.S.Ready() {
				close(started)
				// Run may have returned between the Ready() poll and close(started)
				select {
				case err := <-early:
					s.runErr = err
					s.runRet.Store(nextSeq())
					close(s.runDone)
					return fmt.Errorf("Run returned early: %v", err)
				case <-time.After(200 * time.Microsecond):
				}
				return nil
			}
			if time.Now().After(deadline) {
				return fmt.Errorf("server at %s not ready", addr)
			}
			time.Sleep(100 * time.Microsecond)
		}
	retry:
	}
}

// startSrv = newSrv + register + Start.
// Every workload gets some variety in how its servers are set up, whatever it asked for: every third server started
// through startSrv attaches its (still empty) mux before the routes are registered, every fourth one (when the workload
// set no timeouts of its own) runs with read and write timeouts configured - two hours, far beyond any phase. Neither
// changes what a correct server does; both are paths a workload would otherwise never walk.
var srvStarted, srvRouterFirst, srvLongTimeouts atomic.Int64

func startSrv(cfg SrvCfg, register func(m *gldap.Mux)) (*Srv, error) {
	n := srvStarted.Add(1)
	if !cfg.RouterFirst && n%3 == 1 {
		cfg.RouterFirst = true
		srvRouterFirst.Add(1)
	}
	if cfg.ReadTimeout == 0 && cfg.WriteTimeout == 0 && n%4 == 2 {
		cfg.ReadTimeout, cfg.WriteTimeout = 2*time.Hour, 2*time.Hour
		srvLongTimeouts.Add(1)
	}
	s, err := newSrv(cfg)
	if err != nil {
		return nil, err
	}
	if cfg.RouterFirst {
		if err := s.S.Router(s.Mux); err != nil {
			return nil, err
		}
	}
	if register != nil {
		register(s.Mux)
	}
	if err := s.Start(cfg); err != nil {
		return nil, err
	}
	return s, nil
}

// StopWithin calls Stop and reports whether it returned within d.
func (s *Srv) StopWithin(d time.Duration) (bool, error) {
	ch := make(chan error, 1)
	go func() { ch <- s.S.Stop() }()
	select {
	case err := <-ch:
		select {
		case <-s.runDone:
		case <-time.After(d):
			return false, errors.New("Stop returned but Run did not")
		}
		return true, err
	case <-time.After(d):
		return false, nil
	}
}

func (s *Srv) Closes() []closeEv {
	s.closeMu.Lock()
	defer s.closeMu.Unlock()
	return append([]closeEv{}, s.closes...)
}

// WaitCloses waits (patience, not verdict) until n OnClose callbacks completed.
func (s *Srv) WaitCloses(n int64, d time.Duration) bool {
	deadline := time.Now().Add(d)
	for s.closeCnt.Load() < n {
		if time.Now().After(deadline) {
			return false
		}
		time.Sleep(200 * time.Microsecond)
	}
	return true
}

// ---------------------------------------------------------------- raw client

// Client is a raw LDAP client over sber.
type Client struct {
	C     net.Conn
	Under net.Conn // the TCP connection underneath a TLS session (nil for plain connections)
	br    *bufio.Reader
}

func dialRaw(addr string, tc *tls.Config) (*Client, error) {
	d := net.Dialer{Timeout: 10 * time.Second}
	c, err := d.Dial("tcp", addr)
	if err != nil {
		return nil, err
	}
	if tc != nil {
		t := tls.Client(c, tc)
		c.SetDeadline(time.Now().Add(20 * time.Second))
		if err := t.Handshake(); err != nil {
			c.Close()
			return nil, err
		}
		c.SetDeadline(time.Time{})
		return &Client{C: t, Under: c, br: bufio.NewReaderSize(t, 64<<10)}, nil
	}
	return &Client{C: c, br: bufio.NewReaderSize(c, 64<<10)}, nil
}

func wrapClient(c net.Conn) *Client { return &Client{C: c, br: bufio.NewReaderSize(c, 64<<10)} }

func (c *Client) Send(b []byte) error {
	c.C.SetWriteDeadline(time.Now().Add(60 * time.Second))
	_, err := c.C.Write(b)
	return err
}

// patience is how long a client waits for something the server owes it
// before the run is declared inconclusive (never a verdict by itself).
const patience = 30 * time.Second

// ReadFrame reads one raw frame (strict framing).
func (c *Client) ReadFrame(d time.Duration) ([]byte, error) {
	c.C.SetReadDeadline(time.Now().Add(d))
	return sber.ReadFrame(c.br)
}

// ReadMsg reads and strictly parses one LDAPMessage.
func (c *Client) ReadMsg(d time.Duration) (*sber.Msg, error) {
	f, err := c.ReadFrame(d)
	if err != nil {
		return nil, err
	}
	m, err := sber.ParseMessage(f)
	if err != nil {
		return nil, fmt.Errorf("malformed frame %x: %w", trunc(f, 64), err)
	}
	return m, nil
}

// ReadToEOF drains until EOF/err, returning everything read.
func (c *Client) ReadToEOF(d time.Duration) ([]byte, error) {
	c.C.SetReadDeadline(time.Now().Add(d))
	b, err := io.ReadAll(c.br)
	return b, err
}

func (c *Client) Close() { c.C.Close() }

// Reset closes with RST (SO_LINGER 0) when the transport is TCP.
func (c *Client) Reset() {
	if t, ok := c.C.(*net.TCPConn); ok {
		t.SetLinger(0)
	}
	if t, ok := c.Under.(*net.TCPConn); ok {
		// a TLS session whose peer vanishes: RST, no close_notify
		t.SetLinger(0)
		t.Close()
		return
	}
	c.C.Close()
}

// Drop closes the transport without any TLS close_notify (FIN only).
func (c *Client) Drop() {
	if c.Under != nil {
		c.Under.Close()
		return
	}
	c.C.Close()
}

func isTimeout(err error) bool {
	var ne net.Error
	return errors.As(err, &ne) && ne.Timeout()
}

func trunc(b []byte, n int) []byte {
	if len(b) > n {
		return b[:n]
	}
	return b
}

func hx(b []byte) string { return hex.EncodeToString(b) }

func hxs(s string) string { return hex.EncodeToString([]byte(s)) }

// ---------------------------------------------------------------- TLS material

// PKI is harness-generated certificate material.
type PKI struct {
	CAPool      *x509.CertPool
	Server      tls.Certificate
	Client      tls.Certificate // issued by CA
	ForeignCli  tls.Certificate // issued by a different CA
	ExpiredCli  tls.Certificate // issued by CA, expired
	ServerOnly  *tls.Config     // server side: server authentication only
	ServerMTLS  *tls.Config     // server side: client cert required and verified
	ClientPlain *tls.Config     // client side: trusts CA, no certificate
	ClientCert  *tls.Config     // client side: trusts CA, presents Client
}

func genCA(cn string) (*x509.Certificate, *ecdsa.PrivateKey, []byte) {
	key, _ := ecdsa.GenerateKey(elliptic.P256(), rand.Reader)
	tpl := &x509.Certificate{
		SerialNumber: big.NewInt(time.Now().UnixNano()), Subject: pkix.Name{CommonName: cn},
		NotBefore: time.Now().Add(-time.Hour), NotAfter: time.Now().AddDate(1, 0, 0), IsCA: true,
		KeyUsage: x509.KeyUsageCertSign | x509.KeyUsageDigitalSignature, BasicConstraintsValid: true,
		ExtKeyUsage: []x509.ExtKeyUsage{x509.ExtKeyUsageClientAuth, x509.ExtKeyUsageServerAuth},
	}
	der, err := x509.CreateCertificate(rand.Reader, tpl, tpl, &key.PublicKey, key)
	if err != nil {
		panic(err)
	}
	cert, _ := x509.ParseCertificate(der)
	return cert, key, der
}

func genLeaf(ca *x509.Certificate, caKey *ecdsa.PrivateKey, cn string, notBefore, notAfter time.Time) tls.Certificate {
	key, _ := ecdsa.GenerateKey(elliptic.P256(), rand.Reader)
	tpl := &x509.Certificate{
		SerialNumber: big.NewInt(time.Now().UnixNano()), Subject: pkix.Name{CommonName: cn},
		NotBefore: notBefore, NotAfter: notAfter,
		DNSNames: []string{"localhost"}, IPAddresses: []net.IP{net.IPv4(127, 0, 0, 1), net.IPv6loopback},
		KeyUsage:    x509.KeyUsageDigitalSignature,
		ExtKeyUsage: []x509.ExtKeyUsage{x509.ExtKeyUsageClientAuth, x509.ExtKeyUsageServerAuth},
	}
	der, err := x509.CreateCertificate(rand.Reader, tpl, ca, &key.PublicKey, caKey)
	if err != nil {
		panic(err)
	}
	return tls.Certificate{Certificate: [][]byte{der}, PrivateKey: key}
}

func newPKI() *PKI {
	ca, caKey, _ := genCA("verif-ca")
	fca, fKey, _ := genCA("foreign-ca")
	p := &PKI{CAPool: x509.NewCertPool()}
	p.CAPool.AddCert(ca)
	now := time.Now()
	p.Server = genLeaf(ca, caKey, "localhost", now.Add(-time.Hour), now.AddDate(1, 0, 0))
	p.Client = genLeaf(ca, caKey, "client", now.Add(-time.Hour), now.AddDate(1, 0, 0))
	p.ForeignCli = genLeaf(fca, fKey, "foreign-client", now.Add(-time.Hour), now.AddDate(1, 0, 0))
	p.ExpiredCli = genLeaf(ca, caKey, "expired-client", now.AddDate(-2, 0, 0), now.AddDate(-1, 0, 0))
	p.ServerOnly = &tls.Config{Certificates: []tls.Certificate{p.Server}}
	p.ServerMTLS = &tls.Config{Certificates: []tls.Certificate{p.Server}, ClientCAs: p.CAPool, ClientAuth: tls.RequireAndVerifyClientCert}
	p.ClientPlain = &tls.Config{RootCAs: p.CAPool, ServerName: "localhost"}
	p.ClientCert = &tls.Config{RootCAs: p.CAPool, ServerName: "localhost", Certificates: []tls.Certificate{p.Client}}
	return p
}

// ---------------------------------------------------------------- process introspection

// gldapGoroutines returns the goroutine stanzas (from a full dump) that have a
// frame inside gldap. Used at quiescent points: attributable, not a count.
func gldapGoroutines() []string {
	buf := make([]byte, 4<<20)
	for {
		n := runtime.Stack(buf, true)
		if n < len(buf) {
			buf = buf[:n]
			break
		}
		buf = make([]byte, 2*len(buf))
	}
	var out []string
	for _, st := range strings.Split(string(buf), "\n\n") {
		if strings.Contains(st, "github.com/jimlambrt/gldap") {
			out = append(out, st)
		}
	}
	return out
}

// waitNoGldapGoroutines polls (patience) until no goroutine has a gldap frame.
func waitNoGldapGoroutines(d time.Duration) []string {
	deadline := time.Now().Add(d)
	for {
		g := gldapGoroutines()
		if len(g) == 0 || time.Now().After(deadline) {
			return g
		}
		time.Sleep(5 * time.Millisecond)
	}
}

// socketFDs counts socket descriptors of this process.
func socketFDs() int {
	ents, err := os.ReadDir("/proc/self/fd")
	if err != nil {
		return -1
	}
	n := 0
	for _, e := range ents {
		l, err := os.Readlink("/proc/self/fd/" + e.Name())
		if err == nil && strings.HasPrefix(l, "socket:") {
			n++
		}
	}
	return n
}
