package main

import (
	"crypto/tls"
	"fmt"
	"strings"
	"sync"
	"sync/atomic"
	"time"

	"github.com/go-ldap/ldap/v3"
	"github.com/jimlambrt/gldap"

	"verif/internal/sber"
)

func init() {
	register(&Check{
		ID: "C03", Level: "exploration", Primary: "cases", EvalCount: "requests_routed",
		Rule: "route tables = every sequence of up to k routes (k=2 quick, 3 thorough) over a 15-spec alphabet (bind; search with base in {unset,dc=a} x filter in {unset,(cn=x)} x scope in {unset,2}; " +
			"extended A/B/StartTLS-name; modify; add; delete) x {no default, default, default registered twice} x {no unbind route, unbind registered twice}, plus random tables up to length 8 - every tenth one of 13..40 routes - with case variants and scope 1; " +
			"each table is served on a fresh connection the full 40-request alphabet (bind; search over 3 bases x 3 filters x 3 scopes; six spellings - compact, with blanks next to the comma or at the ends, around an escaped comma - of two-RDN base DNs, which the random tables also use as route bases; extended A/B/C; modify; add; delete) plus Unbind, all pipelined; every seventh table by a server of its own whose empty mux was attached (Server.Router) before the routes were registered, every fifth table is served over a TLS listener, every fifth on a server created WithDisablePanicRecovery, and every other table spells a zero scope out as WithScope(BaseObject); search criteria and extended names also come with near misses that are no case variants ([ for {, @ for `, blanks at the ends of a name, an oid. prefix); in every sixth table the handlers hand the request to a worker that answers after they have returned, in every fourth the routes carry (repeated) labels, in every fifth table the route handlers (except those of StartTLS-named routes, which run on the read loop) panic right after they have answered. " +
			"Oracle: 15-line reference model (first matching route, else last-registered default, else built-in refusal). distinct_nontrivial = distinct (route-table signature, request, outcome) triples observed",
		Assume: []string{"re-registering the default or unbind route replaces the earlier registration (last registration wins)"},
		Phases: func(tier string, seed int64) []Phase {
			return []Phase{{Name: "tables", Run: c03Tables}, {Name: "goldap-noroute", Run: c03GoLDAP}}
		},
		MinObserved: []string{"requests_routed", "search_routes_whose_criteria_have_non_letter_near_misses", "outcome/builtin", "outcome/default", "outcome/first_of_several", "outcome/shadowed_later_route", "tables_over_tls", "tables_whose_route_handlers_panic_after_replying", "requests_carrying_controls", "tables_on_a_server_without_panic_recovery", "search_routes_registered_with_an_explicit_zero_scope", "search_routes_with_a_base_dn_of_several_rdns", "tables_whose_routes_were_registered_after_the_mux_was_attached", "tables_with_more_than_twelve_routes", "tables_whose_handlers_answer_after_they_returned", "tables_whose_routes_share_labels"},
	})
}

// rspec is one route specification of the alphabet.
type rspec struct {
	Kind   string // bind search ext modify add delete
	Base   string
	Filter string
	Scope  int
	Name   string
}

func (r rspec) String() string {
	switch r.Kind {
	case "search":
		return fmt.Sprintf("search[%s|%s|%d]", r.Base, r.Filter, r.Scope)
	case "ext":
		return "ext[" + r.Name + "]"
	}
	return r.Kind
}

// creq is one request of the alphabet.
type creq struct {
	Kind   string
	Base   string
	Filter string
	Scope  int
	Name   string
	ID     int64
}

func (q creq) String() string {
	switch q.Kind {
	case "search":
		return fmt.Sprintf("search[%s|%s|%d]", q.Base, q.Filter, q.Scope)
	case "ext":
		return "ext[" + q.Name + "]"
	}
	return q.Kind
}

const (
	extA = "1.1.1.1"
	extB = "1.1.1.2"
	extC = "1.1.1.3"
)

// strings that differ from one another in an octet pair 0x20 apart that is not a letter pair ([ and {, @ and `), next to
// a real case variant: to a route the former are different strings, the latter is the same
var c03NearBases = []string{"ou=[s],dc=a", "ou={s},dc=a", "OU=[S],DC=A"}
var c03NearFilters = []string{"(m=a@b)", "(m=a`b)", "(M=A@B)"}

// extended request names that are almost a routed name: blanks at the ends, an "oid." prefix
var c03NearNames = []string{" " + extA, extA + " ", "oid." + extA, "OID." + extB}

var c03SpacedBases = []string{"ou=p,dc=a", "ou=p, dc=a", "OU=P,DC=A ", " ou=p,dc=a", "cn=s\\, j,dc=a", "cn=s\\,j,dc=a"}

func c03RouteAlphabet() []rspec {
	out := []rspec{{Kind: "bind"}}
	for _, b := range []string{"", "dc=a"} {
		for _, f := range []string{"", "(cn=x)"} {
			for _, s := range []int{0, 2} {
				out = append(out, rspec{Kind: "search", Base: b, Filter: f, Scope: s})
			}
		}
	}
	// the StartTLS name is an extended operation like any other as far as routing goes (it is merely served inline)
	return append(out, rspec{Kind: "ext", Name: extA}, rspec{Kind: "ext", Name: extB}, rspec{Kind: "ext", Name: sber.OIDStartTLS}, rspec{Kind: "modify"}, rspec{Kind: "add"}, rspec{Kind: "delete"})
}

func c03Requests() []creq {
	out := []creq{{Kind: "bind"}}
	for _, b := range []string{"dc=a", "DC=A", "dc=b"} {
		for _, f := range []string{"(cn=x)", "(CN=X)", "(cn=y)"} {
			for s := 0; s < 3; s++ {
				out = append(out, creq{Kind: "search", Base: b, Filter: f, Scope: s})
			}
		}
	}
	// base DNs of more than one RDN, spelled compactly and with blanks (next to the comma, at the ends, around an escaped
	// comma): to a route these are different strings
	for _, b := range c03SpacedBases {
		out = append(out, creq{Kind: "search", Base: b, Filter: "(cn=x)", Scope: 2})
	}
	for i, b := range c03NearBases {
		out = append(out, creq{Kind: "search", Base: b, Filter: c03NearFilters[i], Scope: 2}, creq{Kind: "search", Base: b, Filter: c03NearFilters[(i+1)%3], Scope: 1})
	}
	out = append(out, creq{Kind: "ext", Name: extA}, creq{Kind: "ext", Name: extB}, creq{Kind: "ext", Name: extC}, creq{Kind: "ext", Name: sber.OIDStartTLS}, creq{Kind: "modify"}, creq{Kind: "add"}, creq{Kind: "delete"})
	for _, n := range c03NearNames {
		out = append(out, creq{Kind: "ext", Name: n})
	}
	for i := range out {
		out[i].ID = int64(1000 + i*7)
	}
	return out
}

// c03Match is the reference model of a route's criteria.
func c03Match(r rspec, q creq) bool {
	if r.Kind != q.Kind {
		return false
	}
	switch r.Kind {
	case "search":
		if r.Base != "" && !strings.EqualFold(r.Base, q.Base) {
			return false
		}
		if r.Filter != "" && !strings.EqualFold(r.Filter, q.Filter) {
			return false
		}
		if r.Scope != 0 && r.Scope != q.Scope {
			return false
		}
	case "ext":
		return r.Name == q.Name
	}
	return true
}

// c03Model returns the index of the route that must serve q, -1 for the default route, -2 for the built-in refusal.
func c03Model(table []rspec, nDefault int, q creq) int {
	for i, r := range table {
		if c03Match(r, q) {
			return i
		}
	}
	if nDefault > 0 {
		return -1
	}
	return -2
}

func (q creq) encode() []byte {
	var op *sber.Node
	switch q.Kind {
	case "bind":
		op = sber.BindRequest(3, []byte("cn=u"), []byte("p"))
	case "search":
		p, err := ldap.CompileFilter(q.Filter)
		if err != nil {
			panic(err)
		}
		f, _ := sber.ParseAll(p.Bytes())
		op = sber.Search{Base: []byte(q.Base), Scope: int64(q.Scope), Filter: f, Attrs: [][]byte{}}.Node()
	case "ext":
		op = sber.ExtendedRequest([]byte(q.Name), nil, false)
	case "modify":
		op = sber.ModifyRequest([]byte("cn=u"), nil)
	case "add":
		op = sber.AddRequest([]byte("cn=u"), nil)
	case "delete":
		op = sber.DelRequest([]byte("cn=u"))
	}
	// controls are none of routing's business: a quarter of the requests carry some (a critical control of a type gldap
	// has no decoder for, a non-critical one, a critical ManageDsaIT) - they are routed like the others
	var ctls []sber.Control
	if q.ID%8 == 1 || q.ID%8 == 3 {
		c03WithControls.Add(1)
	}
	switch q.ID % 8 {
	case 1:
		ctls = []sber.Control{{OID: "1.3.6.1.4.1.99999.1", Crit: true, HasValue: true, Value: []byte("v")}}
	case 3:
		ctls = []sber.Control{{OID: "1.3.6.1.4.1.99999.2"}, {OID: "2.16.840.1.113730.3.4.2", Crit: true}}
	}
	return sber.Message(q.ID, op, ctls).Encode()
}

var c03RespTag = map[string]int{"bind": 1, "search": 5, "modify": 7, "add": 9, "delete": 11, "ext": 24}

type c03Rec struct {
	Handler string
	ID      int64
	Kind    string
}

type c03Table struct {
	Routes   []rspec
	NDefault int
	NUnbind  int
}

func (t c03Table) sig() string {
	var p []string
	for _, r := range t.Routes {
		p = append(p, r.String())
	}
	return fmt.Sprintf("%s/d%d/u%d", strings.Join(p, ","), t.NDefault, t.NUnbind)
}

// c03RunTable serves the whole request alphabet against one route table.
var c03TableCtr, c03WithControls atomic.Int64

func c03RunTable(c *Ctx, srv *Srv, t c03Table, reqs []creq) { c03RunTableOn(c, srv, nil, t, reqs) }

// noRecover: the server was created WithDisablePanicRecovery (handlers must not panic there).
func c03RunTableOn(c *Ctx, srv *Srv, ctc *tls.Config, t c03Table, reqs []creq, noRecover ...bool) {
	var mu sync.Mutex
	var recs []c03Rec
	tableNo := c03TableCtr.Add(1)
	panicky := tableNo%5 == 4 && len(noRecover) == 0
	if panicky {
		c.Count("tables_whose_route_handlers_panic_after_replying", 1)
	}
	// every sixth table's handlers answer asynchronously (from a worker goroutine, after they have returned); every
	// fourth table labels its routes - with two labels only, so labels repeat (a label is a name for logs, nothing more)
	async := tableNo%6 == 2 && !panicky
	labelled := tableNo%4 == 1
	var asyncWG sync.WaitGroup
	if async {
		c.Count("tables_whose_handlers_answer_after_they_returned", 1)
	}
	if labelled {
		c.Count("tables_whose_routes_share_labels", 1)
	}
	mk := func(name string, mayPanic bool) gldap.HandlerFunc {
		return func(w *gldap.ResponseWriter, r *gldap.Request) {
			o := observe(name, r)
			mu.Lock()
			recs = append(recs, c03Rec{Handler: name, ID: o.ID, Kind: o.Kind})
			mu.Unlock()
			// the reply names the handler that produced it: the client sees, per
			// message ID, exactly which handlers ran (also for extended requests,
			// whose message ID no getter exposes)
			if async {
				// the handler hands the request to a worker and returns; the worker answers a moment later (the request
				// HAS been taken by this handler: nobody else gets to serve or refuse it)
				asyncWG.Add(1)
				go func() {
					defer asyncWG.Done()
					time.Sleep(2 * time.Millisecond)
					replyWithDiag(o.Kind, w, r, "H:"+name)
				}()
				return
			}
			replyWithDiag(o.Kind, w, r, "H:"+name)
			if panicky && mayPanic {
				// the handler has answered and now fails (recovered by gldap): the request has been served - by this
				// handler, once - and nobody else gets to serve or refuse it
				panic("injected panic after the reply (C03)")
			}
		}
	}
	var regErr error
	register := func(m *gldap.Mux) {
		for i, r := range t.Routes {
			h := mk(fmt.Sprintf("R%d", i), true)
			if r.Kind == "ext" && r.Name == sber.OIDStartTLS {
				// a StartTLS-named route runs on the connection's read loop: a panic there ends the connection (C07's
				// subject), so this handler does not panic
				h = mk(fmt.Sprintf("R%d", i), false)
			}
			var err error
			var lab []gldap.Option
			if labelled {
				lab = []gldap.Option{gldap.WithLabel(fmt.Sprintf("L%d", i%2))}
			}
			switch r.Kind {
			case "bind":
				err = m.Bind(h, lab...)
			case "search":
				opts := append([]gldap.Option{}, lab...)
				if r.Base != "" {
					opts = append(opts, gldap.WithBaseDN(r.Base))
				}
				if r.Filter != "" {
					opts = append(opts, gldap.WithFilter(r.Filter))
				}
				if r.Scope != 0 || tableNo%2 == 0 {
					// every other table spells the zero scope out: WithScope(BaseObject) is "no scope criterion" as well
					opts = append(opts, gldap.WithScope(gldap.Scope(r.Scope)))
					if r.Scope == 0 {
						c.Count("search_routes_registered_with_an_explicit_zero_scope", 1)
					}
				}
				err = m.Search(h, opts...)
			case "ext":
				err = m.ExtendedOperation(h, gldap.ExtendedOperationName(r.Name), lab...)
			case "modify":
				err = m.Modify(h, lab...)
			case "add":
				err = m.Add(h, lab...)
			case "delete":
				err = m.Delete(h, lab...)
			}
			if err != nil {
				regErr = err
				return
			}
		}
		for i := 1; i <= t.NDefault; i++ {
			m.DefaultRoute(mk(fmt.Sprintf("D%d", i), false))
		}
		for i := 1; i <= t.NUnbind; i++ {
			m.Unbind(mk(fmt.Sprintf("U%d", i), false))
		}
	}
	// every seventh table (on the plain, recovering server) is served by a server of its own whose (still empty) mux
	// was attached with Server.Router BEFORE the routes were registered on it - Run comes last either way
	if tableNo%7 == 3 && ctc == nil && len(noRecover) == 0 {
		fresh, err := startSrv(SrvCfg{RouterFirst: true}, register)
		if err != nil || regErr != nil {
			c.Inconclusive(fmt.Sprintf("router-first server: %v %v", err, regErr))
			return
		}
		defer fresh.StopWithin(patience)
		srv = fresh
		c.Count("tables_whose_routes_were_registered_after_the_mux_was_attached", 1)
	} else {
		m, _ := gldap.NewMux()
		register(m)
		if regErr != nil {
			c.Inconclusive("route registration failed: " + regErr.Error())
			return
		}
		if err := srv.S.Router(m); err != nil {
			c.Inconclusive("Router: " + err.Error())
			return
		}
	}
	cl, err := dialRaw(srv.Addr, ctc)
	if err != nil {
		c.Inconclusive("dial: " + err.Error())
		return
	}
	defer cl.Close()
	var all []byte
	for _, q := range reqs {
		all = append(all, q.encode()...)
	}
	const unbindID = 999999
	unbindFrame := sber.Message(unbindID, sber.UnbindRequest(), nil).Encode()
	if !async {
		all = append(all, unbindFrame...)
	}
	go cl.Send(all)
	// read every frame until the server ends the connection
	type resp struct {
		tag      int
		code     int64
		n        int
		handlers []string
	}
	got := map[int64]*resp{}
	frames, unbindSent := 0, !async
	for {
		if !unbindSent && frames >= len(reqs) {
			// (asynchronous tables: the Unbind goes out once every request has had an answer and the workers are done,
			// a moment later - so that an answer too many would still be seen)
			asyncWG.Wait()
			time.Sleep(10 * time.Millisecond)
			cl.Send(unbindFrame)
			unbindSent = true
		}
		wait := patience
		if !unbindSent {
			wait = 5 * time.Second
		}
		msg, err := cl.ReadMsg(wait)
		if err != nil && !unbindSent && isTimeout(err) {
			cl.Send(unbindFrame) // an answer is missing: judged below
			unbindSent = true
			continue
		}
		frames++
		if err != nil {
			if isTimeout(err) {
				c.Inconclusive("no EOF after the pipeline + unbind on table " + t.sig())
				return
			}
			if !strings.Contains(err.Error(), "EOF") && !strings.Contains(err.Error(), "reset") {
				c.Violate("malformed response frame", err.Error(), map[string]any{"table": t.sig()})
			}
			break
		}
		r := got[msg.ID]
		if r == nil {
			r = &resp{}
			got[msg.ID] = r
		}
		r.n++
		r.tag = msg.Op.Tag
		if res, err := sber.AsResult(msg.Op); err == nil {
			r.code = res.Code
			if strings.HasPrefix(string(res.Diag), "H:") {
				r.handlers = append(r.handlers, string(res.Diag[2:]))
			}
		} else {
			r.code = -1
		}
	}
	// EOF: gldap closes only after every handler returned, so recs is complete
	mu.Lock()
	defer mu.Unlock()
	byID := map[int64][]c03Rec{}
	for _, rc := range recs {
		if rc.Kind == "unbind" {
			byID[rc.ID] = append(byID[rc.ID], rc)
		}
	}
	for id, r := range got {
		for _, h := range r.handlers {
			byID[id] = append(byID[id], c03Rec{Handler: h, ID: id})
		}
	}
	c.Count("handler_invocations_recorded", int64(len(recs)))
	nresp := 0
	for _, r := range got {
		nresp += len(r.handlers)
	}
	if nonUnbind := len(recs) - len(byID[unbindID]); nonUnbind != nresp {
		c.Violate("handler invocations and handler-signed responses disagree", fmt.Sprintf("%d handler invocations, %d responses signed by a handler", nonUnbind, nresp), map[string]any{"table": t.sig()})
	}
	detail := func(q creq) map[string]any {
		return map[string]any{"table": t.sig(), "request": q.String(), "message_id": q.ID, "handlers_that_ran": byID[q.ID]}
	}
	for _, q := range reqs {
		want := c03Model(t.Routes, t.NDefault, q)
		rs := byID[q.ID]
		c.Count("requests_routed", 1)
		var outcome string
		switch {
		case want == -2:
			outcome = "builtin"
		case want == -1:
			outcome = "default"
		default:
			outcome = "single_match"
			later := 0
			for j := want + 1; j < len(t.Routes); j++ {
				if c03Match(t.Routes[j], q) {
					later++
				}
			}
			if later > 0 {
				outcome = "first_of_several"
			}
			for j := 0; j < want; j++ {
				if t.Routes[j].Kind == q.Kind {
					outcome2 := "shadowed_later_route" // an earlier route of the same kind did not match
					c.Count("outcome/"+outcome2, 1)
					break
				}
			}
		}
		c.Count("outcome/"+outcome, 1)
		c.Distinct("cases", t.sig()+"|"+q.String()+"|"+outcome)
		r := got[q.ID]
		switch want {
		case -2:
			if len(rs) != 0 {
				c.Violate("request without a matching route reached a handler", fmt.Sprintf("%s served by %v", q, rs), detail(q))
			}
			if r == nil || r.n != 1 {
				n := 0
				if r != nil {
					n = r.n
				}
				c.Violate("built-in refusal missing or duplicated", fmt.Sprintf("%s: %d response frames", q, n), detail(q))
			} else {
				if r.code != 53 {
					c.Violate("built-in refusal has the wrong result code", fmt.Sprintf("%s: result code %d", q, r.code), detail(q))
				}
				if r.tag != c03RespTag[q.Kind] {
					c.Violate("built-in refusal has the wrong response type", fmt.Sprintf("%s request refused with protocolOp tag %d, the response type of that operation is %d", q.Kind, r.tag, c03RespTag[q.Kind]), detail(q))
				}
			}
		default:
			wantH := fmt.Sprintf("R%d", want)
			if want == -1 {
				wantH = fmt.Sprintf("D%d", t.NDefault)
			}
			switch {
			case len(rs) == 0:
				c.Violate("request silently dropped (no handler ran)", fmt.Sprintf("%s should be served by %s", q, wantH), detail(q))
			case len(rs) > 1:
				c.Violate("request handled more than once", fmt.Sprintf("%s served by %v, model says %s only", q, rs, wantH), detail(q))
			case rs[0].Handler != wantH:
				c.Violate("request served by a route other than the first matching one", fmt.Sprintf("%s served by %s, model says %s", q, rs[0].Handler, wantH), detail(q))
			}
			if r == nil || r.n != 1 {
				n := 0
				if r != nil {
					n = r.n
				}
				c.Violate("request did not get exactly one response", fmt.Sprintf("%s: %d response frames", q, n), detail(q))
			}
		}
	}
	// unbind: never routed, unbind handler (last registered) exactly once when registered
	ub := byID[unbindID]
	switch {
	case t.NUnbind == 0 && len(ub) != 0:
		c.Violate("unbind request reached a handler without an unbind route", fmt.Sprint(ub), map[string]any{"table": t.sig()})
	case t.NUnbind > 0 && (len(ub) != 1 || ub[0].Handler != fmt.Sprintf("U%d", t.NUnbind)):
		c.Violate("unbind handler did not run exactly once", fmt.Sprint(ub), map[string]any{"table": t.sig()})
	}
	if got[unbindID] != nil {
		c.Violate("a response was sent to the unbind request", "", map[string]any{"table": t.sig()})
	}
	for id := range byID {
		known := id == unbindID
		for _, q := range reqs {
			if q.ID == id {
				known = true
			}
		}
		if !known {
			c.Violate("handler ran for a request the client did not send", fmt.Sprintf("message id %d", id), map[string]any{"table": t.sig()})
		}
	}
	c.Count("tables", 1)
	c.Count("requests_carrying_controls", c03WithControls.Swap(0))
}

func c03Tables(c *Ctx) {
	pki := newPKI()
	alpha := c03RouteAlphabet()
	reqs := c03Requests()
	k := c.N(2, 3)
	var tables []c03Table
	var gen func(prefix []rspec)
	gen = func(prefix []rspec) {
		for _, nd := range []int{0, 1, 2} {
			for _, nu := range []int{0, 2} {
				tables = append(tables, c03Table{Routes: append([]rspec{}, prefix...), NDefault: nd, NUnbind: nu})
			}
		}
		if len(prefix) == k {
			return
		}
		for _, r := range alpha {
			gen(append(prefix, r))
		}
	}
	gen(nil)
	c.Note("exhaustive_route_sequences_up_to_length", k)
	c.Count("exhaustive_tables", int64(len(tables)))
	// random tables with case variants and scope 1
	r := c.Rng
	for i := 0; i < c.N(300, 5000); i++ {
		var t c03Table
		nroutes := 1 + r.Intn(8)
		if i%10 == 7 {
			nroutes = 13 + r.Intn(28) // a long table now and then (13..40 routes; most of them search routes, see below)
			c.Count("tables_with_more_than_twelve_routes", 1)
		}
		for j, n := 0, nroutes; j < n; j++ {
			sp := pick(r, alpha)
			if nroutes > 12 && j < n-3 && r.Chance(70) {
				sp = rspec{Kind: "search"}
			}
			if sp.Kind == "search" {
				sp.Base = pick(r, append([]string{"", "dc=a", "DC=A", "dc=b", "Dc=a"}, c03SpacedBases...))
				if strings.Contains(sp.Base, ",") {
					c.Count("search_routes_with_a_base_dn_of_several_rdns", 1)
				}
				sp.Filter = pick(r, []string{"", "(cn=x)", "(CN=X)", "(cn=y)", "(Cn=X)"})
				sp.Scope = r.Intn(3)
				if r.Chance(12) {
					sp.Base, sp.Filter = pick(r, append([]string{""}, c03NearBases...)), pick(r, append([]string{""}, c03NearFilters...))
					if sp.Base != "" || sp.Filter != "" {
						c.Count("search_routes_whose_criteria_have_non_letter_near_misses", 1)
					}
				}
			}
			if sp.Kind == "ext" {
				sp.Name = pick(r, []string{extA, extB, extC})
			}
			t.Routes = append(t.Routes, sp)
		}
		t.NDefault = r.Intn(3)
		t.NUnbind = r.Intn(3)
		tables = append(tables, t)
	}
	workers := 16
	var next atomic.Int64
	var wg sync.WaitGroup
	for w := 0; w < workers; w++ {
		wg.Add(1)
		go func() {
			defer wg.Done()
			srv, err := startSrv(SrvCfg{}, nil)
			if err != nil {
				c.Inconclusive("server start: " + err.Error())
				return
			}
			tlsSrv, err := startSrv(SrvCfg{TLS: pki.ServerOnly}, nil)
			if err != nil {
				c.Inconclusive("server start: " + err.Error())
				return
			}
			defer tlsSrv.StopWithin(patience)
			noRecSrv, err := startSrv(SrvCfg{DisableRecover: true}, nil)
			if err != nil {
				c.Inconclusive("server start: " + err.Error())
				return
			}
			defer noRecSrv.StopWithin(patience)
			for {
				i := int(next.Add(1)) - 1
				if i >= len(tables) {
					break
				}
				if i%5 == 2 {
					// the same routing on a server created WithDisablePanicRecovery (how a handler is invoked differs there)
					c03RunTableOn(c, noRecSrv, nil, tables[i], reqs, true)
					c.Count("tables_on_a_server_without_panic_recovery", 1)
					continue
				}
				if i%5 == 4 {
					// the same routing over a TLS listener (the connection state must not change which handler is chosen)
					c03RunTableOn(c, tlsSrv, pki.ClientPlain, tables[i], reqs)
					c.Count("tables_over_tls", 1)
					continue
				}
				c03RunTable(c, srv, tables[i], reqs)
				// thorough: every 4th table is also served in reverse request order on the SAME mux via a second table run
				// sharing nothing but gldap's own state (route resolution must not depend on what was served before)
				if i%4 == 0 {
					rev := make([]creq, len(reqs))
					for k := range reqs {
						rev[k] = reqs[len(reqs)-1-k]
					}
					c03RunTable(c, srv, tables[i], rev)
				}
				if i == 40 || i == len(tables)-3 {
					c.Sample(map[string]any{"table": tables[i].sig(), "requests": len(reqs) + 1})
				}
			}
			srv.StopWithin(patience)
		}()
	}
	wg.Wait()
}

// c03GoLDAP: a conforming client must recognise the built-in refusal as the final answer.
func c03GoLDAP(c *Ctx) {
	srv, err := startSrv(SrvCfg{}, nil) // no routes, no default
	if err != nil {
		c.Inconclusive("server start: " + err.Error())
		return
	}
	defer srv.StopWithin(patience)
	ops := []string{"bind", "search", "modify", "add", "delete", "whoami"}
	for rep := 0; rep < c.N(2, 20); rep++ {
		for _, op := range ops {
			// raw observation of the same refusal first (the logical fact)
			rawOK := true
			if cl, err := dialRaw(srv.Addr, nil); err == nil {
				kind := op
				if op == "whoami" {
					kind = "ext"
				}
				q := creq{Kind: kind, Base: "dc=a", Filter: "(cn=x)", Name: sber.OIDWhoAmI, ID: 5}
				cl.Send(q.encode())
				m, err := cl.ReadMsg(patience)
				if err != nil || m.ID != 5 || m.Op.Tag != c03RespTag[kind] {
					rawOK = false
				}
				cl.Close()
			}
			lc, err := ldap.DialURL("ldap://" + srv.Addr)
			if err != nil {
				c.Inconclusive("go-ldap dial: " + err.Error())
				continue
			}
			lc.SetTimeout(3 * time.Second)
			var e error
			switch op {
			case "bind":
				e = lc.Bind("cn=u", "p")
			case "search":
				_, e = lc.Search(ldap.NewSearchRequest("dc=a", 2, 0, 0, 0, false, "(cn=x)", nil, nil))
			case "modify":
				mr := ldap.NewModifyRequest("cn=u", nil)
				mr.Replace("a", []string{"b"})
				e = lc.Modify(mr)
			case "add":
				ar := ldap.NewAddRequest("cn=u", nil)
				ar.Attribute("a", []string{"b"})
				e = lc.Add(ar)
			case "delete":
				e = lc.Del(ldap.NewDelRequest("cn=u", nil))
			case "whoami":
				_, e = lc.WhoAmI(nil)
			}
			lc.Close()
			c.Count("goldap_noroute_ops", 1)
			c.Count("requests_routed", 1)
			c.Distinct("cases", "goldap-noroute|"+op)
			switch {
			case ldap.IsErrorWithCode(e, 53):
				// recognised as the final answer: unwillingToPerform
			case e != nil && strings.Contains(e.Error(), "timed out"):
				if rawOK {
					c.Inconclusive("go-ldap " + op + " timed out although the raw client saw a well-typed refusal")
				} else {
					c.Violate("built-in refusal has the wrong response type", "a conforming client (go-ldap "+op+") did not recognise the refusal as the final answer and waited until its timeout: "+e.Error(), map[string]any{"op": op})
				}
			case !rawOK:
				c.Violate("built-in refusal has the wrong response type", fmt.Sprintf("a conforming client (go-ldap %s) did not recognise the refusal: %v", op, e), map[string]any{"op": op})
			default:
				c.Violate("conforming client does not see unwillingToPerform for an unrouted request", fmt.Sprintf("go-ldap %s returned %v", op, e), map[string]any{"op": op})
			}
		}
	}
}
