package main

import (
	"bytes"
	"crypto/ecdsa"
	"crypto/elliptic"
	"crypto/rand"
	"crypto/tls"
	"crypto/x509"
	"crypto/x509/pkix"
	"encoding/pem"
	"fmt"
	"io"
	"math/big"
	"net"
	"os"
	"path/filepath"
	"strings"
	"sync"
	"sync/atomic"
	"time"

	"github.com/hashicorp/go-hclog"
	"github.com/jimlambrt/gldap"
	"github.com/jimlambrt/gldap/testdirectory"

	"verif/internal/sber"
)

func init() {
	register(&Check{
		ID: "C18", Level: "exploration", Primary: "behaviours", EvalCount: "offending_connections",
		Rule: "TLS configurations {server authentication only (also with a TLS 1.3 minimum, against clients that go no further than 1.2); client certificate required and verified (harness PKI on a gldap.Server, and testdirectory.Start(WithMTLS))} x offending client behaviours {plaintext LDAP request of each of " +
			"the seven operations carrying a unique tag; arbitrary bytes; TCP connect without ClientHello; partial ClientHello; and - where a certificate is required - a TLS 1.2 and a TLS 1.3 handshake without certificate " +
			"followed immediately by a tagged bind (in TLS 1.3 the client finishes first, so the request is already in flight when the server rejects), a certificate from a different CA, an expired certificate, certificate-less and foreign-CA clients that offer TLS 1.0/1.1 only, and a client certificate that is valid for ANOTHER test directory / GetTLSConfig call of the same process}; plaintext requests are also followed by further writes on the same socket; a session that satisfies the configuration is closed with close_notify both ways and the client then sends a tagged plaintext request on the same TCP connection; " +
			"run concurrently with conforming clients that are verified; also crafted chains (a foreign leaf followed by certificates the configured CA did issue), configurations that deliver their certificate or themselves through callbacks (one of them on top of a lenient outer configuration, on a server that logs at Debug level), a different configuration given to NewServer, and abandoned handshakes held open while a conforming client must be served within 10s; every server is stopped while three peers that never got through a handshake are still connected (the mux also routes the Notice-of-Disconnection name); TLS ports are probed (plaintext, no certificate, conforming) after accept outages of 40ms, 400ms and 1.5s (descriptor shortage), and after a further Run with a port-less address (and no option, or a laxer configuration) on the running server had failed; test directories (TLS, WithMTLS) are started on a port somebody else still holds for 150ms/450ms: whatever answers there afterwards does not answer plaintext; the directory is also offered a certificate forged below its own client certificate (signed with that certificate's key, presented with it as intermediate; TLS 1.2 and 1.3). Oracle: after each offending connection has been reported closed, no handler record (recording handlers / the test directory's own handler log) carries an offending tag. " +
			"distinct_nontrivial = distinct (configuration, behaviour, operation) combinations",
		Assume: []string{"for the test directory, handler execution is observed through its own Info-level handler log lines (bind/search/add/modify/delete handlers log the DN) and through directory state"},
		Phases: func(tier string, seed int64) []Phase {
			return []Phase{{Name: "gating", Run: c18Run}, {Name: "testdirectory-mtls", Run: c18Directory}}
		},
		MinObserved: []string{"offending_connections", "tls_ports_probed_after_a_further_run_had_failed", "directories_started_on_a_port_that_was_still_taken", "tls_ports_probed_after_an_accept_outage", "conforming_ops_verified", "tls13_no_cert_requests_in_flight", "directory_offending_connections", "stranger_certificates_prepared", "certificates_forged_below_the_directorys_client_certificate", "conforming_clients_served_next_to_abandoned_handshakes", "sessions_carried_over_to_a_server_with_another_ca", "conforming_sessions_closed_properly_then_continued_in_plaintext", "stops_with_abandoned_handshakes_pending", "configurations_with_a_tls13_minimum_checked"},
	})
}

var c18Tag atomic.Int64

// c18Frames returns the seven tagged plaintext requests.
func c18Frames(tag string) map[string][]byte {
	return map[string][]byte{
		"bind":     sber.Message(1, sber.BindRequest(3, []byte(tag), []byte("p")), nil).Encode(),
		"search":   sber.Message(2, sber.Search{Base: []byte(tag), Scope: 2, Filter: sber.PresentFilter("cn"), Attrs: [][]byte{}}.Node(), nil).Encode(),
		"modify":   sber.Message(3, sber.ModifyRequest([]byte(tag), nil), nil).Encode(),
		"add":      sber.Message(4, sber.AddRequest([]byte(tag), []sber.Attr{{Type: []byte("cn"), Vals: [][]byte{[]byte("x")}}}), nil).Encode(),
		"delete":   sber.Message(5, sber.DelRequest([]byte(tag)), nil).Encode(),
		"extended": sber.Message(6, sber.ExtendedRequest([]byte("1.6.6.6"), nil, false), nil).Encode(),
		"unbind":   sber.Message(7, sber.UnbindRequest(), nil).Encode(),
		"starttls": sber.Message(8, sber.ExtendedRequest([]byte(sber.OIDStartTLS), nil, false), nil).Encode(),
	}
}

var c18Ops = []string{"bind", "search", "modify", "add", "delete", "extended", "unbind"}

type c18Behaviour struct {
	Name string
	Op   string
	Run  func(addr, tag string, pki *PKI) (inFlight bool)
}

func c18TLSThenBind(cfg *tls.Config, op string) func(addr, tag string, pki *PKI) bool {
	return func(addr, tag string, pki *PKI) bool {
		cn, err := net.DialTimeout("tcp", addr, 5*time.Second)
		if err != nil {
			return false
		}
		defer cn.Close()
		tc := tls.Client(cn, cfg)
		cn.SetDeadline(time.Now().Add(10 * time.Second))
		if err := tc.Handshake(); err != nil {
			return false // rejected during the handshake
		}
		// the client believes the handshake is complete: the request goes out at once
		_, werr := tc.Write(c18Frames(tag)[op])
		buf := make([]byte, 4096)
		tc.Read(buf)
		return werr == nil
	}
}

func c18Behaviours(mtls bool, pki *PKI, postOp string) []c18Behaviour {
	var out []c18Behaviour
	for _, op := range c18Ops {
		op := op
		out = append(out, c18Behaviour{"plaintext-" + op, op, func(addr, tag string, _ *PKI) bool {
			cn, err := net.DialTimeout("tcp", addr, 5*time.Second)
			if err != nil {
				return false
			}
			defer cn.Close()
			cn.Write(c18Frames(tag)[op])
			cn.SetReadDeadline(time.Now().Add(5 * time.Second))
			buf := make([]byte, 4096)
			cn.Read(buf)
			return true
		}})
	}
	for _, op := range []string{"bind", "search", "add"} {
		op := op
		out = append(out, c18Behaviour{"plaintext-" + op + "-then-second-write", op, func(addr, tag string, _ *PKI) bool {
			// a first plaintext request, whatever the server answers is read, then - on the same socket - the tagged request
			// again in separate writes
			cn, err := net.DialTimeout("tcp", addr, 5*time.Second)
			if err != nil {
				return false
			}
			defer cn.Close()
			buf := make([]byte, 4096)
			cn.Write(c18Frames("first-" + tag)[op])
			for k := 0; k < 3; k++ {
				cn.SetReadDeadline(time.Now().Add(150 * time.Millisecond))
				cn.Read(buf)
				if _, err := cn.Write(c18Frames(tag)[op]); err != nil {
					break
				}
			}
			cn.SetReadDeadline(time.Now().Add(2 * time.Second))
			cn.Read(buf)
			return true
		}})
	}
	out = append(out,
		c18Behaviour{"arbitrary-bytes", "", func(addr, tag string, _ *PKI) bool {
			cn, err := net.DialTimeout("tcp", addr, 5*time.Second)
			if err != nil {
				return false
			}
			defer cn.Close()
			cn.Write(NewRand(uint64(len(tag))).Bytes(200))
			cn.SetReadDeadline(time.Now().Add(3 * time.Second))
			buf := make([]byte, 4096)
			cn.Read(buf)
			return true
		}},
		c18Behaviour{"connect-no-hello", "", func(addr, tag string, _ *PKI) bool {
			cn, err := net.DialTimeout("tcp", addr, 5*time.Second)
			if err != nil {
				return false
			}
			time.Sleep(2 * time.Millisecond)
			cn.Close()
			return true
		}},
		c18Behaviour{"partial-hello", "", func(addr, tag string, _ *PKI) bool {
			cn, err := net.DialTimeout("tcp", addr, 5*time.Second)
			if err != nil {
				return false
			}
			cn.Write([]byte{0x16, 0x03, 0x01, 0x00, 0xc8, 0x01, 0x00, 0x00, 0xc4, 0x03, 0x03})
			time.Sleep(2 * time.Millisecond)
			cn.Close()
			return true
		}},
		c18Behaviour{"hello-then-plaintext-bind", "bind", func(addr, tag string, _ *PKI) bool {
			// a handshake that is abandoned half-way, followed by plaintext LDAP on the same socket
			cn, err := net.DialTimeout("tcp", addr, 5*time.Second)
			if err != nil {
				return false
			}
			defer cn.Close()
			cn.Write([]byte{0x16, 0x03, 0x01, 0x00, 0x02, 0x01, 0x00})
			cn.Write(c18Frames(tag)["bind"])
			cn.SetReadDeadline(time.Now().Add(3 * time.Second))
			buf := make([]byte, 4096)
			cn.Read(buf)
			return true
		}},
	)
	// a session that satisfies the configuration is closed properly (close_notify both ways) by a client that keeps the
	// TCP connection and then speaks plaintext LDAP on it: the TLS port has no "TLS layer removed" state
	for _, v := range []uint16{tls.VersionTLS12, tls.VersionTLS13} {
		for _, op := range []string{"bind", "search", "unbind"} {
			v, op := v, op
			out = append(out, c18Behaviour{fmt.Sprintf("conforming-session-%x-closed-then-plaintext-%s", v, op), op, func(addr, tag string, pki *PKI) bool {
				cfg := &tls.Config{RootCAs: pki.CAPool, ServerName: "localhost", InsecureSkipVerify: true, MinVersion: v, MaxVersion: v}
				if mtls {
					cfg.Certificates = []tls.Certificate{pki.Client}
				}
				cn, err := net.DialTimeout("tcp", addr, 5*time.Second)
				if err != nil {
					return false
				}
				defer cn.Close()
				tc := tls.Client(cn, cfg)
				cn.SetDeadline(time.Now().Add(10 * time.Second))
				if err := tc.Handshake(); err != nil {
					return false
				}
				tc.CloseWrite()
				buf := make([]byte, 4096)
				for {
					if _, err := tc.Read(buf); err != nil {
						break
					}
				}
				cn.SetDeadline(time.Now().Add(3 * time.Second))
				cn.Write(c18Frames(tag)[op])
				cn.Read(buf)
				return true
			}})
		}
	}
	if mtls {
		noCert := func(min, max uint16) *tls.Config {
			return &tls.Config{RootCAs: pki.CAPool, ServerName: "localhost", MinVersion: min, MaxVersion: max, InsecureSkipVerify: true}
		}
		with := func(cert tls.Certificate) *tls.Config {
			return &tls.Config{RootCAs: pki.CAPool, ServerName: "localhost", Certificates: []tls.Certificate{cert}, InsecureSkipVerify: true}
		}
		out = append(out,
			c18Behaviour{"tls12-no-certificate", postOp, c18TLSThenBind(noCert(tls.VersionTLS12, tls.VersionTLS12), postOp)},
			// ... and followed by the operations a server treats specially (served on the read loop): Unbind, StartTLS
			c18Behaviour{"tls12-no-certificate-then-unbind", "unbind", c18TLSThenBind(noCert(tls.VersionTLS12, tls.VersionTLS12), "unbind")},
			c18Behaviour{"tls13-no-certificate-then-unbind", "unbind", c18TLSThenBind(noCert(tls.VersionTLS13, tls.VersionTLS13), "unbind")},
			c18Behaviour{"tls12-no-certificate-then-starttls", "starttls", c18TLSThenBind(noCert(tls.VersionTLS12, tls.VersionTLS12), "starttls")},
			c18Behaviour{"tls13-no-certificate-then-starttls", "starttls", c18TLSThenBind(noCert(tls.VersionTLS13, tls.VersionTLS13), "starttls")},
			c18Behaviour{"tls13-no-certificate-then-search", "search", c18TLSThenBind(noCert(tls.VersionTLS13, tls.VersionTLS13), "search")},
			c18Behaviour{"foreign-ca-certificate-then-unbind", "unbind", c18TLSThenBind(with(pki.ForeignCli), "unbind")},
			c18Behaviour{"tls13-no-certificate", postOp, c18TLSThenBind(noCert(tls.VersionTLS13, tls.VersionTLS13), postOp)},
			// clients that offer old protocol versions only
			c18Behaviour{"tls10-no-certificate", postOp, c18TLSThenBind(noCert(tls.VersionTLS10, tls.VersionTLS10), postOp)},
			c18Behaviour{"tls11-no-certificate", postOp, c18TLSThenBind(noCert(tls.VersionTLS11, tls.VersionTLS11), postOp)},
			c18Behaviour{"tls10-to-11-no-certificate", postOp, c18TLSThenBind(noCert(tls.VersionTLS10, tls.VersionTLS11), postOp)},
			c18Behaviour{"tls11-foreign-ca-certificate", postOp, c18TLSThenBind(&tls.Config{ServerName: "localhost", Certificates: []tls.Certificate{pki.ForeignCli}, InsecureSkipVerify: true, MinVersion: tls.VersionTLS10, MaxVersion: tls.VersionTLS11}, postOp)},
			c18Behaviour{"foreign-ca-certificate", postOp, c18TLSThenBind(with(pki.ForeignCli), postOp)},
			c18Behaviour{"expired-certificate", postOp, c18TLSThenBind(with(pki.ExpiredCli), postOp)},
		)
		// a foreign leaf (whose key the client holds) followed by certificates the configured CA did issue (public
		// material anybody can get: the server's own certificate, a legitimate client's certificate)
		for i, extra := range [][]byte{firstDER(pki.Server), firstDER(pki.Client)} {
			if extra == nil || len(pki.ForeignCli.Certificate) == 0 {
				continue
			}
			chain := pki.ForeignCli
			chain.Certificate = [][]byte{pki.ForeignCli.Certificate[0], extra}
			chain.Leaf = nil
			out = append(out, c18Behaviour{[]string{"foreign-leaf-followed-by-the-servers-certificate", "foreign-leaf-followed-by-a-legitimate-client-certificate"}[i], postOp, c18TLSThenBind(with(chain), postOp)})
		}
	}
	return out
}

func firstDER(c tls.Certificate) []byte {
	if len(c.Certificate) == 0 {
		return nil
	}
	return c.Certificate[0]
}

func pemDER(p string) []byte {
	if b, _ := pem.Decode([]byte(p)); b != nil {
		return b.Bytes
	}
	return nil
}

// c18SessionAcrossServers: two servers in one process require client certificates of DIFFERENT CAs. A client that is
// legitimate for the first one keeps a session cache and then turns to the second one with the same server name: a
// resumed session is not a substitute for a certificate the second server's CA issued.
func c18SessionAcrossServers(c *Ctx) {
	pa, pb := newPKI(), newPKI()
	var served atomic.Int64
	mk := func(p *PKI) (*Srv, error) {
		return startSrv(SrvCfg{TLS: p.ServerMTLS}, func(m *gldap.Mux) {
			m.Bind(func(w *gldap.ResponseWriter, r *gldap.Request) {
				if bm, err := r.GetSimpleBindMessage(); err == nil && bm.UserName == "cn=on-b" {
					served.Add(1)
				}
				w.Write(r.NewBindResponse(gldap.WithResponseCode(0)))
			})
		})
	}
	a, err := mk(pa)
	if err != nil {
		c.Inconclusive("server start: " + err.Error())
		return
	}
	defer a.StopWithin(patience)
	b, err := mk(pb)
	if err != nil {
		c.Inconclusive("server start: " + err.Error())
		return
	}
	defer b.StopWithin(patience)
	for _, maxv := range []uint16{tls.VersionTLS12, tls.VersionTLS13} {
		cfg := &tls.Config{InsecureSkipVerify: true, ServerName: "localhost", Certificates: []tls.Certificate{pa.Client}, ClientSessionCache: tls.NewLRUClientSessionCache(8), MaxVersion: maxv}
		for round := 0; round < 3; round++ {
			if cl, err := dialRaw(a.Addr, cfg); err == nil {
				cl.Send(sber.Message(1, sber.BindRequest(3, []byte("cn=on-a"), []byte("p")), nil).Encode())
				cl.ReadMsg(patience)
				// read a little longer: TLS 1.3 tickets arrive after the handshake
				cl.C.SetReadDeadline(time.Now().Add(20 * time.Millisecond))
				sber.ReadFrame(cl.br)
				cl.Close()
			} else if round == 0 {
				c.Violate("a conforming TLS client was refused", "two-server scenario, own server: "+err.Error(), nil)
			}
			if cl, err := dialRaw(b.Addr, cfg); err == nil {
				cl.Send(sber.Message(2, sber.BindRequest(3, []byte("cn=on-b"), []byte("p")), nil).Encode())
				cl.ReadMsg(2 * time.Second)
				cl.Close()
			}
			c.Count("sessions_carried_over_to_a_server_with_another_ca", 1)
		}
	}
	time.Sleep(20 * time.Millisecond)
	if n := served.Load(); n > 0 {
		c.Violate("a handler ran for bytes outside a TLS session satisfying the configuration", fmt.Sprintf("a client holding a certificate (and cached sessions) of server A's CA was served %d times by server B, which requires certificates of another CA", n), nil)
	}
}

// c18AfterAcceptOutage: the TLS port after an outage of its accept loop (the process ran out of descriptors for a
// while - 40ms, 400ms, 1.5s - with peers queued): plaintext LDAP sent to it still reaches no handler, a client without
// the required certificate still reaches none, and a conforming client is served.
func c18AfterAcceptOutage(c *Ctx) {
	pki := newPKI()
	for i, hold := range []time.Duration{40 * time.Millisecond, 400 * time.Millisecond, 1500 * time.Millisecond} {
		mtls := i%2 == 1
		stc, ctc := pki.ServerOnly, pki.ClientPlain
		if mtls {
			stc, ctc = pki.ServerMTLS, pki.ClientCert
		}
		var served atomic.Int64
		srv, err := startSrv(SrvCfg{TLS: stc}, func(m *gldap.Mux) {
			m.Bind(func(w *gldap.ResponseWriter, r *gldap.Request) {
				if bm, err := r.GetSimpleBindMessage(); err == nil && strings.HasPrefix(bm.UserName, "cn=offender") {
					served.Add(1)
				}
				w.Write(r.NewBindResponse(gldap.WithResponseCode(0)))
			})
		})
		if err != nil {
			c.Inconclusive("server start: " + err.Error())
			return
		}
		if _, err := emfileEpisode(srv.Addr, i, hold); err != nil {
			c.Inconclusive("emfile episode: " + err.Error())
			srv.StopWithin(patience)
			return
		}
		time.Sleep(time.Duration(20+30*i) * time.Millisecond)
		det := map[string]any{"outage": hold.String(), "client_certificates_required": mtls}
		for k := 0; k < 3; k++ {
			// plaintext LDAP
			if cn, err := net.DialTimeout("tcp", srv.Addr, 5*time.Second); err == nil {
				cn.Write(sber.Message(1, sber.BindRequest(3, []byte("cn=offender-plaintext"), []byte("p")), nil).Encode())
				cn.SetReadDeadline(time.Now().Add(300 * time.Millisecond))
				io.Copy(io.Discard, cn)
				cn.Close()
				c.Count("offending_connections", 1)
			}
			if mtls {
				// a TLS client without a certificate
				if cl, err := dialRaw(srv.Addr, pki.ClientPlain); err == nil {
					cl.Send(sber.Message(1, sber.BindRequest(3, []byte("cn=offender-without-certificate"), []byte("p")), nil).Encode())
					cl.ReadMsg(300 * time.Millisecond)
					cl.Close()
					c.Count("offending_connections", 1)
				}
			}
		}
		if n := served.Load(); n > 0 {
			c.Violate("a handler ran for bytes outside a TLS session satisfying the configuration", fmt.Sprintf("after the accept loop of the TLS port had been failing for %s (descriptor shortage, over now), %d requests of clients that sent plaintext LDAP (or, client certificates being required: %v, presented none) reached the bind handler", hold, n, mtls), det)
		}
		if cl, err := dialRaw(srv.Addr, ctc); err != nil {
			c.Violate("a conforming TLS client was refused", fmt.Sprintf("after the accept loop of the TLS port had been failing for %s: %v", hold, err), det)
		} else {
			cl.Send(sber.Message(9, sber.BindRequest(3, []byte("cn=conforming"), []byte("p")), nil).Encode())
			if m, err := cl.ReadMsg(patience); err != nil || m.ID != 9 {
				c.Violate("a conforming TLS client was not served", fmt.Sprintf("after the accept loop of the TLS port had been failing for %s: %v", hold, err), det)
			} else {
				c.Count("conforming_ops_verified", 1)
				c.Count("tls_ports_probed_after_an_accept_outage", 1)
			}
			cl.Close()
		}
		srv.StopWithin(patience)
	}
}

// c18FurtherRun: Run is called once more on the running TLS server - with an address that lacks a port, without any
// option (a configuration reload gone wrong). That call fails; the port goes on refusing everything but TLS sessions
// that satisfy the configuration the server was started with.
func c18FurtherRun(c *Ctx) {
	pki := newPKI()
	for i := 0; i < 4; i++ {
		mtls := i%2 == 1
		stc, ctc := pki.ServerOnly, pki.ClientPlain
		if mtls {
			stc, ctc = pki.ServerMTLS, pki.ClientCert
		}
		var served atomic.Int64
		srv, err := startSrv(SrvCfg{TLS: stc}, func(m *gldap.Mux) {
			m.Bind(func(w *gldap.ResponseWriter, r *gldap.Request) {
				if bm, err := r.GetSimpleBindMessage(); err == nil && strings.HasPrefix(bm.UserName, "cn=offender") {
					served.Add(1)
				}
				w.Write(r.NewBindResponse(gldap.WithResponseCode(0)))
			})
		})
		if err != nil {
			c.Inconclusive("server start: " + err.Error())
			return
		}
		bad := []string{"no-port-here", "127.0.0.1", "", "[::1]"}[i]
		ret := make(chan error, 1)
		go func() {
			if i >= 2 {
				// ... or with a laxer configuration than the one the server runs with
				ret <- srv.S.Run(bad, gldap.WithTLSConfig(pki.ServerOnly))
				return
			}
			ret <- srv.S.Run(bad)
		}()
		select {
		case <-ret:
		case <-time.After(patience):
			c.Inconclusive(fmt.Sprintf("Run(%q) on a running server did not return", bad))
			srv.StopWithin(patience)
			return
		}
		det := map[string]any{"further_run_address": bad, "client_certificates_required": mtls}
		for k := 0; k < 3; k++ {
			if cn, err := net.DialTimeout("tcp", srv.Addr, 5*time.Second); err == nil {
				cn.Write(sber.Message(1, sber.BindRequest(3, []byte("cn=offender-plaintext"), []byte("p")), nil).Encode())
				cn.SetReadDeadline(time.Now().Add(300 * time.Millisecond))
				io.Copy(io.Discard, cn)
				cn.Close()
				c.Count("offending_connections", 1)
			}
			if mtls {
				if cl, err := dialRaw(srv.Addr, pki.ClientPlain); err == nil {
					cl.Send(sber.Message(1, sber.BindRequest(3, []byte("cn=offender-without-certificate"), []byte("p")), nil).Encode())
					cl.ReadMsg(300 * time.Millisecond)
					cl.Close()
					c.Count("offending_connections", 1)
				}
			}
		}
		if n := served.Load(); n > 0 {
			c.Violate("a handler ran for bytes outside a TLS session satisfying the configuration", fmt.Sprintf("after a further Run(%q) on the running TLS server had failed, %d requests of clients that sent plaintext LDAP (or, client certificates being required: %v, presented none) reached the bind handler", bad, n, mtls), det)
		}
		if cl, err := dialRaw(srv.Addr, ctc); err != nil {
			c.Violate("a conforming TLS client was refused", fmt.Sprintf("after a further Run(%q) on the running TLS server had failed: %v", bad, err), det)
		} else {
			cl.Send(sber.Message(9, sber.BindRequest(3, []byte("cn=conforming"), []byte("p")), nil).Encode())
			if m, err := cl.ReadMsg(patience); err != nil || m.ID != 9 {
				c.Violate("a conforming TLS client was not served", fmt.Sprintf("after a further Run(%q) on the running TLS server had failed: %v", bad, err), det)
			} else {
				c.Count("conforming_ops_verified", 1)
				c.Count("tls_ports_probed_after_a_further_run_had_failed", 1)
			}
			cl.Close()
		}
		srv.StopWithin(patience)
	}
}

// c18DirectoryOnABusyPort: a test directory (TLS, or WithMTLS) is started on a port that somebody else still holds and
// lets go of a moment later. Whether the directory comes up at all is not this property's business; if anything
// answers on that port afterwards, it does not answer plaintext LDAP.
func c18DirectoryOnABusyPort(c *Ctx) {
	for i, hold := range []time.Duration{150 * time.Millisecond, 450 * time.Millisecond} {
		l, err := net.Listen("tcp", "127.0.0.1:0")
		if err != nil {
			c.Inconclusive("listen: " + err.Error())
			return
		}
		port := l.Addr().(*net.TCPAddr).Port
		logger := hclog.New(&hclog.LoggerOptions{Name: "td", Level: hclog.Off})
		tl, _ := testdirectory.NewLogger(logger)
		opts := []testdirectory.Option{testdirectory.WithPort(tl, port), testdirectory.WithLogger(tl, logger)}
		if i%2 == 0 {
			opts = append(opts, testdirectory.WithMTLS(tl))
		}
		done := make(chan *testdirectory.Directory, 1)
		go func() {
			var td *testdirectory.Directory
			catch(func() { td = testdirectory.Start(tl, opts...) })
			done <- td
		}()
		time.Sleep(hold)
		l.Close()
		var td *testdirectory.Directory
		select {
		case td = <-done:
		case <-time.After(patience):
			c.Inconclusive("testdirectory.Start on a busy port did not return")
			return
		}
		time.Sleep(300 * time.Millisecond)
		det := map[string]any{"port_released_after": hold.String(), "mtls": i%2 == 0}
		for k := 0; k < 3; k++ {
			cn, err := net.DialTimeout("tcp", fmt.Sprintf("127.0.0.1:%d", port), time.Second)
			if err != nil {
				break // nothing listens there: nothing is served
			}
			cn.Write(sber.Message(1, sber.BindRequest(3, []byte("cn=offender-plaintext,ou=people,dc=example,dc=org"), []byte("p")), nil).Encode())
			if m, err := wrapClient(cn).ReadMsg(time.Second); err == nil && m.Op.Tag == sber.AppBindResponse {
				c.Violate("a handler ran for bytes outside a TLS session satisfying the configuration", fmt.Sprintf("a test directory started with TLS (WithMTLS: %v) on a port that was released %s after Start was called answers a plaintext bind (message id %d)", i%2 == 0, hold, m.ID), det)
				cn.Close()
				break
			}
			cn.Close()
		}
		c.Count("directories_started_on_a_port_that_was_still_taken", 1)
		if td != nil {
			catch(func() { td.Stop() })
		}
	}
}

func c18Run(c *Ctx) {
	c18SessionAcrossServers(c)
	c18AfterAcceptOutage(c)
	c18FurtherRun(c)
	pki := newPKI()
	for _, cfgName := range []string{"server-auth-only", "client-cert-required", "server-auth-only-certificate-from-callback", "client-cert-required-config-from-callback", "client-cert-required-while-NewServer-was-given-another-config", "server-auth-only-run-on-localhost", "client-cert-required-run-on-localhost", "server-auth-only-tls13-minimum", "client-cert-required-by-callback-on-top-of-a-lenient-config-debug-logger"} {
		mtls := strings.HasPrefix(cfgName, "client-cert-required")
		stc, ctc := pki.ServerOnly, pki.ClientPlain
		if mtls {
			stc, ctc = pki.ServerMTLS, pki.ClientCert
		}
		switch cfgName {
		case "server-auth-only-certificate-from-callback":
			// a perfectly usable configuration that has no static certificate list
			stc = &tls.Config{GetCertificate: func(*tls.ClientHelloInfo) (*tls.Certificate, error) { return &pki.Server, nil }}
		case "client-cert-required-config-from-callback":
			inner := pki.ServerMTLS
			stc = &tls.Config{GetConfigForClient: func(*tls.ClientHelloInfo) (*tls.Config, error) { return inner, nil }}
		}
		lvl := hclog.NoLevel
		if cfgName == "client-cert-required-by-callback-on-top-of-a-lenient-config-debug-logger" {
			// the outer configuration alone would let anybody in; the policy is what its GetConfigForClient returns.
			// The server logs at Debug level (whatever it logs about a ClientHello, the policy stays the callback's)
			inner := pki.ServerMTLS
			stc = &tls.Config{Certificates: []tls.Certificate{pki.Server}, GetConfigForClient: func(*tls.ClientHelloInfo) (*tls.Config, error) { return inner, nil }}
			lvl = hclog.Debug
		}
		var ctorTLS *tls.Config
		if cfgName == "client-cert-required-while-NewServer-was-given-another-config" {
			ctorTLS = pki.ServerOnly // Run is given the configuration that requires client certificates
		}
		rc := &Recorder{}
		runAddr := ""
		var otherLoopback string
		if strings.HasSuffix(cfgName, "run-on-localhost") {
			// Run is given the NAME localhost: whatever addresses the server ends up listening on for it, every one of
			// them is the TLS port (offenders also try the loopback address of the other family)
			p := freePort()
			runAddr = fmt.Sprintf("localhost:%d", p)
			otherLoopback = fmt.Sprintf("[::1]:%d", p)
		}
		if cfgName == "server-auth-only-tls13-minimum" {
			stc = pki.ServerOnly.Clone()
			stc.MinVersion = tls.VersionTLS13
		}
		// the application also has a route under the name of the Notice of Disconnection (any name can be routed)
		srv, err := startSrv(SrvCfg{TLS: stc, CtorTLS: ctorTLS, Addr: runAddr, LogLevel: lvl}, func(m *gldap.Mux) {
			rc.RegisterAll(m, []string{string(gldap.ExtendedOperationDisconnection)})
		})
		if err != nil {
			c.Inconclusive("server start: " + err.Error())
			return
		}
		// conforming clients, verified, running concurrently
		var stop atomic.Bool
		var bwg sync.WaitGroup
		for b := 0; b < 4; b++ {
			bwg.Add(1)
			go func(b int) {
				defer bwg.Done()
				for i := 0; !stop.Load(); i++ {
					cl, err := dialRaw(srv.Addr, ctc)
					if err != nil {
						c.Violate("a conforming TLS client was refused", fmt.Sprintf("%s: %v", cfgName, err), nil)
						return
					}
					tag := fmt.Sprintf("conforming-%s-%d-%d", cfgName, b, i)
					cl.Send(sber.Message(9, sber.BindRequest(3, []byte(tag), []byte("p")), nil).Encode())
					m, err := cl.ReadMsg(patience)
					if err != nil || m.ID != 9 || m.Op.Tag != sber.AppBindResponse {
						c.Violate("a conforming TLS client was not served", fmt.Sprintf("%s: %v", cfgName, err), nil)
						cl.Close()
						return
					}
					c.Count("conforming_ops_verified", 1)
					cl.Close()
					time.Sleep(time.Millisecond)
				}
			}(b)
		}
		behaviours := c18Behaviours(mtls, pki, "bind")
		if cfgName == "server-auth-only-tls13-minimum" {
			// the configuration asks for TLS 1.3: a client that goes no further than 1.2 does not satisfy it
			for _, op := range []string{"bind", "search", "unbind"} {
				old := &tls.Config{RootCAs: pki.CAPool, ServerName: "localhost", InsecureSkipVerify: true, MaxVersion: tls.VersionTLS12}
				behaviours = append(behaviours, c18Behaviour{"tls12-at-most-client-then-" + op, op, c18TLSThenBind(old, op)})
			}
			c.Count("configurations_with_a_tls13_minimum_checked", 1)
		}
		reps := c.N(5, 200)
		offTags := map[string]string{}
		par := c.N(4, 32)
		sem := make(chan struct{}, par)
		var owg sync.WaitGroup
		var omu sync.Mutex
		for rep := 0; rep < reps; rep++ {
			for _, bh := range behaviours {
				bh := bh
				tag := fmt.Sprintf("offender-%d", c18Tag.Add(1))
				omu.Lock()
				offTags[tag] = cfgName + "/" + bh.Name
				omu.Unlock()
				owg.Add(1)
				sem <- struct{}{}
				go func() {
					defer owg.Done()
					defer func() { <-sem }()
					target := srv.Addr
					if otherLoopback != "" {
						target = []string{fmt.Sprintf("127.0.0.1:%s", srv.Addr[strings.LastIndexByte(srv.Addr, ':')+1:]), otherLoopback}[int(c18Tag.Load())%2]
					}
					inflight := bh.Run(target, tag, pki)
					c.Count("offending_connections", 1)
					c.Distinct("behaviours", cfgName+"/"+bh.Name)
					if bh.Name == "tls13-no-certificate" && inflight {
						c.Count("tls13_no_cert_requests_in_flight", 1)
					}
					if strings.HasPrefix(bh.Name, "conforming-session-") && inflight {
						c.Count("conforming_sessions_closed_properly_then_continued_in_plaintext", 1)
					}
				}()
			}
		}
		owg.Wait()
		// handshakes that are begun and then simply left open (no byte, a record header, half a ClientHello): they may
		// cost their own connection, nobody else's - a conforming client arriving meanwhile is served (bounded
		// progress, own bound of 10s)
		for round := 0; round < c.N(2, 10); round++ {
			var stalled []net.Conn
			for k := 0; k < 3; k++ {
				if cn, err := net.DialTimeout("tcp", srv.Addr, 5*time.Second); err == nil {
					switch k {
					case 1:
						cn.Write([]byte{0x16, 0x03, 0x01, 0x02, 0x00})
					case 2:
						cn.Write([]byte{0x16, 0x03, 0x01, 0x00, 0xc8, 0x01, 0x00, 0x00, 0xc4, 0x03, 0x03})
					}
					stalled = append(stalled, cn)
				}
			}
			time.Sleep(3 * time.Millisecond)
			served := make(chan error, 1)
			go func() {
				cl, err := dialRaw(srv.Addr, ctc)
				if err != nil {
					served <- err
					return
				}
				defer cl.Close()
				cl.Send(sber.Message(9, sber.BindRequest(3, []byte(fmt.Sprintf("conforming-%s-next-to-stalled-%d", cfgName, round)), []byte("p")), nil).Encode())
				m, err := cl.ReadMsg(patience)
				if err == nil && (m.ID != 9 || m.Op.Tag != sber.AppBindResponse) {
					err = fmt.Errorf("unexpected answer")
				}
				served <- err
			}()
			select {
			case err := <-served:
				if err != nil {
					c.Violate("a conforming TLS client was not served", fmt.Sprintf("%s, with %d abandoned handshakes held open: %v", cfgName, len(stalled), err), nil)
				} else {
					c.Count("conforming_clients_served_next_to_abandoned_handshakes", 1)
				}
			case <-time.After(10 * time.Second):
				c.Violate("a conforming TLS client was not served", fmt.Sprintf("%s: %d peers hold abandoned handshakes open and a conforming client that connected meanwhile is not served within 10s", cfgName, len(stalled)), nil)
			}
			for _, cn := range stalled {
				cn.Close()
			}
		}
		stop.Store(true)
		bwg.Wait()
		// quiescence: every accepted connection has been reported closed
		time.Sleep(20 * time.Millisecond)
		// the server is stopped while peers that never got through a handshake are still connected (silent, half a
		// ClientHello, plaintext): whatever gldap does for a connection at shutdown, no handler runs for these
		var pending []net.Conn
		for k := 0; k < 3; k++ {
			if cn, err := net.DialTimeout("tcp", srv.Addr, 5*time.Second); err == nil {
				switch k {
				case 1:
					cn.Write([]byte{0x16, 0x03, 0x01, 0x00, 0xc8, 0x01, 0x00, 0x00, 0xc4, 0x03, 0x03})
				case 2:
					cn.Write([]byte{0x30})
				}
				pending = append(pending, cn)
			}
		}
		time.Sleep(10 * time.Millisecond)
		c.Count("stops_with_abandoned_handshakes_pending", 1)
		ok, _ := srv.StopWithin(patience)
		for _, cn := range pending {
			cn.Close()
		}
		if !ok {
			c.Inconclusive("Stop did not return")
		}
		for _, o := range rc.All() {
			var tag string
			switch o.Kind {
			case "bind":
				tag = string(o.Name)
			case "unbind":
				c.Violate("a handler ran for bytes outside a TLS session satisfying the configuration", fmt.Sprintf("%s: the unbind handler ran although no conforming client sends Unbind", cfgName), map[string]any{"observed": o})
				continue
			case "extended":
				c.Violate("a handler ran for bytes outside a TLS session satisfying the configuration", fmt.Sprintf("%s: an extended request reached route %s although no conforming client sends one", cfgName, o.Route), map[string]any{"observed": o})
				continue
			default:
				tag = string(o.DN)
			}
			what, bad := offTags[strings.TrimPrefix(tag, "first-")]
			if bad {
				c.Violate("a handler ran for bytes outside a TLS session satisfying the configuration", fmt.Sprintf("%s: %s request tagged %s reached route %s", what, o.Kind, tag, o.Route), map[string]any{"behaviour": what, "observed": o})
			}
		}
		c.Count("handler_records_inspected", rc.count.Load())
		c.Sample(map[string]any{"config": cfgName, "behaviours": len(behaviours), "example": behaviours[len(behaviours)-1].Name})
	}
}

// c18Directory runs the offending behaviours against testdirectory.Start(WithMTLS).
func c18Directory(c *Ctx) {
	c18DirectoryOnABusyPort(c)
	// a CA that the HOST trusts (system roots are pointed at it before anything loads them): that is about servers the
	// process talks to, not about who may talk to the directory
	hostCA, hostKey, hostDER := genCA("ca-trusted-by-the-host")
	var hostTrusted *tls.Certificate
	if dir := os.Getenv("VERIF_SCRATCH_DIR"); dir != "" {
		pemPath := filepath.Join(dir, "host-roots.pem")
		if os.WriteFile(pemPath, pem.EncodeToMemory(&pem.Block{Type: "CERTIFICATE", Bytes: hostDER}), 0o644) == nil {
			os.Setenv("SSL_CERT_FILE", pemPath)
			os.Setenv("SSL_CERT_DIR", filepath.Join(dir, "no-such-dir"))
			leaf := genLeaf(hostCA, hostKey, "client-of-a-host-trusted-ca", time.Now().Add(-time.Hour), time.Now().AddDate(1, 0, 0))
			hostTrusted = &leaf
		}
	}
	sink := &bytes.Buffer{}
	var smu sync.Mutex
	logger := hclog.New(&hclog.LoggerOptions{Name: "td", Level: hclog.Info, Output: &lockedWriter{w: sink, mu: &smu}, JSONFormat: true})
	tl, _ := testdirectory.NewLogger(logger)
	port := freePort()
	var td *testdirectory.Directory
	if m, st := catch(func() {
		td = testdirectory.Start(tl, testdirectory.WithMTLS(tl), testdirectory.WithPort(tl, port), testdirectory.WithLogger(tl, logger),
			testdirectory.WithDefaults(tl, &testdirectory.Defaults{AllowAnonymousBind: true}))
	}); m != "" {
		c.Inconclusive("testdirectory.Start: " + m + "\n" + stackHead(st, 10))
		return
	}
	defer td.Stop()
	addr := fmt.Sprintf("localhost:%d", port)
	cert, err := tls.X509KeyPair([]byte(td.ClientCert()), []byte(td.ClientKey()))
	if err != nil {
		c.Inconclusive("client key pair: " + err.Error())
		return
	}
	good := &tls.Config{InsecureSkipVerify: true, Certificates: []tls.Certificate{cert}}
	pki := newPKI()
	pki.CAPool = x509.NewCertPool()
	// conforming client: served
	conform := func(tag string) bool {
		cl, err := dialRaw(addr, good)
		if err != nil {
			c.Violate("a conforming TLS client was refused", "testdirectory WithMTLS: "+err.Error(), nil)
			return false
		}
		defer cl.Close()
		cl.Send(c18Frames(tag)["add"])
		m, err := cl.ReadMsg(patience)
		if err != nil || m.Op.Tag != sber.AppAddResponse {
			c.Violate("a conforming TLS client was not served", fmt.Sprintf("testdirectory WithMTLS: %v", err), nil)
			return false
		}
		c.Count("conforming_ops_verified", 1)
		return true
	}
	if !conform("cn=conforming-0,ou=people,dc=example,dc=org") {
		return
	}
	offTags := map[string]string{}
	reps := c.N(3, 100)
	k := 0
	// client certificates that are perfectly valid - for a DIFFERENT directory started in the same process, or from a
	// separate GetTLSConfig call: the first directory's CA did not issue them
	var strangers []c18Behaviour
	if td2, _, err := startDirectory("tls", testdirectory.WithMTLS(tl)); err == nil {
		defer td2.Stop()
		if cert2, err := tls.X509KeyPair([]byte(td2.ClientCert()), []byte(td2.ClientKey())); err == nil {
			strangers = append(strangers, c18Behaviour{"certificate-of-another-directory", "add", c18TLSThenBind(&tls.Config{InsecureSkipVerify: true, Certificates: []tls.Certificate{cert2}}, "add")})
		}
	}
	if m, _ := catch(func() {
		_, cc := testdirectory.GetTLSConfig(tl, testdirectory.WithMTLS(tl))
		if cc != nil && len(cc.Certificates) == 1 {
			strangers = append(strangers, c18Behaviour{"certificate-of-another-GetTLSConfig-call", "add", c18TLSThenBind(&tls.Config{InsecureSkipVerify: true, Certificates: cc.Certificates}, "add")})
		}
	}); m != "" {
		c.Inconclusive("GetTLSConfig: " + m)
	}
	// the strangers again, each followed by public certificates this directory's CA did issue (its server certificate,
	// its client certificate - without the key): possession is only ever proven for the first certificate
	var leaves []tls.Certificate
	if td2c, ok := c18StrangerLeaf(tl); ok {
		leaves = append(leaves, td2c)
	}
	if len(pki.ForeignCli.Certificate) > 0 {
		leaves = append(leaves, pki.ForeignCli)
	}
	for li, leaf := range leaves {
		for xi, extra := range [][]byte{pemDER(td.Cert()), pemDER(td.ClientCert())} {
			if extra == nil {
				continue
			}
			chain := leaf
			chain.Certificate = [][]byte{leaf.Certificate[0], extra}
			chain.Leaf = nil
			strangers = append(strangers, c18Behaviour{fmt.Sprintf("stranger-leaf-%d-followed-by-%s", li, []string{"the-directorys-server-certificate", "the-directorys-client-certificate"}[xi]), "add",
				c18TLSThenBind(&tls.Config{InsecureSkipVerify: true, Certificates: []tls.Certificate{chain}}, "add")})
		}
	}
	// a certificate the directory's CA never issued, signed with the key of the client certificate it did issue and
	// presented with that certificate as its "intermediate": a client certificate is not a CA
	if forged, ok := c18ForgedBelow(td.ClientCert(), td.ClientKey()); ok {
		for _, maxv := range []uint16{tls.VersionTLS12, tls.VersionTLS13} {
			strangers = append(strangers, c18Behaviour{fmt.Sprintf("certificate-signed-with-the-key-of-the-directorys-client-certificate-tls%x", maxv), "add",
				c18TLSThenBind(&tls.Config{InsecureSkipVerify: true, Certificates: []tls.Certificate{forged}, MaxVersion: maxv}, "add")})
		}
		c.Count("certificates_forged_below_the_directorys_client_certificate", 1)
	}
	if hostTrusted != nil {
		strangers = append(strangers, c18Behaviour{"certificate-of-a-ca-the-host-trusts", "add", c18TLSThenBind(&tls.Config{InsecureSkipVerify: true, Certificates: []tls.Certificate{*hostTrusted}}, "add")})
	}
	c.Count("stranger_certificates_prepared", int64(len(strangers)))
	// a conforming client exercises every handler of the directory inside its mTLS session - including a StartTLS
	// extended request - between the offending rounds: whatever those handlers do must not weaken the gate
	battery := func(n int) {
		cl, err := dialRaw(addr, good)
		if err != nil {
			c.Violate("a conforming TLS client was refused", "testdirectory WithMTLS: "+err.Error(), nil)
			return
		}
		defer cl.Close()
		dn := fmt.Sprintf("cn=conforming-battery-%d,ou=people,dc=example,dc=org", n)
		fr := c18Frames(dn)
		for _, op := range []string{"add", "bind", "search", "modify", "delete", "extended"} {
			cl.Send(fr[op])
			for {
				m, err := cl.ReadMsg(patience)
				if err != nil || m.Op.Tag != sber.AppSearchResultEntry {
					break
				}
			}
		}
		cl.Send(sber.Message(50, sber.ExtendedRequest([]byte(sber.OIDStartTLS), nil, false), nil).Encode())
		cl.C.SetReadDeadline(time.Now().Add(500 * time.Millisecond))
		sber.ReadFrame(cl.br)
		c.Count("conforming_handler_batteries", 1)
	}
	for rep := 0; rep < reps; rep++ {
		if rep > 0 {
			battery(rep)
			time.Sleep(50 * time.Millisecond)
		}
		for _, bh := range append(c18Behaviours(true, pki, "add"), strangers...) {
			tag := fmt.Sprintf("cn=offender-%d,ou=people,dc=example,dc=org", c18Tag.Add(1))
			offTags[tag] = bh.Name
			inflight := bh.Run(addr, tag, pki)
			c.Count("offending_connections", 1)
			c.Count("directory_offending_connections", 1)
			c.Distinct("behaviours", "testdirectory-mtls/"+bh.Name)
			if bh.Name == "tls13-no-certificate" && inflight {
				c.Count("tls13_no_cert_requests_in_flight", 1)
			}
			k++
			if k%7 == 0 {
				conform(fmt.Sprintf("cn=conforming-%d,ou=people,dc=example,dc=org", k))
			}
		}
	}
	time.Sleep(50 * time.Millisecond)
	// directory state and the handlers' own log lines
	for _, u := range td.Users() {
		if what, bad := offTags[u.DN]; bad {
			c.Violate("a handler ran for bytes outside a TLS session satisfying the configuration", fmt.Sprintf("testdirectory WithMTLS: %s added entry %s", what, u.DN), nil)
		}
	}
	smu.Lock()
	logs := sink.String()
	smu.Unlock()
	for tag, what := range offTags {
		if strings.Contains(logs, tag) {
			c.Violate("a handler ran for bytes outside a TLS session satisfying the configuration", fmt.Sprintf("testdirectory WithMTLS: %s: a handler logged a request for %s", what, tag), nil)
		}
	}
	c.Count("directory_handler_log_bytes_inspected", int64(len(logs)))
	if !strings.Contains(logs, "conforming-0") {
		c.Inconclusive("the test directory's handler log does not show even the conforming request: the log oracle is blind")
	}
}

// c18ForgedBelow makes a fresh key pair and a client-auth certificate for it that is signed with the given (leaf)
// certificate's key; the chain presented is [forged, that leaf].
func c18ForgedBelow(certPEM, keyPEM string) (tls.Certificate, bool) {
	parentDER := pemDER(certPEM)
	kb, _ := pem.Decode([]byte(keyPEM))
	if parentDER == nil || kb == nil {
		return tls.Certificate{}, false
	}
	parent, err := x509.ParseCertificate(parentDER)
	if err != nil {
		return tls.Certificate{}, false
	}
	parentKey, err := x509.ParsePKCS8PrivateKey(kb.Bytes)
	if err != nil {
		return tls.Certificate{}, false
	}
	key, err := ecdsa.GenerateKey(elliptic.P256(), rand.Reader)
	if err != nil {
		return tls.Certificate{}, false
	}
	tpl := &x509.Certificate{
		SerialNumber: big.NewInt(time.Now().UnixNano()), Subject: pkix.Name{CommonName: "forged below a client certificate"},
		NotBefore: time.Now().Add(-time.Hour), NotAfter: time.Now().AddDate(0, 1, 0),
		KeyUsage: x509.KeyUsageDigitalSignature, ExtKeyUsage: []x509.ExtKeyUsage{x509.ExtKeyUsageClientAuth}, BasicConstraintsValid: true,
	}
	der, err := x509.CreateCertificate(rand.Reader, tpl, parent, &key.PublicKey, parentKey)
	if err != nil {
		return tls.Certificate{}, false
	}
	return tls.Certificate{Certificate: [][]byte{der, parentDER}, PrivateKey: key}, true
}

// c18StrangerLeaf: a client certificate with its key from a separate GetTLSConfig call (another CA).
func c18StrangerLeaf(tl testdirectory.TestingT) (cert tls.Certificate, ok bool) {
	catch(func() {
		_, cc := testdirectory.GetTLSConfig(tl, testdirectory.WithMTLS(tl))
		if cc != nil && len(cc.Certificates) == 1 {
			cert, ok = cc.Certificates[0], true
		}
	})
	return
}

type lockedWriter struct {
	w  *bytes.Buffer
	mu *sync.Mutex
}

func (l *lockedWriter) Write(p []byte) (int, error) {
	l.mu.Lock()
	defer l.mu.Unlock()
	return l.w.Write(p)
}
