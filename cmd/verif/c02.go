package main

import (
	"bytes"
	"crypto/tls"
	"crypto/x509"
	"encoding/binary"
	"encoding/json"
	"fmt"
	"net"
	"os"
	"os/exec"
	"path/filepath"
	"regexp"
	"strconv"
	"strings"
	"sync"
	"sync/atomic"
	"time"

	"github.com/hashicorp/go-hclog"
	"github.com/jimlambrt/gldap"

	"verif/internal/sber"
)

func init() {
	register(&Check{
		ID: "C02", Level: "exploration", Primary: "past_basic_validation", EvalCount: "inputs",
		Rule: "inputs = (a) the complete single-point shape/type mutation set of every canonical request (7 operations x 12 control variants, plus 18 well-known control OIDs x 4 value shapes mutated within the controls subtree; every node replaced by ~85 BER node kinds, " +
			"deleted, duplicated, swapped, child lists truncated/extended/reversed, class/tag/constructed-bit flipped, 14 length-octet corruptions), double-point mutations (sampled in quick; complete within " +
			"the controls subtree and the protocolOp subtree in thorough), (b) seeded random byte streams, byte-level mutations and splices of canonical encodings, two frames on one connection and hostile frames behind a valid Bind on the same connection, well-formed canonical requests with lists of 8/9/16/17/33 elements, and a dictionary of 36 contents (attribute options, case-mapping-sensitive bytes, wildcards, escapes, NULs, invalid UTF-8) in every string position of the control-less canonical requests (plus Go native coverage-guided fuzzing in thorough). " +
			"Each input is delivered through the in-memory decode hook, over TCP to servers with panic recovery enabled, logging at Error and at Debug level (oracle: 'Caught panic' log record) and over TCP to a server with recovery disabled " +
			"(oracle: process death). A further phase ends the reading of a request by a fault instead of by bytes: every canonical request cut at a spread of offsets (thorough: every offset), then the server's read timeout, a reset, a FIN or a Stop; on TLS listeners also handshakes the client aborts with a fatal alert (it does not trust the CA, no common version), silent and half-said ClientHellos, and a fatal alert / a record of garbage / a reset in the middle of a frame inside an established session (oracle: no 'Caught panic' record). distinct_nontrivial = distinct inputs (by content hash) that got past basicValidation, i.e. were decoded by gldap's own request decoder",
		Assume: []string{"a panic whose stack has no gldap frame above the runtime (e.g. stack exhaustion inside asn1-ber) is outside 'gldap's own' decoding and is reported as inconclusive",
			"declared lengths above 16 MiB are not generated/fed (asn1-ber allocates the declared length up front)"},
		Phases: func(tier string, seed int64) []Phase {
			ps := []Phase{
				{Name: "hook", Run: c02Hook},
				{Name: "tcp-recover", Run: c02TCPRecover},
				{Name: "tcp-recover-debuglog", Run: func(c *Ctx) { c02DebugServers = true; c02TCPRecover(c) }},
				{Name: "plaintext-to-tls-listener", Run: func(c *Ctx) { c02TLSListener = true; c02TCPRecover(c) }},
				{Name: "read-faults", Run: c02ReadFaults},
				{Name: "tcp-norecover", Run: c02TCPNoRecover, Crash: c02Crash},
			}
			if tier == "thorough" {
				ps = append(ps, Phase{Name: "fuzz", Run: c02Fuzz})
			}
			return ps
		},
		MinObserved: []string{"inputs", "inputs_tcp_recover", "inputs_tcp_norecover", "reached_decodeControl", "inputs_tcp_recover_debug_level_logger", "inputs_sent_in_plaintext_to_a_tls_listener", "reads_ended_by_a_fault"},
	})
}

// berShape simulates how asn1-ber walks an input and returns the largest
// primitive allocation it would make and the nesting depth reached.
func berShape(b []byte) (maxAlloc int64, depth int) {
	var walk func(b []byte, d int) (read int, ok bool)
	walk = func(b []byte, d int) (int, bool) {
		if d > depth {
			depth = d
		}
		if d > 2000 || len(b) < 1 {
			return 0, false
		}
		i := 1
		if b[0]&0x1f == 0x1f {
			for {
				if i >= len(b) {
					return 0, false
				}
				c := b[i]
				i++
				if c&0x80 == 0 {
					break
				}
			}
		}
		if i >= len(b) {
			return 0, false
		}
		l := b[i]
		i++
		length := int64(0)
		indef := false
		switch {
		case l == 0x80:
			indef = true
		case l == 0xff:
			return 0, false
		case l&0x80 != 0:
			n := int(l & 0x7f)
			if n > 8 {
				return 0, false
			}
			for k := 0; k < n; k++ {
				if i >= len(b) {
					return 0, false
				}
				length = length<<8 | int64(b[i])
				i++
			}
			if length < 0 {
				return 0, false
			}
		default:
			length = int64(l)
		}
		if b[0]&0x20 != 0 { // constructed
			read := int64(0)
			for indef || read < length {
				if i >= len(b) {
					return 0, false
				}
				r, ok := walk(b[i:], d+1)
				if !ok {
					return 0, false
				}
				if indef && r == 2 && b[i] == 0 && b[i+1] == 0 {
					i += r
					break
				}
				i += r
				read += int64(r)
			}
			return i, true
		}
		if indef {
			return 0, false
		}
		if length > maxAlloc {
			maxAlloc = length
		}
		if int64(len(b)-i) < length {
			return 0, false
		}
		return i + int(length), true
	}
	off := 0
	for off < len(b) {
		r, ok := walk(b[off:], 1)
		if !ok || r == 0 {
			break
		}
		off += r
	}
	return
}

const c02MaxAlloc = 16 << 20

func c02Feedable(in []byte) bool {
	a, d := berShape(in)
	return a <= c02MaxAlloc && d <= 1000
}

// c02HookFeed runs one input through the in-memory hook.
func c02HookFeed(c *Ctx, name string, in []byte) {
	if !c02Feedable(in) {
		c.Count("inputs_skipped_over_16MiB_or_too_deep", 1)
		return
	}
	var kind string
	var err error
	msg, st := catch(func() { kind, err = gldap.VerifReadRequest(bytes.NewReader(in)) })
	c.Count("inputs", 1)
	c.Count("inputs_hook", 1)
	if msg != "" {
		site := innermostGldap(st)
		if site == "?" {
			c.Inconclusive("panic without a gldap frame for input " + hx(trunc(in, 64)) + ": " + msg)
			return
		}
		c.Violate("decode panic in "+site+": "+normPanic(msg), "request decoding panicked: "+msg,
			map[string]any{"input_hex": hx(trunc(in, 4096)), "mutation": name, "stack": stackHead(st, 30)})
		c.Count("reached_past_basic_validation", 1)
		return
	}
	c02Classify(c, in, kind, err)
}

func c02Classify(c *Ctx, in []byte, kind string, err error) {
	switch {
	case err == nil:
		c.Count("delivered_as_"+kind, 1)
		c.Count("reached_past_basic_validation", 1)
		c.Distinct("past_basic_validation", string(in))
		if bytes.Contains(in, []byte{0xa0}) {
			c.Count("reached_decodeControl", 1)
		}
	case strings.Contains(err.Error(), "error reading ber packet"):
		c.Count("rejected_by_ber_reader", 1)
	case strings.Contains(err.Error(), "failed validation"):
		c.Count("rejected_by_basic_validation", 1)
	default:
		c.Count("rejected_by_request_decoder", 1)
		c.Count("reached_past_basic_validation", 1)
		c.Distinct("past_basic_validation", string(in))
		if strings.Contains(err.Error(), "decodeControl") {
			c.Count("reached_decodeControl", 1)
		}
	}
}

var (
	execCommand       = exec.Command
	reFuzzExecs       = regexp.MustCompile(`execs: (\d+)`)
	reFuzzInteresting = regexp.MustCompile(`new interesting: (\d+)`)
)

type c02Input struct {
	Name string
	In   []byte
}

// c02Singles returns the complete single-point mutation set.
// c02Dictionary: contents for every string position of a request - attribute options, transfer options behind bytes
// whose case mapping changes their length, wildcards, separators, escapes, NULs, invalid and unusual UTF-8.
var c02Dictionary = []string{"", ";binary", "cn;binary", "cn;BINARY", "\xff;binary", "\xff\xfe\xfd\xfc;binary", "\u023a\u023a\u023a\u023a;BINARY", "\u0130;binary", "\u1e9e;binary", "cn;lang-en;binary",
	"*", "+", "1.1", "\x00", "(", ")", "((", "\\", "\\5c", "\\2a", "=", ",", " ", ";", ";;", "\xc3\x28", "\xed\xa0\x80", "\xf4\x90\x80\x80", "cn=a+sn=b", "cn=\\,", "1.2.840.113556.1.4.319",
	"objectClass", "OBJECTCLASS", strings.Repeat("a", 300), strings.Repeat(";binary", 40), strings.Repeat("\xff", 64) + ";binary"}

// c02Contents: every primitive string leaf inside the protocolOp of the control-less canonical requests, with every
// dictionary entry as its content (the shape stays well-formed; what changes is what the strings say).
func c02Contents() []c02Input {
	var out []c02Input
	for _, cn := range canonicals() {
		if !strings.HasSuffix(cn.Name, "+none") {
			continue
		}
		var paths [][]int
		allPaths(cn.Tree, nil, &paths)
		for _, p := range paths {
			if len(p) == 0 || p[0] != 1 {
				continue
			}
			_, n := nodeAt(cn.Tree, p)
			if n == nil || n.Constructed || n.Inner != nil || (n.Class == sber.Universal && n.Tag != sber.TagOctetString) {
				continue
			}
			for di, d := range c02Dictionary {
				root := cn.Tree.Clone()
				_, m := nodeAt(root, p)
				m.Content = []byte(d)
				out = append(out, c02Input{fmt.Sprintf("%s|%v:content/%d", cn.Name, p, di), root.Encode()})
			}
		}
	}
	return out
}

func c02Singles() []c02Input {
	reps := replacements()
	out := c02Contents()
	for _, cn := range canonicals() {
		out = append(out, c02Input{cn.Name + "|canonical", cn.Tree.Encode()})
		for _, m := range mutationsFor(cn.Tree, len(reps)) {
			if cn.Scope != nil && !hasPrefix(m.Path, cn.Scope) {
				continue
			}
			if b, ok := mutate(cn.Tree, reps, m); ok {
				out = append(out, c02Input{cn.Name + "|" + m.String(), b})
			}
		}
	}
	return out
}

func hasPrefix(p, pre []int) bool {
	if len(p) < len(pre) {
		return false
	}
	for i := range pre {
		if p[i] != pre[i] {
			return false
		}
	}
	return true
}

// c02Doubles streams double-point mutations to f: complete inside the
// protocolOp subtree and inside the controls subtree when complete is true,
// PRNG-sampled pairs otherwise (and always n sampled cross-subtree pairs).
func c02Doubles(c *Ctx, complete bool, sampled int, f func(name string, in []byte)) {
	reps := replacements()
	cans := canonicals()
	r := c.Rng.Sub("doubles")
	for _, cn := range cans {
		ms := mutationsFor(cn.Tree, len(reps))
		if cn.Scope != nil {
			var in []Mut
			for _, m := range ms {
				if hasPrefix(m.Path, cn.Scope) {
					in = append(in, m)
				}
			}
			ms = in
		}
		if complete {
			for _, sub := range [][]int{{1}, {2}} {
				var in []Mut
				for _, m := range ms {
					if hasPrefix(m.Path, sub) {
						in = append(in, m)
					}
				}
				// thin the replacement alphabet for the pair space: every 3rd replacement kind at the first point
				for i := 0; i < len(in); i++ {
					if in[i].Kind == "replace" && in[i].Arg%3 != 0 {
						continue
					}
					for j := i + 1; j < len(in); j++ {
						if in[j].Kind == "replace" && in[j].Arg%3 != 1 {
							continue
						}
						if b, ok := mutate(cn.Tree, reps, in[i], in[j]); ok {
							f(cn.Name+"|"+in[i].String()+"+"+in[j].String(), b)
						}
					}
				}
			}
		}
		per := sampled / len(cans)
		for k := 0; k < per; k++ {
			a, b := pick(r, ms), pick(r, ms)
			if bts, ok := mutate(cn.Tree, reps, a, b); ok {
				f(cn.Name+"|"+a.String()+"+"+b.String(), bts)
			}
		}
	}
}

// c02Random streams seeded random inputs: pure random bytes, byte-level
// mutations of canonical encodings, splices of two canonicals, and
// concatenations (several frames in one stream).
func c02Random(c *Ctx, n int, f func(name string, in []byte)) {
	r := c.Rng.Sub("random")
	cans := canonicals()
	enc := make([][]byte, len(cans))
	for i, cn := range cans {
		enc[i] = cn.Tree.Encode()
	}
	for i := 0; i < n; i++ {
		switch r.Intn(6) {
		case 0:
			b := r.Bytes(1 + r.Intn(64))
			if r.Bool() {
				b[0] = 0x30
			}
			f("random-bytes", b)
		case 1, 2:
			b := append([]byte{}, pick(r, enc)...)
			for k, m := 0, 1+r.Intn(4); k < m; k++ {
				switch r.Intn(4) {
				case 0:
					b[r.Intn(len(b))] = byte(r.U64())
				case 1:
					b[r.Intn(len(b))] ^= 1 << uint(r.Intn(8))
				case 2:
					p := r.Intn(len(b))
					b = append(b[:p], b[p+1:]...)
				case 3:
					p := r.Intn(len(b))
					b = append(b[:p], append([]byte{byte(r.U64())}, b[p:]...)...)
				}
				if len(b) == 0 {
					b = []byte{0x30}
				}
			}
			f("byte-mutation", b)
		case 3:
			a, b := pick(r, enc), pick(r, enc)
			f("splice", append(append([]byte{}, a[:r.Intn(len(a))]...), b[r.Intn(len(b)):]...))
		case 4:
			a, b := pick(r, enc), pick(r, enc)
			f("two-frames", append(append([]byte{}, a...), b...))
		case 5:
			// random tree from random nodes under an LDAP-ish skeleton
			reps := replacements()
			msg := sber.Seq(sber.Int(int64(r.Intn(100))), pick(r, reps).Clone())
			for k, m := 0, r.Intn(3); k < m; k++ {
				msg.Children = append(msg.Children, pick(r, reps).Clone())
			}
			f("random-tree", msg.Encode())
		}
	}
}

func c02Hook(c *Ctx) {
	singles := c02Singles()
	c.Count("single_point_inputs", int64(len(singles)))
	c.Count("canonicals", int64(len(canonicals())))
	c.Note("single_point_set_complete", true)
	for _, in := range singles {
		c02HookFeed(c, in.Name, in.In)
		c.Distinct("mutation_kinds", mutKindOf(in.Name))
	}
	c.Sample(map[string]any{"mutation": singles[len(singles)/3].Name, "input_hex": hx(trunc(singles[len(singles)/3].In, 200))})
	nd := int64(0)
	c02Doubles(c, !c.Quick(), c.N(300000, 2000000), func(name string, in []byte) {
		nd++
		c02HookFeed(c, name, in)
		if nd == 1000 {
			c.Sample(map[string]any{"mutation": name, "input_hex": hx(trunc(in, 200))})
		}
	})
	c.Count("double_point_inputs", nd)
	c.Note("double_point_complete_within_op_and_controls_subtrees", !c.Quick())
	c02Random(c, c.N(300000, 5000000), func(name string, in []byte) {
		c.Count("random_inputs", 1)
		c02HookFeed(c, name, in)
	})
	// Debug-level logging exercises packet.Log on every decoded packet
	c02DebugLog(c, singles)
}

func mutKindOf(name string) string {
	i := strings.LastIndex(name, ":")
	if i < 0 {
		return name
	}
	k := name[i+1:]
	if j := strings.IndexByte(k, '/'); j >= 0 {
		k = k[:j]
	}
	return k
}

// c02DebugLog feeds a sample of the single-point set to a server whose logger
// is at Debug level (packet.Log walks every packet read).
func c02DebugLog(c *Ctx, singles []c02Input) {
	srv, err := startSrv(SrvCfg{LogLevel: hclog.Debug}, func(m *gldap.Mux) { (&Recorder{}).RegisterAll(m, nil) })
	if err != nil {
		c.Inconclusive("debug server: " + err.Error())
		return
	}
	step := c.N(37, 5)
	for i := 0; i < len(singles); i += step {
		if !c02Feedable(singles[i].In) {
			continue
		}
		c02SendTCP(c, srv, singles[i], "debuglog")
		c.Count("inputs_debug_logger", 1)
	}
	srv.StopWithin(patience)
}

// c02SendTCP delivers one input on its own connection and judges the
// recovered-panic oracle for it. Returns false on infrastructure trouble.
func c02SendTCP(c *Ctx, srv *Srv, in c02Input, mode string) bool {
	before := srv.closeCnt.Load()
	pb := srv.Log.PanicCount()
	cn, err := net.Dial("tcp", srv.Addr)
	if err != nil {
		c.Inconclusive("dial: " + err.Error())
		return false
	}
	cl := wrapClient(cn)
	cl.Send(in.In)
	cn.(*net.TCPConn).CloseWrite()
	cl.ReadToEOF(patience)
	cl.Close()
	if !srv.WaitCloses(before+1, patience) {
		c.Inconclusive("no OnClose for input " + in.Name)
		return false
	}
	c.Count("inputs", 1)
	if srv.Log.PanicCount() > pb {
		ps := srv.Log.Panics()
		msg := ps[len(ps)-1]
		// attribute the site by replaying the same bytes through the hook
		site, pm := "?", msg
		if m, st := catch(func() { gldap.VerifReadRequest(bytes.NewReader(in.In)) }); m != "" {
			site, pm = innermostGldap(st), m
		} else if i := strings.LastIndex(msg, ": "); i >= 0 {
			pm = msg[i+2:]
		}
		c.Violate("decode panic in "+site+": "+normPanic(pm), "a panic was caught by the connection-level recovery while decoding ("+mode+"): "+pm,
			map[string]any{"input_hex": hx(trunc(in.In, 4096)), "mutation": in.Name, "log": msg})
	}
	return true
}

func c02TCPInputs(c *Ctx) []c02Input {
	ins := c02Singles()
	c02Doubles(c, false, c.N(20000, 300000), func(name string, in []byte) { ins = append(ins, c02Input{name, in}) })
	c02Random(c, c.N(20000, 200000), func(name string, in []byte) { ins = append(ins, c02Input{name, in}) })
	out := ins[:0]
	for _, in := range ins {
		if c02Feedable(in.In) {
			out = append(out, in)
		}
	}
	// the same connection may already have served a valid request when the hostile frame arrives: every second
	// single-point input (all of them in thorough) is fed again behind a valid Bind on the same connection
	prefix := sber.Message(1, sber.BindRequest(3, []byte("cn=prefix"), []byte("p")), nil).Encode()
	n := len(c02Singles())
	if n > len(out) {
		n = len(out)
	}
	step := 2
	if !c.Quick() {
		step = 1
	}
	for i := 0; i < n; i += step {
		out = append(out, c02Input{"after-valid-bind|" + out[i].Name, append(append([]byte{}, prefix...), out[i].In...)})
	}
	return out
}

// c02ReadFaults: the reading of a request does not only end by bytes. Every canonical request is cut at every offset
// (quick: a spread of offsets) and the read is then ended by a fault instead of the missing bytes: the server's read
// timeout, a reset, a bare FIN, a Stop; on a TLS listener also a handshake that the client aborts with a fatal alert,
// a fatal alert in the middle of a frame and a record of garbage in the middle of a frame. Whatever error that produces
// goes down "the ordinary error path": no panic is caught by the connection-level recovery.
func c02ReadFaults(c *Ctx) {
	pki := newPKI()
	var frames [][]byte
	seen := map[string]bool{}
	for _, cn := range canonicals() {
		op := strings.SplitN(cn.Name, "|", 2)[0]
		op = strings.SplitN(op, "/", 2)[0]
		if seen[op] && len(frames) >= 12 {
			continue
		}
		seen[op] = true
		frames = append(frames, cn.Tree.Encode())
	}
	type kase struct {
		fault string
		cut   []byte
	}
	var plain, overTLS []kase
	for fi, f := range frames {
		step := 1
		if c.Quick() {
			step = 1 + len(f)/6
		}
		for off := 1; off < len(f); off += step {
			fault := []string{"read-timeout", "reset", "fin", "read-timeout"}[(fi+off)%4]
			plain = append(plain, kase{fault, f[:off]})
			if (fi+off)%3 == 0 {
				overTLS = append(overTLS, kase{[]string{"fatal-alert", "garbage-record", "read-timeout", "reset"}[(fi+off/3)%4], f[:off]})
			}
		}
	}
	check := func(srv *Srv, before int, what string, det map[string]any) {
		c.Count("inputs", 1)
		c.Count("reads_ended_by_a_fault", 1)
		c.Distinct("read_faults", what)
		if srv.Log.PanicCount() > before {
			ps := srv.Log.Panics()
			msg := ps[len(ps)-1]
			pm := msg
			if i := strings.LastIndex(msg, ": "); i >= 0 {
				pm = msg[i+2:]
			}
			det["log"] = msg
			c.Violate("panic while a request read ended by a fault: "+normPanic(pm), what+": a panic was caught by the connection-level recovery: "+pm, det)
		}
	}
	mk := func(stc *tls.Config, rt time.Duration) *Srv {
		rc := &Recorder{}
		srv, err := startSrv(SrvCfg{TLS: stc, ReadTimeout: rt}, func(m *gldap.Mux) { rc.RegisterAll(m, c01ExtNames) })
		if err != nil {
			c.Inconclusive("server start: " + err.Error())
			return nil
		}
		return srv
	}
	const rt = 40 * time.Millisecond
	var wg sync.WaitGroup
	// ---- plain listener
	wg.Add(1)
	go func() {
		defer wg.Done()
		srv := mk(nil, rt)
		if srv == nil {
			return
		}
		defer srv.StopWithin(patience)
		for _, k := range plain {
			before, closes := srv.Log.PanicCount(), srv.closeCnt.Load()
			cn, err := net.Dial("tcp", srv.Addr)
			if err != nil {
				c.Inconclusive("dial: " + err.Error())
				return
			}
			cn.Write(k.cut)
			switch k.fault {
			case "reset":
				cn.(*net.TCPConn).SetLinger(0)
				cn.Close()
			case "fin":
				cn.(*net.TCPConn).CloseWrite()
			}
			// read-timeout: the client just waits for the server to give up
			srv.WaitCloses(closes+1, patience)
			cn.Close()
			check(srv, before, "plain/"+k.fault, map[string]any{"sent_hex": hx(k.cut), "fault": k.fault})
		}
	}()
	// ---- TLS listener: faults inside an established session
	wg.Add(1)
	go func() {
		defer wg.Done()
		srv := mk(pki.ServerOnly, rt)
		if srv == nil {
			return
		}
		defer srv.StopWithin(patience)
		for _, k := range overTLS {
			before, closes := srv.Log.PanicCount(), srv.closeCnt.Load()
			cn, err := net.Dial("tcp", srv.Addr)
			if err != nil {
				c.Inconclusive("dial: " + err.Error())
				return
			}
			tc := tls.Client(cn, pki.ClientPlain)
			cn.SetDeadline(time.Now().Add(patience))
			if err := tc.Handshake(); err != nil {
				cn.Close()
				c.Inconclusive("handshake: " + err.Error())
				return
			}
			tc.Write(k.cut)
			switch k.fault {
			case "fatal-alert":
				cn.Write([]byte{0x15, 0x03, 0x03, 0x00, 0x02, 0x02, 0x28}) // (unprotected) fatal handshake_failure
			case "garbage-record":
				cn.Write([]byte{0x17, 0x03, 0x03, 0x00, 0x20})
				cn.Write(NewRand(uint64(len(k.cut))).Bytes(32))
			case "reset":
				cn.(*net.TCPConn).SetLinger(0)
				cn.Close()
			}
			srv.WaitCloses(closes+1, patience)
			cn.Close()
			check(srv, before, "tls-session/"+k.fault, map[string]any{"sent_hex": hx(k.cut), "fault": k.fault})
		}
	}()
	// ---- TLS listener: handshakes that the client aborts, and that simply time out
	wg.Add(1)
	go func() {
		defer wg.Done()
		for _, scfg := range []*tls.Config{pki.ServerOnly, pki.ServerMTLS} {
			srv := mk(scfg, rt)
			if srv == nil {
				return
			}
			for i := 0; i < c.N(12, 120); i++ {
				before, closes := srv.Log.PanicCount(), srv.closeCnt.Load()
				cn, err := net.Dial("tcp", srv.Addr)
				if err != nil {
					c.Inconclusive("dial: " + err.Error())
					return
				}
				what := []string{"client-distrusts-server", "client-offers-no-common-version", "hello-then-silence", "silence"}[i%4]
				cn.SetDeadline(time.Now().Add(patience))
				switch what {
				case "client-distrusts-server":
					// the ordinary case of a client that does not know the CA: it answers the certificate with a fatal alert
					tls.Client(cn, &tls.Config{ServerName: "localhost", RootCAs: x509.NewCertPool()}).Handshake()
				case "client-offers-no-common-version":
					tls.Client(cn, &tls.Config{InsecureSkipVerify: true, MinVersion: tls.VersionTLS10, MaxVersion: tls.VersionTLS10}).Handshake()
				case "hello-then-silence":
					cn.Write([]byte{0x16, 0x03, 0x01, 0x00, 0xc8, 0x01, 0x00, 0x00, 0xc4, 0x03, 0x03})
				}
				srv.WaitCloses(closes+1, patience)
				cn.Close()
				check(srv, before, "tls-handshake/"+what, map[string]any{"fault": what})
			}
			srv.StopWithin(patience)
		}
	}()
	// ---- Stop while a frame is incomplete
	wg.Add(1)
	go func() {
		defer wg.Done()
		for i := 0; i < c.N(6, 60); i++ {
			srv := mk(nil, 0)
			if srv == nil {
				return
			}
			before := srv.Log.PanicCount()
			f := frames[i%len(frames)]
			cn, err := net.Dial("tcp", srv.Addr)
			if err != nil {
				c.Inconclusive("dial: " + err.Error())
				return
			}
			cn.Write(f[:1+i%(len(f)-1)])
			time.Sleep(2 * time.Millisecond)
			srv.StopWithin(patience)
			cn.Close()
			check(srv, before, "plain/stop", map[string]any{"fault": "Stop while the frame is incomplete"})
		}
	}()
	wg.Wait()
}

// c02DebugServers: the servers log at Debug level (gldap then describes every packet it reads - code that runs on the
// raw, not yet validated packet and is dead at every other level); the complete single-point set plus a slice of the rest.
var c02DebugServers bool

// c02TLSListener: the same (thinned) corpus sent in PLAINTEXT to servers that run a TLS listener: the bytes never get
// past the TLS layer, but whatever the server does about a peer that does not speak TLS must not panic either.
var c02TLSListener bool

func c02TCPRecover(c *Ctx) {
	ins := c02TCPInputs(c)
	lvl := hclog.NoLevel
	var stc *tls.Config
	if c02TLSListener {
		stc = newPKI().ServerOnly
	}
	if c02DebugServers || c02TLSListener {
		if c02DebugServers {
			lvl = hclog.Debug
		}
		n := len(c02Singles())
		if n > len(ins) {
			n = len(ins)
		}
		thin := append([]c02Input{}, ins[:n]...)
		for i := n; i < len(ins); i += c.N(6, 2) {
			thin = append(thin, ins[i])
		}
		ins = thin
	}
	workers := 16
	var wg sync.WaitGroup
	var next atomic.Int64
	for w := 0; w < workers; w++ {
		wg.Add(1)
		go func() {
			defer wg.Done()
			rc := &Recorder{}
			srv, err := startSrv(SrvCfg{LogLevel: lvl, TLS: stc}, func(m *gldap.Mux) { rc.RegisterAll(m, c01ExtNames) })
			if err != nil {
				c.Inconclusive("server start: " + err.Error())
				return
			}
			for {
				i := int(next.Add(1)) - 1
				if i >= len(ins) {
					break
				}
				if c02SendTCP(c, srv, ins[i], "recovery enabled") {
					c.Count("inputs_tcp_recover", 1)
					if c02TLSListener {
						c.Count("inputs_sent_in_plaintext_to_a_tls_listener", 1)
					}
					if c02DebugServers {
						c.Count("inputs_tcp_recover_debug_level_logger", 1)
					}
				}
			}
			c.Count("requests_delivered_to_handlers_tcp", rc.count.Load())
			srv.StopWithin(patience)
		}()
	}
	wg.Wait()
	c.Sample(map[string]any{"delivery": "tcp, recovery enabled", "mutation": ins[len(ins)/2].Name, "input_hex": hx(trunc(ins[len(ins)/2].In, 200))})
}

const (
	c02Slots    = 8
	c02SlotSize = 16 + 4096
)

type c02Resume struct {
	Start int   `json:"start"`
	Retry []int `json:"retry"`
}

// c02TCPNoRecover feeds the list to a server with panic recovery disabled.
// Before an input is sent, its index and bytes are written to the worker's
// slot of a progress file, so that when the process dies the supervisor knows
// the inputs in flight, records the stack and restarts: first re-feeding the
// in-flight inputs one at a time (exact attribution), then continuing.
func c02TCPNoRecover(c *Ctx) {
	var res c02Resume
	if a := os.Getenv("VERIF_ARG"); a != "" {
		json.Unmarshal([]byte(a), &res)
	}
	ins := c02TCPInputs(c)
	if c.Quick() {
		// quick: the complete single-point set plus a third of the rest
		n := len(c02Singles())
		thin := ins[:n:n]
		for i := n; i < len(ins); i += 3 {
			thin = append(thin, ins[i])
		}
		ins = thin
	}
	pf, err := os.OpenFile(filepath.Join(os.Getenv("VERIF_SCRATCH_DIR"), "c02-progress"), os.O_CREATE|os.O_RDWR|os.O_TRUNC, 0o644)
	if err != nil {
		c.Inconclusive("progress file: " + err.Error())
		return
	}
	// slot layout: [current index u64][previous index u64][len u64][input bytes]; ^0 = none.
	// OnClose runs while the panic unwinds, so a worker may already have moved on
	// when the process finally dies: the previous index is a suspect too.
	empty := make([]byte, c02Slots*c02SlotSize)
	for s := 0; s < c02Slots; s++ {
		binary.LittleEndian.PutUint64(empty[s*c02SlotSize:], ^uint64(0))
		binary.LittleEndian.PutUint64(empty[s*c02SlotSize+8:], ^uint64(0))
	}
	pf.WriteAt(empty, 0)
	last := make([]int, c02Slots)
	for i := range last {
		last[i] = -1
	}
	mark := func(slot, idx int) {
		buf := make([]byte, 24, c02SlotSize)
		binary.LittleEndian.PutUint64(buf, uint64(int64(idx)))
		binary.LittleEndian.PutUint64(buf[8:], uint64(int64(last[slot])))
		if idx >= 0 {
			in := trunc(ins[idx].In, 4000)
			binary.LittleEndian.PutUint64(buf[16:], uint64(len(in)))
			buf = append(buf, in...)
			last[slot] = idx
		}
		pf.WriteAt(buf, int64(slot*c02SlotSize))
	}
	rc := &Recorder{}
	srv, err := startSrv(SrvCfg{DisableRecover: true}, func(m *gldap.Mux) { rc.RegisterAll(m, c01ExtNames) })
	if err != nil {
		c.Inconclusive("server start: " + err.Error())
		return
	}
	for _, i := range res.Retry {
		if i < 0 || i >= len(ins) {
			continue
		}
		mark(0, i)
		if c02SendTCP(c, srv, ins[i], "recovery disabled") {
			c.Count("inputs_tcp_norecover", 1)
		}
		// settle: if this input killed the process, let it die while the mark still names it
		time.Sleep(300 * time.Millisecond)
	}
	last[0] = -1
	mark(0, -1)
	var next atomic.Int64
	next.Store(int64(res.Start))
	var wg sync.WaitGroup
	for w := 0; w < c02Slots; w++ {
		wg.Add(1)
		go func(w int) {
			defer wg.Done()
			for {
				i := int(next.Add(1)) - 1
				if i >= len(ins) {
					return
				}
				mark(w, i)
				if c02SendTCP(c, srv, ins[i], "recovery disabled") {
					c.Count("inputs_tcp_norecover", 1)
				}
			}
		}(w)
	}
	wg.Wait()
	srv.StopWithin(patience)
}

// c02Crash handles the death of the recovery-disabled server process.
func c02Crash(s *Super, ph Phase, stderr string, partial *PhaseResult) []Phase {
	var res c02Resume
	if ph.Arg != "" {
		json.Unmarshal([]byte(ph.Arg), &res)
	}
	b, _ := os.ReadFile(filepath.Join(s.Scratch, "c02-progress"))
	var inflight []int
	var inputs []string
	seen := map[int]bool{}
	sequential := false
	for sl := 0; sl < c02Slots && (sl+1)*c02SlotSize <= len(b); sl++ {
		o := sl * c02SlotSize
		cur := int64(binary.LittleEndian.Uint64(b[o:]))
		prev := int64(binary.LittleEndian.Uint64(b[o+8:]))
		n := int(binary.LittleEndian.Uint64(b[o+16:]))
		if n > 4000 {
			n = 4000
		}
		if cur >= 0 && !seen[int(cur)] {
			seen[int(cur)] = true
			inflight = append(inflight, int(cur))
			inputs = append(inputs, fmt.Sprintf("#%d %s", cur, hx(b[o+24:o+24+n])))
		}
		if prev >= 0 && !seen[int(prev)] {
			seen[int(prev)] = true
			inflight = append(inflight, int(prev))
			inputs = append(inputs, fmt.Sprintf("#%d (previous input of the same worker)", prev))
		}
	}
	// during the sequential re-feed only slot 0 is used and every input is
	// followed by a settle pause: its current index is the culprit
	if len(b) >= 8 {
		cur0 := int64(binary.LittleEndian.Uint64(b[0:]))
		only0 := cur0 >= 0
		for sl := 1; sl < c02Slots && (sl+1)*c02SlotSize <= len(b); sl++ {
			if int64(binary.LittleEndian.Uint64(b[sl*c02SlotSize:])) >= 0 || int64(binary.LittleEndian.Uint64(b[sl*c02SlotSize+8:])) >= 0 {
				only0 = false
			}
		}
		if only0 {
			sequential = true
			inflight, inputs = inflight[:1], inputs[:1]
		}
	}
	_ = sequential
	site, msg, isGldap := classifyCrash(stderr)
	if os.Getenv("VERIF_VERBOSE") != "" {
		fmt.Fprintf(os.Stderr, "c02Crash: phase=%s arg=%s inflight=%v site=%s msg=%s\n", ph.Name, ph.Arg, inflight, site, msg)
	}
	if !isGldap {
		s.infra = append(s.infra, fmt.Sprintf("phase %s: server process died (inputs in flight %v) without a gldap frame: %s\n%s", ph.Name, inflight, msg, tail(stderr, 2000)))
		return nil
	}
	pm := strings.TrimPrefix(msg, "panic: ")
	s.merged.Counts["server_process_deaths"]++
	if len(inflight) == 1 {
		s.merged.Violations = append(s.merged.Violations, Violation{
			Key:    "decode panic in " + site + ": " + normPanic(pm),
			What:   "with panic recovery disabled the server process died while decoding a request: " + pm,
			Detail: map[string]any{"phase": ph.Name, "input": inputs[0], "stderr_tail": tail(stderr, 3000)},
		})
	}
	if len(inflight) == 0 || s.merged.Counts["server_process_deaths"] >= 200 {
		s.infra = append(s.infra, "restart cap reached or progress unknown; remaining inputs of tcp-norecover not fed")
		return nil
	}
	nr := c02Resume{Start: res.Start}
	if len(inflight) == 1 {
		// exact culprit: drop it, keep the rest of the retry list
		for _, i := range res.Retry {
			if i != inflight[0] {
				nr.Retry = append(nr.Retry, i)
			}
		}
		if inflight[0] >= res.Start {
			nr.Start = inflight[0] + 1
		}
		// retry entries already processed before the culprit are re-fed; harmless (deterministic, they passed)
		for k, i := range res.Retry {
			if i == inflight[0] {
				nr.Retry = res.Retry[k+1:]
			}
		}
	} else {
		// ambiguous: re-feed every in-flight input one at a time, then continue after the largest
		nr.Retry = append([]int{}, inflight...)
		for _, i := range inflight {
			if i+1 > nr.Start {
				nr.Start = i + 1
			}
		}
	}
	arg, _ := json.Marshal(nr)
	np := ph
	np.Name = fmt.Sprintf("tcp-norecover@%d", s.merged.Counts["server_process_deaths"])
	np.Arg = string(arg)
	return []Phase{np}
}

// c02Fuzz runs Go's native coverage-guided fuzzer over the decode hook for a
// fixed number of executions (a count, not a time budget).
func c02Fuzz(c *Ctx) {
	out := filepath.Join(os.Getenv("VERIF_SCRATCH_DIR"), "fuzz-out")
	os.MkdirAll(out, 0o755)
	execs := c.N(200000, 3000000)
	args := []string{"test"}
	if m := os.Getenv("VERIF_MODARG"); m != "" {
		args = append(args, m)
	}
	args = append(args, "-tags", "verif", "-run=^$", "-fuzz=FuzzReadRequest", fmt.Sprintf("-fuzztime=%dx", execs), "-parallel=16", "./cmd/verif")
	cmd := execCommand("go", args...)
	cmd.Dir = os.Getenv("VERIF_DIR")
	cmd.Env = append(os.Environ(), "VERIF_FUZZ_OUT="+out, "GOFLAGS=-mod=mod")
	b, err := cmd.CombinedOutput()
	outS := string(b)
	c.Note("fuzz_output_tail", tail(outS, 600))
	if err != nil && !strings.Contains(outS, "PASS") {
		c.Inconclusive("go test -fuzz failed: " + err.Error() + ": " + tail(outS, 800))
	}
	// executions actually performed, from the fuzzer's own progress lines
	if m := reFuzzExecs.FindAllStringSubmatch(outS, -1); len(m) > 0 {
		n, _ := strconv.ParseInt(m[len(m)-1][1], 10, 64)
		c.Count("inputs", n)
		c.Count("inputs_fuzz", n)
	}
	if m := reFuzzInteresting.FindAllStringSubmatch(outS, -1); len(m) > 0 {
		n, _ := strconv.ParseInt(m[len(m)-1][1], 10, 64)
		c.Count("fuzz_new_interesting_inputs", n)
	}
	files, _ := filepath.Glob(filepath.Join(out, "*"))
	for _, f := range files {
		b, err := os.ReadFile(f)
		if err != nil {
			continue
		}
		p := strings.SplitN(string(b), "\n", 4)
		if len(p) < 4 {
			continue
		}
		c.Violate(p[0], "coverage-guided fuzzing found a decode panic: "+p[1], map[string]any{"input_hex": p[2], "stack": stackHead(p[3], 30)})
	}
	// never leave crashers or corpus additions in the source tree
	os.RemoveAll(filepath.Join(os.Getenv("VERIF_DIR"), "cmd", "verif", "testdata"))
}
