package main

import (
	"crypto/tls"
	"fmt"
	"net"
	"os"
	"strings"
	"sync"
	"sync/atomic"
	"time"

	"github.com/jimlambrt/gldap"

	"verif/internal/sber"
)

func init() {
	register(&Check{
		ID: "C09", Level: "exploration", Primary: "connections", EvalCount: "requests_tagged",
		Rule: "16..256 concurrent clients run open / k requests of mixed operations / close / reconnect cycles against one long-lived server; every request carries the client-side connection tag in a DN; idle, " +
			"malformed-frame and instantly-closed connections are interleaved (they consume IDs too), followed by replacements of the server's router while connections are open, by connections that are upgraded with StartTLS in the middle, by a long-lifetime phase (70 000+ short connections next to one long-lived one, which in the thorough tier goes on to issue more than 2^21 requests) and by episodes in which Accept fails temporarily (descriptor exhaustion; the first one lasts 2.5s) between two tagged connections. Oracle: tag -> ConnectionID is a function (stable per connection) and injective over the whole server lifetime " +
			"(never reused, even after close; also after another gldap server was started in the same process), IDs > 0 - also when a handler asks again after its client has hung up -, and the ID passed to OnClose after a tagged connection ended is the one its handlers saw, exactly once. " +
			"distinct_nontrivial = distinct tagged connections that issued at least two requests and were closed and reported via OnClose",
		Assume: []string{"a connection is identified client-side by the tag it puts into its requests"},
		Phases: func(tier string, seed int64) []Phase {
			return []Phase{{Name: "cycles", Run: c09Run}, {Name: "cycles-tls-listener", Run: c09Run, Arg: "tls"}}
		},
		MinObserved: []string{"requests_tagged", "requests_tagged_that_carry_message_id_zero", "further_run_calls_with_a_malformed_address_on_the_running_server", "reconnects_after_close", "onclose_ids_matched", "accept_failure_episodes", "starttls_upgraded_connections", "short_lived_connections", "router_replaced_while_serving", "connection_ids_read_again_after_the_client_left", "other_servers_started_in_the_same_process", "unbind_handler_ids_matched", "connections_used_after_a_panic_on_their_read_loop", "accept_outages_that_lasted_for_seconds"},
	})
}

func c09Run(c *Ctx) {
	var mu sync.Mutex
	tagID := map[string]int{}
	idTag := map[int]string{}
	reqs := map[string]int{}
	record := func(tag string, id int) {
		mu.Lock()
		defer mu.Unlock()
		c.Count("requests_tagged", 1)
		reqs[tag]++
		if id <= 0 {
			c.Violate("ConnectionID is not positive", fmt.Sprintf("tag %s: id %d", tag, id), nil)
		}
		if old, ok := tagID[tag]; ok && old != id {
			c.Violate("requests of one connection report different ConnectionIDs", fmt.Sprintf("connection %s: %d then %d", tag, old, id), map[string]any{"tag": tag})
		}
		tagID[tag] = id
		if other, ok := idTag[id]; ok && other != tag {
			c.Violate("two connections share a ConnectionID", fmt.Sprintf("id %d used by connection %s and connection %s", id, other, tag), map[string]any{"id": id, "tags": []string{other, tag}})
		}
		idTag[id] = tag
	}
	var lateReads atomic.Int64
	handler := func(w *gldap.ResponseWriter, r *gldap.Request) {
		o := observe("", r)
		tag := ""
		switch o.Kind {
		case "bind":
			tag = string(o.Name)
		default:
			tag = string(o.DN)
		}
		if tag != "" {
			record(tag, r.ConnectionID())
		}
		if o.Kind == "search" && strings.HasPrefix(tag, "tag=late-reader-") {
			// a handler that asks for the connection's ID again at its end - by which time the client has gone
			time.Sleep(30 * time.Millisecond)
			record(tag, r.ConnectionID())
			lateReads.Add(1)
		}
		replyFor(o, w, r)
	}
	pki := newPKI()
	// the TLS-listener phase: the same cycles over ldaps, where closing the transport can fail (a peer that vanished
	// with a reset leaves nothing to send the close_notify to), without the long-lifetime and accept-failure parts
	overTLS := os.Getenv("VERIF_ARG") == "tls"
	var stc, ctc *tls.Config
	if overTLS {
		stc, ctc = pki.ServerOnly, pki.ClientPlain
	}
	var unbindMu sync.Mutex
	unbindIDs := map[int]int{}
	var panicOnUnbind sync.Map // connection id -> true: the unbind handler of that connection panics
	register := func(m *gldap.Mux) {
		// the Unbind route sees the connection's ID like any other handler (it has no DN to carry a tag: its IDs are
		// checked against the IDs the tagged requests of the same connections reported)
		m.Unbind(func(w *gldap.ResponseWriter, r *gldap.Request) {
			id := r.ConnectionID()
			unbindMu.Lock()
			unbindIDs[id]++
			unbindMu.Unlock()
			if _, ok := panicOnUnbind.LoadAndDelete(id); ok {
				panic("injected panic in the unbind handler (C09)")
			}
		})
		m.Bind(handler)
		m.Search(handler)
		m.Modify(handler)
		m.Add(handler)
		m.Delete(handler)
		m.ExtendedOperation(func(w *gldap.ResponseWriter, r *gldap.Request) {
			w.Write(r.NewExtendedResponse(gldap.WithResponseCode(0)))
			r.StartTLS(pki.ServerOnly)
		}, gldap.ExtendedOperationStartTLS)
	}
	srv, err := startSrv(SrvCfg{TLS: stc}, register)
	if err != nil {
		c.Inconclusive("server start: " + err.Error())
		return
	}
	clients := c.N(32, 256)
	totalConns := c.N(2500, 60000)
	if overTLS {
		clients, totalConns = c.N(16, 64), c.N(400, 6000)
	}
	var connCtr atomic.Int64
	var cur, maxCur atomic.Int64
	var wg sync.WaitGroup
	closedTags := make(chan string, totalConns+clients+1000)
	for cl := 0; cl < clients; cl++ {
		wg.Add(1)
		go func(cl int) {
			defer wg.Done()
			r := c.Rng.Sub(fmt.Sprintf("c%d", cl))
			for cycle := 0; ; cycle++ {
				if connCtr.Add(1) > int64(totalConns) {
					return
				}
				tag := fmt.Sprintf("tag=%d-%d", cl, cycle)
				switch r.Intn(10) {
				case 0: // open and close without a byte
					if cn, err := net.Dial("tcp", srv.Addr); err == nil {
						cn.Close()
					}
					c.Count("untagged_connections", 1)
					continue
				case 1: // malformed frame
					if overTLS {
						if kc, err := dialRaw(srv.Addr, ctc); err == nil {
							kc.Send([]byte{0x30, 0x02, 0xff, 0xff})
							kc.Close()
						}
					} else if cn, err := net.Dial("tcp", srv.Addr); err == nil {
						cn.Write([]byte{0x30, 0x02, 0xff, 0xff})
						cn.Close()
					}
					c.Count("untagged_connections", 1)
					continue
				}
				kc, err := dialRaw(srv.Addr, ctc)
				if err != nil {
					c.Inconclusive("dial: " + err.Error())
					return
				}
				n := cur.Add(1)
				for {
					m := maxCur.Load()
					if n <= m || maxCur.CompareAndSwap(m, n) {
						break
					}
				}
				k := 1 + r.Intn(6)
				for i := 0; i < k; i++ {
					var op *sber.Node
					switch r.Intn(5) {
					case 0:
						op = sber.BindRequest(3, []byte(tag), []byte("p"))
					case 1:
						op = sber.Search{Base: []byte(tag), Scope: 2, Filter: sber.PresentFilter("cn"), Attrs: [][]byte{}}.Node()
					case 2:
						op = sber.ModifyRequest([]byte(tag), nil)
					case 3:
						op = sber.AddRequest([]byte(tag), nil)
					default:
						op = sber.DelRequest([]byte(tag))
					}
					mid := int64(i + 1)
					if r.Chance(12) {
						mid = 0 // (a client may number a request 0; it is a request of this connection like any other)
						c.Count("requests_tagged_that_carry_message_id_zero", 1)
					}
					kc.Send(sber.Message(mid, op, nil).Encode())
					if r.Chance(50) { // sometimes wait for the answer, sometimes pipeline
						if _, err := kc.ReadMsg(patience); err != nil {
							c.Inconclusive("read: " + err.Error())
							break
						}
					}
				}
				// drain outstanding answers so that every handler has run before the close
				kc.Send(sber.Message(99, sber.BindRequest(3, []byte(tag), []byte("p")), nil).Encode())
				for {
					m, err := kc.ReadMsg(patience)
					if err != nil || m.ID == 99 {
						break
					}
				}
				switch x := r.Intn(100); {
				case x < 20 || overTLS && x < 40:
					kc.Reset()
					c.Count("connections_ended_by_reset", 1)
				case overTLS && x < 55:
					kc.Drop()
					c.Count("tls_connections_ended_without_close_notify", 1)
				case x < 75:
					kc.Send(sber.Message(98, sber.UnbindRequest(), nil).Encode())
					kc.ReadMsg(2 * time.Second) // EOF
					kc.Close()
					c.Count("connections_ended_by_unbind", 1)
				default:
					kc.Close()
				}
				cur.Add(-1)
				closedTags <- tag
				if cycle > 0 {
					c.Count("reconnects_after_close", 1)
				}
			}
		}(cl)
	}
	wg.Wait()
	// the router is replaced while the server runs (Server.Router may be called at any time): connection IDs belong to
	// the server, whatever mux happens to route its requests
	for swap := 0; swap < c.N(2, 10); swap++ {
		tagged := func(tag string) *Client {
			kc, err := dialRaw(srv.Addr, ctc)
			if err != nil {
				return nil
			}
			kc.Send(sber.Message(1, sber.BindRequest(3, []byte(tag), []byte("p")), nil).Encode())
			if _, err := kc.ReadMsg(patience); err != nil {
				kc.Close()
				return nil
			}
			connCtr.Add(1)
			totalConns++
			return kc
		}
		keepTag := fmt.Sprintf("tag=open-across-router-swap-%d", swap)
		keep := tagged(keepTag)
		if m2, err := gldap.NewMux(); err == nil {
			register(m2)
			if err := srv.S.Router(m2); err != nil {
				c.Inconclusive("Router: " + err.Error())
				break
			}
		}
		for k := 0; k < 4; k++ {
			t := fmt.Sprintf("tag=after-router-swap-%d-%d", swap, k)
			if kc := tagged(t); kc != nil {
				kc.Send(sber.Message(2, sber.Search{Base: []byte(t), Scope: 2, Filter: sber.PresentFilter("cn"), Attrs: [][]byte{}}.Node(), nil).Encode())
				kc.ReadMsg(patience)
				kc.Close()
				closedTags <- t
			}
		}
		if keep != nil {
			keep.Send(sber.Message(2, sber.BindRequest(3, []byte(keepTag), []byte("p")), nil).Encode())
			keep.ReadMsg(patience)
			keep.Close()
			closedTags <- keepTag
		}
		c.Count("router_replaced_while_serving", 1)
	}
	// handlers that read ConnectionID() again after their client has hung up (close, reset, Unbind): still the same ID
	for k := 0; k < c.N(30, 300); k++ {
		tag := fmt.Sprintf("tag=late-reader-%d", k)
		kc, err := dialRaw(srv.Addr, ctc)
		if err != nil {
			continue
		}
		connCtr.Add(1)
		totalConns++
		kc.Send(sber.Message(1, sber.BindRequest(3, []byte(tag), []byte("p")), nil).Encode())
		if _, err := kc.ReadMsg(patience); err != nil {
			kc.Close()
			continue
		}
		before := lateReads.Load()
		kc.Send(sber.Message(2, sber.Search{Base: []byte(tag), Scope: 2, Filter: sber.PresentFilter("cn"), Attrs: [][]byte{}}.Node(), nil).Encode())
		time.Sleep(3 * time.Millisecond) // the request is being handled; now the client goes away
		switch k % 3 {
		case 0:
			kc.Close()
		case 1:
			kc.Reset()
		default:
			kc.Send(sber.Message(3, sber.UnbindRequest(), nil).Encode())
			kc.Close()
		}
		for dl := time.Now().Add(2 * time.Second); lateReads.Load() == before && time.Now().Before(dl); time.Sleep(time.Millisecond) {
		}
		if lateReads.Load() > before {
			c.Count("connection_ids_read_again_after_the_client_left", 1)
		}
		closedTags <- tag
	}
	// a handler that runs on the connection's read loop (the Unbind route) panics; the client sends on regardless.
	// Whatever the server makes of that connection afterwards, a request of it never reports another ID than before.
	for k := 0; k < c.N(10, 100); k++ {
		tag := fmt.Sprintf("tag=after-read-loop-panic-%d", k)
		kc, err := dialRaw(srv.Addr, ctc)
		if err != nil {
			continue
		}
		connCtr.Add(1)
		totalConns++
		kc.Send(sber.Message(1, sber.BindRequest(3, []byte(tag), []byte("p")), nil).Encode())
		if _, err := kc.ReadMsg(patience); err != nil {
			kc.Close()
			continue
		}
		mu.Lock()
		id := tagID[tag]
		mu.Unlock()
		panicOnUnbind.Store(id, true)
		kc.Send(sber.Message(2, sber.UnbindRequest(), nil).Encode())
		time.Sleep(2 * time.Millisecond)
		// a neighbour connects meanwhile (it must get an ID of its own) ...
		nb := fmt.Sprintf("tag=neighbour-of-read-loop-panic-%d", k)
		if nc, err := dialRaw(srv.Addr, ctc); err == nil {
			connCtr.Add(1)
			totalConns++
			nc.Send(sber.Message(1, sber.BindRequest(3, []byte(nb), []byte("p")), nil).Encode())
			nc.ReadMsg(patience)
			// ... and the first client keeps sending
			kc.Send(sber.Message(3, sber.BindRequest(3, []byte(tag), []byte("p")), nil).Encode())
			kc.ReadMsg(300 * time.Millisecond)
			nc.Send(sber.Message(2, sber.BindRequest(3, []byte(nb), []byte("p")), nil).Encode())
			nc.ReadMsg(patience)
			nc.Close()
			closedTags <- nb
		}
		kc.Close()
		closedTags <- tag
		c.Count("connections_used_after_a_panic_on_their_read_loop", 1)
	}
	// another server is started in the same process while this one keeps accepting: its connections are its own
	// business, this server's sequence of IDs is not
	if other, err := startSrv(SrvCfg{}, func(m *gldap.Mux) {
		m.Bind(func(w *gldap.ResponseWriter, r *gldap.Request) { w.Write(r.NewBindResponse(gldap.WithResponseCode(0))) })
	}); err == nil {
		for k := 0; k < 3; k++ {
			if oc, err := dialRaw(other.Addr, nil); err == nil {
				oc.Send(sber.Message(1, sber.BindRequest(3, []byte("cn=elsewhere"), []byte("p")), nil).Encode())
				oc.ReadMsg(patience)
				oc.Close()
			}
		}
		for k := 0; k < 6; k++ {
			tag := fmt.Sprintf("tag=after-another-server-started-%d", k)
			if kc, err := dialRaw(srv.Addr, ctc); err == nil {
				connCtr.Add(1)
				totalConns++
				kc.Send(sber.Message(1, sber.BindRequest(3, []byte(tag), []byte("p")), nil).Encode())
				kc.ReadMsg(patience)
				kc.Close()
				closedTags <- tag
			}
		}
		c.Count("other_servers_started_in_the_same_process", 1)
		defer other.StopWithin(patience)
	}
	// connections that are upgraded with StartTLS in the middle: the ID must not change across the upgrade
	nStartTLS := c.N(30, 400)
	if overTLS {
		nStartTLS = 0
	}
	for i := 0; i < nStartTLS; i++ {
		tag := fmt.Sprintf("tag=starttls-%d", i)
		cn, err := net.Dial("tcp", srv.Addr)
		if err != nil {
			c.Inconclusive("dial: " + err.Error())
			break
		}
		connCtr.Add(1)
		totalConns++
		cl := wrapClient(cn)
		cl.Send(sber.Message(1, sber.BindRequest(3, []byte(tag), []byte("p")), nil).Encode())
		cl.ReadMsg(patience)
		cl.Send(sber.Message(2, sber.ExtendedRequest([]byte(sber.OIDStartTLS), nil, false), nil).Encode())
		if _, err := cl.ReadMsg(patience); err != nil {
			cn.Close()
			continue
		}
		tc := tls.Client(cn, pki.ClientPlain)
		cn.SetDeadline(time.Now().Add(patience))
		if err := tc.Handshake(); err != nil {
			cn.Close()
			continue
		}
		cn.SetDeadline(time.Time{})
		tcl := wrapClient(tc)
		for k := 0; k < 2; k++ {
			tcl.Send(sber.Message(int64(3+k), sber.Search{Base: []byte(tag), Scope: 2, Filter: sber.PresentFilter("cn"), Attrs: [][]byte{}}.Node(), nil).Encode())
			tcl.ReadMsg(patience)
		}
		switch i % 3 {
		case 0:
			tc.Close()
		case 1: // the peer vanishes: RST underneath the TLS session, no close_notify
			cn.(*net.TCPConn).SetLinger(0)
			cn.Close()
			c.Count("connections_ended_by_reset", 1)
		default:
			cn.Close()
			c.Count("tls_connections_ended_without_close_notify", 1)
		}
		closedTags <- tag
		c.Count("starttls_upgraded_connections", 1)
	}
	// a long server lifetime: far more connections than any 16-bit counter holds, next to one long-lived tagged
	// connection (closed with RST so that no TIME_WAIT sockets pile up)
	if long, err := dialRaw(srv.Addr, ctc); err == nil && overTLS {
		long.Close()
	} else if err == nil {
		long.Send(sber.Message(1, sber.BindRequest(3, []byte("tag=long-lived"), []byte("p")), nil).Encode())
		long.ReadMsg(patience)
		connCtr.Add(1)
		totalConns++
		nShort := c.N(70000, 300000)
		var swg sync.WaitGroup
		var sctr atomic.Int64
		for w := 0; w < 16; w++ {
			swg.Add(1)
			go func() {
				defer swg.Done()
				for {
					i := sctr.Add(1)
					if i > int64(nShort) {
						return
					}
					kc, err := dialRaw(srv.Addr, nil)
					if err != nil {
						time.Sleep(10 * time.Millisecond)
						continue
					}
					kc.Send(sber.Message(1, sber.BindRequest(3, []byte(fmt.Sprintf("tag=short-%d", i)), []byte("p")), nil).Encode())
					kc.ReadMsg(patience)
					kc.Reset()
					c.Count("short_lived_connections", 1)
				}
			}()
		}
		swg.Wait()
		if !c.Quick() {
			// one connection that issues more than 2^21 requests (thorough tier): the ID its handlers see does not
			// depend on how many requests came before
			const total = 1<<21 + 5000
			go func() {
				var buf []byte
				for i := 0; i < total; i++ {
					buf = append(buf, sber.Message(int64(10+i%1000000), sber.BindRequest(3, []byte("tag=long-lived"), []byte("p")), nil).Encode()...)
					if len(buf) > 60000 {
						if long.Send(buf) != nil {
							return
						}
						buf = buf[:0]
					}
				}
				long.Send(buf)
			}()
			got := 0
			for got < total {
				if _, err := long.ReadMsg(patience); err != nil {
					c.Inconclusive(fmt.Sprintf("long request stream: %v after %d responses", err, got))
					break
				}
				got++
			}
			c.Count("requests_on_one_connection_in_a_row", int64(got))
		}
		long.Send(sber.Message(2, sber.BindRequest(3, []byte("tag=long-lived"), []byte("p")), nil).Encode())
		long.ReadMsg(patience)
		long.Close()
		closedTags <- "tag=long-lived"
	}
	// accept-failure episodes: connection IDs must stay unique and positive when Accept fails temporarily
	// (descriptor exhaustion) between two connections
	extra := 0
	nEpisodes := c.N(4, 20)
	if overTLS {
		nEpisodes = 0
	}
	for ep := 0; ep < nEpisodes; ep++ {
		mkTagged := func(tag string) *Client {
			kc, err := dialRaw(srv.Addr, nil)
			if err != nil {
				return nil
			}
			kc.Send(sber.Message(1, sber.BindRequest(3, []byte(tag), []byte("p")), nil).Encode())
			if _, err := kc.ReadMsg(patience); err != nil {
				kc.Close()
				return nil
			}
			return kc
		}
		ta, tb := fmt.Sprintf("tag=emfile-%d-a", ep), fmt.Sprintf("tag=emfile-%d-b", ep)
		a := mkTagged(ta)
		if ep%2 == 0 {
			// somebody calls Run once more on the running server with an address that lacks a port: that call fails, and
			// the numbering of the running server's connections is none of its business
			ret := make(chan error, 1)
			bad := []string{"127.0.0.1", "not an address", "localhost"}[(ep/2)%3]
			go func() { ret <- srv.S.Run(bad) }()
			select {
			case <-ret:
				c.Count("further_run_calls_with_a_malformed_address_on_the_running_server", 1)
			case <-time.After(patience):
				c.Inconclusive(fmt.Sprintf("Run(%q) on a running server did not return", bad))
			}
		}
		// the first episode is an outage that lasts for seconds, the others are blips
		hold := 40 * time.Millisecond
		if ep == 0 {
			hold = 2500 * time.Millisecond
			c.Count("accept_outages_that_lasted_for_seconds", 1)
		}
		held, err := emfileEpisode(srv.Addr, ep, hold)
		if err != nil {
			c.Inconclusive("emfile episode: " + err.Error())
			break
		}
		var b *Client
		for dl := time.Now().Add(patience); b == nil && time.Now().Before(dl); time.Sleep(20 * time.Millisecond) {
			select {
			case <-srv.runDone:
				c.Inconclusive("Run returned during an accept-failure episode (see C07)")
				dl = time.Now()
			default:
			}
			b = mkTagged(tb)
		}
		c.Count("accept_failure_episodes", 1)
		// connections held during the episode were accepted (some only after descriptors were released): they consume IDs and OnClose calls
		extra += held
		for _, x := range []struct {
			c *Client
			t string
		}{{a, ta}, {b, tb}} {
			if x.c != nil {
				x.c.Close()
				closedTags <- x.t
				extra++
			}
		}
	}
	close(closedTags)
	// every tagged connection has been closed by its client: wait for the OnClose callbacks
	nTagged := 0
	var tags []string
	for t := range closedTags {
		tags = append(tags, t)
		nTagged++
	}
	// every tagged connection has been closed by its client: wait (patience, not verdict) until an OnClose has been
	// reported for each of their IDs
	_ = extra
	for dl := time.Now().Add(patience); time.Now().Before(dl); time.Sleep(5 * time.Millisecond) {
		seen := map[int]bool{}
		for _, ev := range srv.Closes() {
			seen[ev.ID] = true
		}
		missing := 0
		mu.Lock()
		for _, t := range tags {
			if id, ok := tagID[t]; ok && !seen[id] {
				missing++
			}
		}
		mu.Unlock()
		if missing == 0 {
			break
		}
	}
	time.Sleep(20 * time.Millisecond) // a duplicate OnClose would follow closely
	closes := map[int]int{}
	for _, ev := range srv.Closes() {
		closes[ev.ID]++
		if ev.ID <= 0 {
			c.Violate("OnClose reports a non-positive connection ID", fmt.Sprint(ev.ID), nil)
		}
	}
	for id, n := range closes {
		if n > 1 {
			c.Violate("OnClose reported the same connection ID more than once", fmt.Sprintf("id %d: %d times", id, n), nil)
		}
	}
	mu.Lock()
	for _, t := range tags {
		id, ok := tagID[t]
		if !ok {
			c.Violate("a tagged connection's requests never reached a handler", t, nil)
			continue
		}
		if closes[id] != 1 {
			c.Violate("the ID passed to OnClose is not the ID the connection's handlers saw", fmt.Sprintf("connection %s had id %d; OnClose(%d) was called %d times", t, id, id, closes[id]), nil)
			continue
		}
		c.Count("onclose_ids_matched", 1)
		if reqs[t] >= 2 {
			c.Distinct("connections", t)
		}
	}
	unbindMu.Lock()
	for id, n := range unbindIDs {
		if id <= 0 {
			c.Violate("ConnectionID is not positive", fmt.Sprintf("the unbind handler saw connection id %d (%d times)", id, n), nil)
		} else if _, ok := idTag[id]; !ok && closes[id] == 0 {
			c.Violate("the ID passed to OnClose is not the ID the connection's handlers saw", fmt.Sprintf("the unbind handler saw connection id %d, which no other handler and no OnClose callback ever reported", id), nil)
		} else {
			c.Count("unbind_handler_ids_matched", 1)
		}
	}
	unbindMu.Unlock()
	c.Count("tagged_connections", int64(nTagged))
	c.Count("distinct_ids_seen_by_handlers", int64(len(idTag)))
	c.Count("distinct_ids_reported_by_onclose", int64(len(closes)))
	c.Max("max/concurrent_connections", maxCur.Load())
	mu.Unlock()
	c.Sample(map[string]any{"connection": tags[0], "id": tagID[tags[0]], "requests": reqs[tags[0]]})
	srv.StopWithin(patience)
}
