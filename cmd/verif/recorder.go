package main

import (
	"sync"
	"sync/atomic"
	"time"

	"github.com/jimlambrt/gldap"
)

// Recorder is a harness-owned set of handlers that record, through the public
// API only, every request they are given, and answer with the proper final
// response for the request's operation.
type Recorder struct {
	mu    sync.Mutex
	obs   []*Obs
	count atomic.Int64
	// Hook, when set, runs inside the handler after recording and before replying.
	Hook func(o *Obs, w *gldap.ResponseWriter, r *gldap.Request)
	// NoReply suppresses the automatic reply.
	NoReply bool
}

func (rc *Recorder) add(o *Obs) {
	rc.mu.Lock()
	rc.obs = append(rc.obs, o)
	rc.mu.Unlock()
	rc.count.Add(1)
}

// All returns a snapshot of the observations.
func (rc *Recorder) All() []*Obs {
	rc.mu.Lock()
	defer rc.mu.Unlock()
	return append([]*Obs{}, rc.obs...)
}

func (rc *Recorder) Reset() {
	rc.mu.Lock()
	rc.obs = nil
	rc.mu.Unlock()
	rc.count.Store(0)
}

// WaitCount waits (patience) for at least n observations.
func (rc *Recorder) WaitCount(n int64, d time.Duration) bool {
	deadline := time.Now().Add(d)
	for rc.count.Load() < n {
		if time.Now().After(deadline) {
			return false
		}
		time.Sleep(100 * time.Microsecond)
	}
	return true
}

// replyFor writes the proper final response for the observed kind.
func replyFor(o *Obs, w *gldap.ResponseWriter, r *gldap.Request) error {
	return replyWithDiag(o.Kind, w, r, "")
}

// replyWithDiag writes the proper final (success) response for the request
// kind, carrying diag as its diagnostic message.
func replyWithDiag(kind string, w *gldap.ResponseWriter, r *gldap.Request, diag string) error {
	switch kind {
	case "bind":
		resp := r.NewBindResponse(gldap.WithResponseCode(gldap.ResultSuccess))
		resp.SetDiagnosticMessage(diag)
		return w.Write(resp)
	case "search":
		resp := r.NewSearchDoneResponse(gldap.WithResponseCode(gldap.ResultSuccess))
		resp.SetDiagnosticMessage(diag)
		return w.Write(resp)
	case "modify":
		return w.Write(r.NewModifyResponse(gldap.WithResponseCode(gldap.ResultSuccess), gldap.WithDiagnosticMessage(diag)))
	case "add":
		return w.Write(r.NewResponse(gldap.WithApplicationCode(gldap.ApplicationAddResponse), gldap.WithResponseCode(gldap.ResultSuccess), gldap.WithDiagnosticMessage(diag)))
	case "delete":
		return w.Write(r.NewResponse(gldap.WithApplicationCode(gldap.ApplicationDelResponse), gldap.WithResponseCode(gldap.ResultSuccess), gldap.WithDiagnosticMessage(diag)))
	case "extended":
		resp := r.NewExtendedResponse(gldap.WithResponseCode(gldap.ResultSuccess))
		resp.SetDiagnosticMessage(diag)
		return w.Write(resp)
	}
	return nil // unbind: no response
}

// Handler returns a recording handler labelled with the route it is
// registered on; extName is the registered extended-operation name (if any).
func (rc *Recorder) Handler(route string, extName string) gldap.HandlerFunc {
	return func(w *gldap.ResponseWriter, r *gldap.Request) {
		o := observe(route, r)
		if o.Kind == "extended" && extName != "" {
			o.Name = []byte(extName)
		}
		rc.add(o)
		if rc.Hook != nil {
			rc.Hook(o, w, r)
		}
		if !rc.NoReply {
			_ = replyFor(o, w, r)
		}
	}
}

// RegisterAll registers recording handlers on every route kind: bind, search,
// modify, add, delete, the given extended names, unbind and default.
func (rc *Recorder) RegisterAll(m *gldap.Mux, extNames []string) {
	m.Bind(rc.Handler("bind", ""))
	m.Search(rc.Handler("search", ""))
	m.Modify(rc.Handler("modify", ""))
	m.Add(rc.Handler("add", ""))
	m.Delete(rc.Handler("delete", ""))
	for _, n := range extNames {
		m.ExtendedOperation(rc.Handler("ext:"+n, n), gldap.ExtendedOperationName(n))
	}
	m.Unbind(rc.Handler("unbind", ""))
	m.DefaultRoute(rc.Handler("default", ""))
}
