package main

import (
	"crypto/tls"
	"fmt"
	"net"
	"os"
	"runtime"
	"strings"
	"sync"
	"sync/atomic"
	"time"

	"github.com/jimlambrt/gldap"

	"verif/internal/sber"
)

func init() {
	register(&Check{
		ID: "C12", Level: "exploration", Primary: "orders", EvalCount: "fences_checked", RaceIsViolation: true,
		Rule: "one evaluation = a fresh server, a PRNG-chosen order of Stop relative to Run (Stop before Run; Stop 0-300us after Run was started; Stop after Ready) and, when serving, a PRNG-chosen connection state " +
			"(connect storm with accepts in flight, handlers parked and released by a timer only after Stop was called - 5..45ms later, now and then 1.2..2.6s later -, ldaps sessions ended with close_notify / bare FIN / reset just before Stop next to plaintext peers the listener refused during the handshake (accepted connections all the same: OnClose is owed for them), slow OnClose callback held 20-120ms (every tenth time 3.3-4.8s) by the harness, clients tearing down, clients that closed their sending direction and go on reading, idle connections, handlers whose client hung up, handlers whose session ended with an Unbind, handlers whose connection ran into the server's read timeout, a held unbind-route handler, ldaps handlers parked, an OnClose callback still running while no connection is open any more), " +
			"optionally a concurrent or later second Stop. At the fence (the instant both Stop and Run have returned) the monitor requires: no handler in flight, no OnClose in progress, one completed OnClose for every " +
			"connection ID a handler ever saw, every served client connection closed (every fifth server has a 30s write timeout, every tenth a two-hour one), dial refused, the address bindable again; and over a 300ms tail no event stamped after the fence. Runs under the race detector. " +
			"distinct_nontrivial = distinct (order, state, second-Stop, observed Ready-at-Stop) combinations",
		Assume: []string{"events are stamped by one process-wide atomic counter at the moment they happen; 'after the fence' is a comparison of stamps, not of clocks"},
		Phases: func(tier string, seed int64) []Phase {
			return []Phase{{Name: "fences", Race: true, Run: c12Run}}
		},
		MinObserved: []string{"fences_checked", "startup_orders_on_a_tls_listener", "order/stop-before-run", "order/race-startup", "order/after-ready", "runs_with_handlers_parked_at_stop", "runs_with_onclose_slow", "runs_with_connect_storm", "runs_with_tls_sessions_torn_down", "tls_sessions_served_before_stop", "runs_with_parked_handlers_whose_client_hung_up", "runs_with_an_unbind_handler_held_at_stop", "runs_with_tls_handlers_parked_at_stop", "runs_with_onclose_held_for_seconds", "runs_with_an_onclose_callback_running_and_no_connection_open_at_stop", "runs_with_handlers_held_more_than_a_second_after_stop", "runs_with_parked_handlers_whose_session_ended_with_an_unbind", "tls_listener_connections_refused_during_the_handshake", "runs_on_a_server_without_panic_recovery_with_handlers_parked_at_stop", "runs_with_handlers_parked_beyond_the_read_timeout", "runs_with_clients_that_half_closed_before_stop", "fences_on_servers_with_a_write_timeout_whose_clients_waited_for_the_close"},
	})
}

var c12Tails []func()

var c12ParkedRuns, c12SlowCloseRuns int

var (
	c12PKIOnce sync.Once
	c12PKI     *PKI
)

func c12Run(c *Ctx) {
	n := c.N(500, 8000)
	for i := 0; i < n; i++ {
		c12One(c, c.Rng.Sub(fmt.Sprintf("f%d", i)), i)
		if len(c12Tails) >= 50 {
			for _, f := range c12Tails {
				f()
			}
			c12Tails = nil
		}
	}
	for _, f := range c12Tails {
		f()
	}
}

func c12One(c *Ctx, r *Rand, idx int) {
	order := pick(r, []string{"stop-before-run", "race-startup", "race-startup", "after-ready", "after-ready", "after-ready", "after-ready"})
	state := "none"
	if order == "after-ready" {
		state = pick(r, []string{"storm", "parked", "slow-onclose", "teardown", "idle", "parked+slow-onclose", "storm+parked", "tls-teardown", "parked-hangup", "parked-unbind", "parked-beyond-read-timeout", "half-closed-before-stop", "unbind-held", "tls-parked", "onclose-running-at-stop"})
	}
	second := pick(r, []string{"no", "concurrent", "later"})
	if v := os.Getenv("VERIF_C12_STATE"); v != "" {
		order, state = "after-ready", v // (development aid: every run in one state; the result is then inconclusive)
	}
	var inflight, onclosing atomic.Int64
	var lastEvent atomic.Int64 // stamp of the latest handler exit / OnClose enter / OnClose exit
	var seenMu sync.Mutex
	seenConn := map[int]bool{}
	closedConn := map[int]int{}
	release := make(chan struct{})
	slowClose := state == "slow-onclose" || state == "parked+slow-onclose" || state == "onclose-running-at-stop"
	parked := state == "parked" || state == "parked+slow-onclose" || state == "storm+parked" || state == "parked-hangup" || state == "parked-unbind" || state == "parked-beyond-read-timeout" || state == "unbind-held" || state == "tls-parked"
	closeDelay := time.Duration(20+r.Intn(100)) * time.Millisecond
	if state == "onclose-running-at-stop" {
		closeDelay = time.Duration(250+r.Intn(200)) * time.Millisecond
	}
	if slowClose && state != "onclose-running-at-stop" {
		// every tenth slow-callback run holds the callback for seconds: well beyond any grace period Stop might have
		c12SlowCloseRuns++
		if c12SlowCloseRuns%10 == 4 {
			closeDelay = time.Duration(3300+r.Intn(1500)) * time.Millisecond
			c.Count("runs_with_onclose_held_for_seconds", 1)
		}
	}
	cfg := SrvCfg{OnClose: func(id int) {
		onclosing.Add(1)
		lastEvent.Store(nextSeq())
		if slowClose {
			time.Sleep(closeDelay)
		}
		seenMu.Lock()
		closedConn[id]++
		seenMu.Unlock()
		lastEvent.Store(nextSeq())
		onclosing.Add(-1)
	}}
	if idx%4 == 2 {
		cfg.DisableRecover = true // no handler of this workload panics
	}
	if state == "parked-beyond-read-timeout" {
		cfg.ReadTimeout = time.Duration(100+r.Intn(150)) * time.Millisecond
	}
	if state == "tls-teardown" || state == "tls-parked" || (order != "after-ready" && idx%3 == 1) {
		// (start-up races and Stop-before-Run also on a TLS listener: Run has more to set up there)
		c12PKIOnce.Do(func() { c12PKI = newPKI() })
		cfg.TLS = c12PKI.ServerOnly
		if order != "after-ready" {
			c.Count("startup_orders_on_a_tls_listener", 1)
		}
	}
	switch {
	case idx%5 == 3:
		// servers that bound their writes (and, every other time, their reads too: far beyond the length of a run)
		cfg.WriteTimeout = 30 * time.Second
		if idx%2 == 0 && cfg.ReadTimeout == 0 {
			cfg.ReadTimeout = 2 * time.Hour
		}
	case idx%10 == 6:
		cfg.WriteTimeout = 2 * time.Hour
	}
	srv, err := newSrv(cfg)
	if err != nil {
		c.Inconclusive(err.Error())
		return
	}
	var parkedNow, acceptedUnserved atomic.Int64
	srv.Mux.Search(func(w *gldap.ResponseWriter, req *gldap.Request) {
		inflight.Add(1)
		seenMu.Lock()
		seenConn[req.ConnectionID()] = true
		seenMu.Unlock()
		if m, _ := req.GetSearchMessage(); m != nil && m.BaseDN == "park" {
			n := parkedNow.Add(1)
			<-release
			// the parked handlers of one run finish one after the other, 15ms apart: Stop has to wait for the LAST one
			time.Sleep(time.Duration(n-1) * 15 * time.Millisecond)
			parkedNow.Add(-1)
		}
		w.Write(req.NewSearchDoneResponse(gldap.WithResponseCode(0)))
		lastEvent.Store(nextSeq())
		inflight.Add(-1)
	})
	if state == "unbind-held" {
		// an Unbind route whose handler is still running when Stop is called
		srv.Mux.Unbind(func(w *gldap.ResponseWriter, req *gldap.Request) {
			inflight.Add(1)
			seenMu.Lock()
			seenConn[req.ConnectionID()] = true
			seenMu.Unlock()
			parkedNow.Add(1)
			<-release
			parkedNow.Add(-1)
			lastEvent.Store(nextSeq())
			inflight.Add(-1)
		})
	}
	srv.S.Router(srv.Mux)
	addr := fmt.Sprintf("127.0.0.1:%d", freePort())
	det := map[string]any{"order": order, "state": state, "second_stop": second, "index": idx}
	runRet := make(chan error, 1)
	startRun := func() {
		var opts []gldap.Option
		if cfg.TLS != nil {
			opts = append(opts, gldap.WithTLSConfig(cfg.TLS))
		}
		go func() { runRet <- srv.S.Run(addr, opts...) }()
	}
	stopRet := make(chan error, 3)
	callStop := func() { go func() { stopRet <- srv.S.Stop() }() }
	search := func(id int64, base string) []byte {
		return sber.Message(id, sber.Search{Base: []byte(base), Scope: 2, Filter: sber.PresentFilter("cn"), Attrs: [][]byte{}}.Node(), nil).Encode()
	}
	var clients []net.Conn
	var cmu sync.Mutex
	readyAtStop := false
	stops := 1

	switch order {
	case "stop-before-run":
		if err := srv.S.Stop(); err != nil {
			c.Violate("Stop before Run returned an error", err.Error(), det)
		}
		stopRet <- nil
		startRun()
	case "race-startup":
		startRun()
		if idx%2 == 1 {
			// Stop the instant Ready() turns true (nobody has dialled: nothing but Ready orders the two goroutines)
			for dl := time.Now().Add(5 * time.Second); !srv.S.Ready() && time.Now().Before(dl); {
				runtime.Gosched()
			}
		} else {
			time.Sleep(time.Duration(r.Intn(300)) * time.Microsecond)
		}
		readyAtStop = srv.S.Ready()
		callStop()
	case "after-ready":
		startRun()
		for dl := time.Now().Add(patience); !srv.S.Ready() && time.Now().Before(dl); {
			time.Sleep(50 * time.Microsecond)
		}
		readyAtStop = true
		dial := func() net.Conn {
			cn, err := net.DialTimeout("tcp", addr, 5*time.Second)
			if err != nil {
				return nil
			}
			cmu.Lock()
			clients = append(clients, cn)
			cmu.Unlock()
			return cn
		}
		served := func(cn net.Conn, base string) {
			cn.Write(search(1, base))
			if base != "park" {
				wrapClient(cn).ReadMsg(patience)
			}
		}
		switch state {
		case "idle", "slow-onclose":
			for i := 0; i < 1+r.Intn(6); i++ {
				if cn := dial(); cn != nil {
					served(cn, "x")
				}
			}
		case "parked", "parked+slow-onclose":
			for i := 0; i < 1+r.Intn(4); i++ {
				if cn := dial(); cn != nil {
					served(cn, "x")
					served(cn, "park")
				}
			}
			for dl := time.Now().Add(5 * time.Second); parkedNow.Load() == 0 && time.Now().Before(dl); {
				time.Sleep(100 * time.Microsecond)
			}
		case "tls-parked":
			// handlers of ldaps connections parked at Stop
			for i := 0; i < 1+r.Intn(3); i++ {
				cn := dial()
				if cn == nil {
					continue
				}
				tc := tls.Client(cn, c12PKI.ClientPlain)
				cn.SetDeadline(time.Now().Add(patience))
				if tc.Handshake() != nil {
					continue
				}
				cn.SetDeadline(time.Time{})
				tc.Write(search(1, "x"))
				if _, err := wrapClient(tc).ReadMsg(patience); err == nil {
					c.Count("tls_sessions_served_before_stop", 1)
				}
				tc.Write(search(2, "park"))
			}
			for dl := time.Now().Add(5 * time.Second); parkedNow.Load() == 0 && time.Now().Before(dl); {
				time.Sleep(100 * time.Microsecond)
			}
			if parkedNow.Load() > 0 {
				c.Count("runs_with_tls_handlers_parked_at_stop", 1)
			}
		case "onclose-running-at-stop":
			// every connection has already gone when Stop is called - but the OnClose callback of one of them is
			// still running (held by the harness)
			for i := 0; i < 1+r.Intn(3); i++ {
				if cn := dial(); cn != nil {
					served(cn, "x")
				}
			}
			cmu.Lock()
			for _, cn := range clients {
				cn.Close()
			}
			cmu.Unlock()
			for dl := time.Now().Add(2 * time.Second); onclosing.Load() == 0 && time.Now().Before(dl); {
				time.Sleep(100 * time.Microsecond)
			}
			if onclosing.Load() > 0 {
				c.Count("runs_with_an_onclose_callback_running_and_no_connection_open_at_stop", 1)
			}
		case "parked-hangup":
			// clients whose handler is parked hang up (FIN, or reset) before Stop: the handler is still the server's
			for i := 0; i < 1+r.Intn(4); i++ {
				if cn := dial(); cn != nil {
					served(cn, "x")
					served(cn, "park")
				}
			}
			for dl := time.Now().Add(5 * time.Second); parkedNow.Load() == 0 && time.Now().Before(dl); {
				time.Sleep(100 * time.Microsecond)
			}
			cmu.Lock()
			for i, cn := range clients {
				if i%3 == 2 {
					hardReset(cn)
				} else {
					cn.Close()
				}
			}
			cmu.Unlock()
			time.Sleep(time.Duration(r.Intn(3000)) * time.Microsecond)
			c.Count("runs_with_parked_handlers_whose_client_hung_up", 1)
		case "half-closed-before-stop":
			// clients that have said all they had to say (they closed their sending direction) and go on reading: their
			// connections are the server's to close - at the latest by the time Stop and Run have returned
			for i := 0; i < 1+r.Intn(4); i++ {
				if cn := dial(); cn != nil {
					served(cn, "x")
					if tc, ok := cn.(*net.TCPConn); ok {
						tc.CloseWrite()
					}
				}
			}
			time.Sleep(time.Duration(r.Intn(5000)) * time.Microsecond)
			c.Count("runs_with_clients_that_half_closed_before_stop", 1)
		case "parked-beyond-read-timeout":
			// the server has a read timeout and the clients fall silent while their handlers are parked: the read
			// deadline expires long before Stop is called; the handlers are still the server's
			for i := 0; i < 1+r.Intn(3); i++ {
				if cn := dial(); cn != nil {
					served(cn, "park")
				}
			}
			for dl := time.Now().Add(5 * time.Second); parkedNow.Load() == 0 && time.Now().Before(dl); {
				time.Sleep(100 * time.Microsecond)
			}
			time.Sleep(cfg.ReadTimeout + time.Duration(50+r.Intn(150))*time.Millisecond)
			if parkedNow.Load() > 0 {
				c.Count("runs_with_handlers_parked_beyond_the_read_timeout", 1)
			}
		case "parked-unbind":
			// sessions that end with an Unbind while one of their handlers is parked: the handler is still the server's
			for i := 0; i < 1+r.Intn(4); i++ {
				if cn := dial(); cn != nil {
					served(cn, "x")
					served(cn, "park")
				}
			}
			for dl := time.Now().Add(5 * time.Second); parkedNow.Load() == 0 && time.Now().Before(dl); {
				time.Sleep(100 * time.Microsecond)
			}
			cmu.Lock()
			for i, cn := range clients {
				cn.Write(sber.Message(9, sber.UnbindRequest(), nil).Encode())
				if i%2 == 1 {
					cn.Close()
				}
			}
			cmu.Unlock()
			time.Sleep(time.Duration(500+r.Intn(3000)) * time.Microsecond)
			if parkedNow.Load() > 0 {
				c.Count("runs_with_parked_handlers_whose_session_ended_with_an_unbind", 1)
			}
		case "unbind-held":
			for i := 0; i < 1+r.Intn(3); i++ {
				if cn := dial(); cn != nil {
					served(cn, "x")
					cn.Write(sber.Message(9, sber.UnbindRequest(), nil).Encode())
				}
			}
			for dl := time.Now().Add(5 * time.Second); parkedNow.Load() == 0 && time.Now().Before(dl); {
				time.Sleep(100 * time.Microsecond)
			}
			c.Count("runs_with_an_unbind_handler_held_at_stop", 1)
		case "tls-teardown":
			// ldaps sessions that end in every way just before (or while) Stop runs: with close_notify, with a bare
			// FIN, with a reset (closing such a transport fails on the server side: nothing is left to send the
			// close_notify to), or not at all
			var ends []func()
			for i := 0; i < 2+r.Intn(5); i++ {
				cn := dial()
				if cn == nil {
					continue
				}
				tc := tls.Client(cn, c12PKI.ClientPlain)
				cn.SetDeadline(time.Now().Add(patience))
				if tc.Handshake() != nil {
					continue
				}
				cn.SetDeadline(time.Time{})
				tc.Write(search(1, "x"))
				if _, err := wrapClient(tc).ReadMsg(patience); err == nil {
					c.Count("tls_sessions_served_before_stop", 1)
				}
				switch r.Intn(4) {
				case 0:
					ends = append(ends, func() { tc.Close() })
				case 1:
					ends = append(ends, func() { cn.Close() })
				case 2:
					ends = append(ends, func() { hardReset(tc) })
				}
			}
			for _, f := range ends {
				f()
			}
			// peers that never get through the handshake: plaintext LDAP on the ldaps port. Once such a client has seen
			// the server's reaction (an alert, the close) its connection was accepted - and an accepted connection is
			// closed and reported through OnClose like any other
			for i := 0; i < 1+r.Intn(3); i++ {
				cn := dial()
				if cn == nil {
					continue
				}
				cn.Write(search(1, "x"))
				cn.SetReadDeadline(time.Now().Add(3 * time.Second))
				buf := make([]byte, 512)
				for {
					if _, err := cn.Read(buf); err != nil {
						if !isTimeout(err) {
							acceptedUnserved.Add(1)
							c.Count("tls_listener_connections_refused_during_the_handshake", 1)
						}
						break
					}
				}
			}
			if r.Bool() {
				time.Sleep(time.Duration(r.Intn(3000)) * time.Microsecond)
			}
			c.Count("runs_with_tls_sessions_torn_down", 1)
		case "teardown":
			for i := 0; i < 2+r.Intn(6); i++ {
				if cn := dial(); cn != nil {
					served(cn, "x")
				}
			}
			go func() {
				cmu.Lock()
				l := append([]net.Conn{}, clients...)
				cmu.Unlock()
				for _, cn := range l {
					cn.Close()
				}
			}()
		case "storm", "storm+parked":
			var swg sync.WaitGroup
			for i := 0; i < 24; i++ {
				swg.Add(1)
				go func(i int) {
					defer swg.Done()
					for k := 0; k < 6; k++ {
						cn := dial()
						if cn == nil {
							return
						}
						base := "x"
						if state == "storm+parked" && (i+k)%5 == 0 {
							base = "park"
						}
						cn.SetDeadline(time.Now().Add(3 * time.Second))
						cn.Write(search(1, base))
					}
				}(i)
			}
			time.Sleep(time.Duration(r.Intn(2500)) * time.Microsecond)
			c.Count("runs_with_connect_storm", 1)
			defer swg.Wait()
		}
		if parked && parkedNow.Load() > 0 {
			c.Count("runs_with_handlers_parked_at_stop", 1)
			if cfg.DisableRecover {
				c.Count("runs_on_a_server_without_panic_recovery_with_handlers_parked_at_stop", 1)
			}
		}
		if slowClose {
			c.Count("runs_with_onclose_slow", 1)
		}
		callStop()
		if parked {
			// the gate opens only after Stop has been *called*
			hold := time.Duration(5+r.Intn(40)) * time.Millisecond
			c12ParkedRuns++
			switch x := r.Intn(100); {
			case c12ParkedRuns%20 == 3: // well beyond any plausible internal grace period
				hold = time.Duration(1200+r.Intn(1400)) * time.Millisecond
				c.Count("runs_with_handlers_held_more_than_a_second_after_stop", 1)
			case x < 5 && !c.Quick():
				hold = time.Duration(5000+r.Intn(3000)) * time.Millisecond
				c.Count("runs_with_handlers_held_more_than_a_second_after_stop", 1)
			}
			go func() {
				time.Sleep(hold)
				close(release)
			}()
		}
	}
	if !parked {
		close(release)
	}
	if second == "concurrent" && order != "stop-before-run" {
		callStop()
		stops++
	}
	// ---- wait for the fence: the FIRST Stop call to return, and Run (every Stop that returns must leave the
	// server quiescent once Run has returned too; a concurrent second Stop is awaited afterwards)
	ok := true
	select {
	case err := <-stopRet:
		if err != nil {
			c.Violate("Stop returned an error", err.Error(), det)
		}
	case <-time.After(patience):
		c.Skip(fmt.Sprintf("Stop did not return within %s (order %s state %s): whether it ever does is C11's question; this run has no fence to judge", patience, order, state))
		c.Note("goroutines_when_stop_had_not_returned", trimDump(gldapGoroutines(), 8))
		ok = false
	}
	var runErr error
	if ok {
		select {
		case runErr = <-runRet:
		case <-time.After(patience):
			c.Violate("Run did not return after Stop", fmt.Sprintf("order %s state %s", order, state), det)
			ok = false
		}
	}
	if !ok {
		return
	}
	if runErr != nil && strings.Contains(runErr.Error(), "address already in use") {
		// the port probed by the harness was taken by somebody else before Run bound it: not an observation about gldap
		c.Count("harness_port_races_skipped", 1)
		return
	}
	fence := nextSeq()
	infl, oncl := inflight.Load(), onclosing.Load()
	seenMu.Lock()
	var notClosed []int
	for id := range seenConn {
		if closedConn[id] != 1 {
			notClosed = append(notClosed, id)
		}
	}
	onCloseTotal := 0
	for _, n := range closedConn {
		onCloseTotal += n
	}
	knownAccepted := len(seenConn) + int(acceptedUnserved.Load())
	seenMu.Unlock()
	for i := 1; i < stops; i++ {
		select {
		case err := <-stopRet:
			if err != nil {
				c.Violate("Stop returned an error", err.Error(), det)
			}
		case <-time.After(patience):
			c.Inconclusive(fmt.Sprintf("the second Stop did not return (order %s state %s)", order, state))
			return
		}
	}
	// ---- conditions at the fence
	c.Count("fences_checked", 1)
	c.Count("order/"+order, 1)
	c.Distinct("orders", fmt.Sprintf("%s/%s/%s/ready=%v", order, state, second, readyAtStop))
	if runErr != nil {
		c.Violate("Run returned an error after Stop", runErr.Error(), det)
	}
	if infl != 0 {
		c.Violate("a handler is still running when Stop and Run have returned", fmt.Sprintf("%d handlers in flight at the fence (order %s, state %s)", infl, order, state), det)
	}
	if oncl != 0 {
		c.Violate("an OnClose callback is still in progress when Stop and Run have returned", fmt.Sprintf("%d callbacks in progress at the fence (order %s, state %s)", oncl, order, state), det)
	}
	if onCloseTotal < knownAccepted {
		c.Violate("OnClose has not completed for every accepted connection when Stop and Run have returned", fmt.Sprintf("%d connections are known to have been accepted (%d served, %d refused during the TLS handshake - their clients saw the server's reaction), %d OnClose callbacks completed (order %s, state %s)", knownAccepted, len(seenConn), acceptedUnserved.Load(), onCloseTotal, order, state), det)
	}
	if len(notClosed) > 0 {
		c.Violate("OnClose has not completed exactly once for a served connection when Stop and Run have returned", fmt.Sprintf("connections %v had no (or more than one) completed OnClose callback at the fence (order %s, state %s, second stop %s)", notClosed, order, state, second), det)
	}
	// port: dial refused, address bindable again
	if cn, err := net.DialTimeout("tcp", addr, 2*time.Second); err == nil {
		cn.Close()
		c.Violate("the port still accepts connections after Stop and Run returned", fmt.Sprintf("order %s state %s", order, state), det)
	}
	if l, err := net.Listen("tcp", addr); err != nil {
		c.Violate("the port cannot be bound again after Stop and Run returned", fmt.Sprintf("order %s state %s: %v", order, state, err), det)
	} else {
		l.Close()
	}
	// a later Stop is harmless
	if second == "later" {
		done := make(chan error, 1)
		go func() { done <- srv.S.Stop() }()
		select {
		case err := <-done:
			if err != nil {
				c.Violate("a second Stop returned an error", err.Error(), det)
			}
		case <-time.After(patience):
			c.Violate("a second Stop did not return", "", det)
		}
		if l, err := net.Listen("tcp", addr); err != nil {
			c.Violate("the port cannot be bound again after Stop and Run returned", "after the second Stop: "+err.Error(), det)
		} else {
			l.Close()
		}
	}
	// every served client connection is closed by the server
	cmu.Lock()
	l := append([]net.Conn{}, clients...)
	cmu.Unlock()
	buf := make([]byte, 4096)
	if cfg.WriteTimeout != 0 && len(l) > 0 {
		c.Count("fences_on_servers_with_a_write_timeout_whose_clients_waited_for_the_close", 1)
	}
	for _, cn := range l {
		cn.SetReadDeadline(time.Now().Add(2 * time.Second))
		for {
			_, err := cn.Read(buf)
			if err == nil {
				continue
			}
			if isTimeout(err) && state != "teardown" {
				c.Violate("a client connection is still open after Stop and Run returned", fmt.Sprintf("order %s state %s", order, state), det)
			}
			break
		}
		cn.Close()
	}
	// ---- tail: nothing may be stamped after the fence (judged >= 300ms later, see c12Run)
	t0 := time.Now()
	c12Tails = append(c12Tails, func() {
		if d := 300*time.Millisecond - time.Since(t0); d > 0 {
			time.Sleep(d)
		}
		if le := lastEvent.Load(); le > fence {
			c.Violate("a handler exit or OnClose event happened after Stop and Run had returned", fmt.Sprintf("event stamp %d > fence %d (order %s, state %s)", le, fence, order, state), det)
		}
	})
	if idx < 3 {
		c.Sample(det)
	}
}
