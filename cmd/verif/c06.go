package main

import (
	"bytes"
	"crypto/tls"
	"fmt"
	"net"
	"strings"
	"sync"
	"sync/atomic"
	"time"

	"github.com/jimlambrt/gldap"

	"verif/internal/sber"
)

func init() {
	register(&Check{
		ID: "C06", Level: "exploration", Primary: "pipeline_shapes", EvalCount: "requests_numbered",
		Rule: "one pipeline = N (1..256) requests of mixed operations on one connection, message IDs a random permutation-like draw (so Request.ID cannot be confused with the message ID), written in one " +
			"segment or dribbled; some requests have no route (gaps in the observed numbering); a PRNG-chosen subset of handlers parks on a rendezvous: handler i returns only after handler i+d " +
			"(or a handler on a second connection) has entered; a second family of pipelines performs a real StartTLS upgrade in the middle (numbering must continue across it); a third has its first handler blocked inside Write by a client that does not read (later handlers must still be entered); a fourth repeats message IDs within the pipeline (requests identified by DN, every handler waiting for all others); a fifth keeps a handler blocked while its own connection ends (FIN, reset, Unbind, malformed frame) and requires connections that exist already and connections made afterwards to be served meanwhile; a sixth sends N requests and, in the same write, an Unbind / half-close / close (every request that was read is handed to its handler); a seventh has a handler that outlives the server's read timeout while the client is silent, then further requests on that connection (whatever is still served carries its arrival position); an eighth blocks 1250..1500 handlers at once over 5..6 connections of one server (each waits for all of them); a ninth sends a connection's second request 20ms, 1.3s, 2.7s (thorough: 6s) after its first handler was entered, which stays blocked until the second handler has been entered; every eighth short pipeline's add and modify requests carry a 100KB value; every fourth mixed pipeline runs on a server created WithDisablePanicRecovery, every fifth over a TLS listener, every sixth on a server with a 30s read timeout. Oracle: Request.ID == 1-based position in the client's send order for every handler invocation; every rendezvous completes. " +
			"distinct_nontrivial = distinct (N, operation mix, rendezvous pattern, write mode) signatures with at least one satisfied rendezvous",
		Assume: []string{"extended requests are identified by the exact-name route that served them (their message ID is not exposed to handlers)",
			"a rendezvous that does not complete within the watchdog is judged only by the recorded enter/exit order (serial dispatch), otherwise inconclusive"},
		Phases: func(tier string, seed int64) []Phase {
			return []Phase{{Name: "pipelines", Run: c06Run}}
		},
		MinObserved: []string{"requests_numbered", "requests_dispatched_while_an_earlier_handler_had_been_blocked_for_more_than_a_second", "rendezvous_satisfied", "cross_connection_rendezvous_satisfied", "pipelines_with_starttls_upgrade", "pipelines_with_a_handler_blocked_in_write", "requests_served_through_the_default_route", "pipelines_with_repeated_message_ids", "connections_served_while_another_connections_handler_is_blocked", "fire_and_forget_pipelines", "pipelines_on_a_server_without_panic_recovery", "connections_with_a_handler_outliving_the_read_timeout", "pipelines_over_a_tls_listener", "pipelines_on_a_server_with_a_read_timeout", "extended_requests_under_well_known_names", "requests_carrying_a_100kb_value", "runs_with_more_than_a_thousand_handlers_blocked_at_once", "routes_registered_while_a_handler_was_parked"},
	})
}

type c06Req struct {
	Pos   int // 1-based position in the send order
	Kind  string
	ID    int64
	Ext   string
	Route bool // has a handler
	// rendezvous: wait until request WaitPos on this connection (or on the partner connection when WaitOther) has entered
	WaitPos   int
	WaitOther bool
	Big       bool // an add or modify request that carries a 100KB value
}

var c06BigValue = bytes.Repeat([]byte("photo-"), 17000)

type c06Ev struct {
	Pos, ReqID, ConnID int
	Enter, Exit        int64
	Forced             bool
}

type c06Conn struct {
	reqs    []*c06Req
	entered []chan struct{} // index by pos
	evs     []*c06Ev
	mu      sync.Mutex
	byID    map[int64]*c06Req
	byExt   map[string]*c06Req
}

var c06GiveUp atomic.Bool

var (
	c06PKIOnce sync.Once
	c06PKI     *PKI
)

var c06WellKnown = []string{"1.3.6.1.1.8", "1.3.6.1.4.1.4203.1.11.3", "1.3.6.1.4.1.4203.1.11.1", "1.3.6.1.4.1.1466.20036", "1.3.6.1.1.21.1"}

func c06ExtName(conn, pos int) string { return fmt.Sprintf("1.9.%d.%d", conn, pos) }

func (q *c06Req) encode() []byte {
	var op *sber.Node
	switch q.Kind {
	case "bind":
		op = sber.BindRequest(3, []byte("cn=u"), []byte("p"))
	case "search":
		op = sber.Search{Base: []byte("dc=x"), Scope: 2, Filter: sber.PresentFilter("cn"), Attrs: [][]byte{}}.Node()
	case "modify":
		op = sber.ModifyRequest([]byte("cn=u"), nil)
		if q.Big {
			op = sber.ModifyRequest([]byte("cn=u"), []sber.Change{{Op: 2, Attr: sber.Attr{Type: []byte("jpegPhoto"), Vals: [][]byte{c06BigValue}}}})
		}
	case "add":
		op = sber.AddRequest([]byte("cn=u"), nil)
		if q.Big {
			op = sber.AddRequest([]byte("cn=u"), []sber.Attr{{Type: []byte("jpegPhoto"), Vals: [][]byte{c06BigValue}}})
		}
	case "delete":
		op = sber.DelRequest([]byte("cn=u"))
	case "ext", "ext-noroute":
		op = sber.ExtendedRequest([]byte(q.Ext), nil, false)
	}
	return sber.Message(q.ID, op, nil).Encode()
}

// c06Pipeline runs one or two simultaneous connections against srv.
func c06Pipeline(c *Ctx, r *Rand, idx int) {
	nconn := 1
	if r.Chance(40) {
		nconn = 2
	}
	conns := make([]*c06Conn, nconn)
	wellKnownUsed := map[string]bool{}
	kinds := []string{"bind", "search", "modify", "add", "delete", "ext", "ext-noroute"}
	withDefault := r.Chance(40)
	viaDefaultAdd, viaDefaultDelete := withDefault && r.Bool(), withDefault && r.Bool()
	sizes := []int{1, 2, 3, 8, 17, 64, 128, 256}
	for ci := range conns {
		n := pick(r, sizes)
		if r.Chance(50) {
			n = 1 + r.Intn(40)
		}
		cn := &c06Conn{byID: map[int64]*c06Req{}, byExt: map[string]*c06Req{}}
		used := map[int64]bool{}
		for p := 1; p <= n; p++ {
			q := &c06Req{Pos: p, Kind: pick(r, kinds), ID: genID(r)}
			for used[q.ID] {
				q.ID = genID(r)
			}
			used[q.ID] = true
			q.Route = q.Kind != "ext-noroute"
			// every eighth pipeline (short ones): its add and modify requests carry a 100KB value each
			if idx%8 == 5 && n <= 40 && (q.Kind == "add" || q.Kind == "modify") {
				q.Big = true
				c.Count("requests_carrying_a_100kb_value", 1)
			}
			if strings.HasPrefix(q.Kind, "ext") {
				q.Ext = c06ExtName(ci, p)
				// now and then an operation everybody knows by name (each at most once per pipeline: the name identifies
				// the request): Cancel, Who am I?, Password Modify, Notice of Disconnection
				if wk := pick(r, c06WellKnown); q.Kind == "ext" && r.Chance(30) && !wellKnownUsed[wk] {
					wellKnownUsed[wk] = true
					q.Ext = wk
					c.Count("extended_requests_under_well_known_names", 1)
				}
				if q.Kind == "ext-noroute" {
					q.Ext = "2.9." + q.Ext
				}
				cn.byExt[q.Ext] = q
			}
			cn.byID[q.ID] = q
			cn.reqs = append(cn.reqs, q)
		}
		cn.entered = make([]chan struct{}, n+2)
		for i := range cn.entered {
			cn.entered[i] = make(chan struct{})
		}
		conns[ci] = cn
	}
	// rendezvous plan
	sig := fmt.Sprintf("c%d/d%v", nconn, withDefault)
	for ci, cn := range conns {
		for _, q := range cn.reqs {
			if !q.Route || !r.Chance(35) {
				continue
			}
			if nconn == 2 && ci == 0 && r.Chance(30) {
				// wait for some routed request of the other connection
				o := conns[1]
				cand := o.reqs[r.Intn(len(o.reqs))]
				if cand.Route {
					q.WaitOther, q.WaitPos = true, cand.Pos
					continue
				}
			}
			d := 1 + r.Intn(5)
			for j := q.Pos + d; j <= len(cn.reqs); j++ {
				if cn.reqs[j-1].Route {
					q.WaitPos = j
					break
				}
			}
		}
		sig += fmt.Sprintf("/n%d", len(cn.reqs))
	}
	// server
	var inflight atomic.Int64 // harness-side count of running handlers (not gldap's word for it)
	handle := func(ci int, find func(req *gldap.Request, o *Obs) *c06Req) gldap.HandlerFunc {
		return func(w *gldap.ResponseWriter, req *gldap.Request) {
			o := observe("", req)
			q := find(req, o)
			if q == nil {
				c.Violate("handler ran for a request the client did not send", fmt.Sprintf("kind %s id %d", o.Kind, o.ID), nil)
				return
			}
			cn := conns[ci]
			inflight.Add(1)
			defer inflight.Add(-1)
			ev := &c06Ev{Pos: q.Pos, ReqID: req.ID, ConnID: req.ConnectionID(), Enter: nextSeq()}
			close(cn.entered[q.Pos])
			if q.WaitPos > 0 {
				target := cn
				if q.WaitOther {
					target = conns[1]
				}
				wait := 20 * time.Second
				if c06GiveUp.Load() {
					wait = 200 * time.Millisecond
				}
				select {
				case <-target.entered[q.WaitPos]:
				case <-time.After(wait):
					ev.Forced = true
					c06GiveUp.Store(true)
				}
			}
			replyWithDiag(o.Kind, w, req, "")
			ev.Exit = nextSeq()
			cn.mu.Lock()
			cn.evs = append(cn.evs, ev)
			cn.mu.Unlock()
		}
	}
	// which connection a request belongs to is decided by the message ID / ext name (both unique across the two connections)
	all := map[int64][2]int{}
	for ci, cn := range conns {
		for _, q := range cn.reqs {
			for {
				if _, dup := all[q.ID]; !dup {
					break
				}
				delete(cn.byID, q.ID)
				q.ID = genID(r)
				cn.byID[q.ID] = q
			}
			all[q.ID] = [2]int{ci, q.Pos}
		}
	}
	findGeneric := func(req *gldap.Request, o *Obs) (int, *c06Req) {
		if o.Kinds > 0 {
			if v, ok := all[o.ID]; ok {
				return v[0], conns[v[0]].reqs[v[1]-1]
			}
		}
		return -1, nil
	}
	// every fourth pipeline runs on a server created WithDisablePanicRecovery (no handler of this workload panics)
	noRecover := idx%4 == 1
	if noRecover {
		c.Count("pipelines_on_a_server_without_panic_recovery", 1)
	}
	// every fifth one runs over a TLS listener, every sixth one on a server with a (long) read timeout configured
	scfg := SrvCfg{DisableRecover: noRecover}
	var ctc *tls.Config
	if idx%5 == 2 {
		c06PKIOnce.Do(func() { c06PKI = newPKI() })
		scfg.TLS, ctc = c06PKI.ServerOnly, c06PKI.ClientPlain
		c.Count("pipelines_over_a_tls_listener", 1)
	}
	if idx%6 == 3 {
		scfg.ReadTimeout = 30 * time.Second
		c.Count("pipelines_on_a_server_with_a_read_timeout", 1)
	}
	srv, err := startSrv(scfg, func(m *gldap.Mux) {
		gen := func(w *gldap.ResponseWriter, req *gldap.Request) {
			o := observe("", req)
			ci, q := findGeneric(req, o)
			if q == nil {
				c.Violate("handler ran for a request the client did not send", fmt.Sprintf("kind %s id %d", o.Kind, o.ID), nil)
				return
			}
			handle(ci, func(*gldap.Request, *Obs) *c06Req { return q })(w, req)
		}
		m.Bind(gen)
		m.Search(gen)
		m.Modify(gen)
		// with a default route, some operation kinds have no route of their own: their handlers (which park on
		// rendezvous like any other) are reached through the DEFAULT route
		if !viaDefaultAdd {
			m.Add(gen)
		}
		if !viaDefaultDelete {
			m.Delete(gen)
		}
		for ci, cn := range conns {
			for name, q := range cn.byExt {
				if q.Kind == "ext" {
					qq, cci := q, ci
					m.ExtendedOperation(handle(cci, func(*gldap.Request, *Obs) *c06Req { return qq }), gldap.ExtendedOperationName(name))
				}
			}
		}
		if withDefault {
			m.DefaultRoute(func(w *gldap.ResponseWriter, req *gldap.Request) {
				o := observe("", req)
				if o.Kinds > 0 {
					if viaDefaultAdd || viaDefaultDelete {
						c.Count("requests_served_through_the_default_route", 1)
					}
					gen(w, req)
					return
				}
				// unrouted extended requests: answered at once (their identity is not observable)
				w.Write(req.NewExtendedResponse(gldap.WithResponseCode(0)))
			})
		}
	})
	if err != nil {
		c.Inconclusive("server start: " + err.Error())
		return
	}
	// clients
	var wg sync.WaitGroup
	for ci, cn := range conns {
		wg.Add(1)
		go func(ci int, cn *c06Conn, rr *Rand) {
			defer wg.Done()
			cl, err := dialRaw(srv.Addr, ctc)
			if err != nil {
				c.Inconclusive("dial: " + err.Error())
				return
			}
			defer cl.Close()
			var buf []byte
			for _, q := range cn.reqs {
				buf = append(buf, q.encode()...)
			}
			mode := rr.Intn(3)
			go func() {
				switch mode {
				case 0:
					cl.Send(buf)
				case 1:
					for _, q := range cn.reqs {
						cl.Send(q.encode())
					}
				default:
					for off := 0; off < len(buf); {
						step := 1 + rr.Intn(40)
						if off+step > len(buf) {
							step = len(buf) - off
						}
						cl.Send(buf[off : off+step])
						off += step
						if rr.Chance(5) {
							time.Sleep(100 * time.Microsecond)
						}
					}
				}
			}()
			// one response per request (handler, default route or built-in refusal)
			for i := 0; i < len(cn.reqs); i++ {
				if _, err := cl.ReadMsg(2 * patience); err != nil {
					c.Inconclusive(fmt.Sprintf("connection %d: response %d of %d: %v", ci, i, len(cn.reqs), err))
					return
				}
			}
		}(ci, cn, r.Sub(fmt.Sprintf("cl%d", ci)))
	}
	wg.Wait()
	for dl := time.Now().Add(patience); inflight.Load() != 0 && time.Now().Before(dl); {
		time.Sleep(200 * time.Microsecond)
	}
	srv.StopWithin(patience)
	// oracle
	forcedPairs, serialPairs := 0, 0
	satisfied := false
	// the server is stopped and every handler has returned: no concurrent access below
	for ci, cn := range conns {
		byPos := map[int]*c06Ev{}
		connID := 0
		for _, ev := range cn.evs {
			c.Count("requests_numbered", 1)
			if byPos[ev.Pos] != nil {
				c.Violate("request dispatched to a handler twice", fmt.Sprintf("position %d", ev.Pos), nil)
			}
			byPos[ev.Pos] = ev
			if ev.ReqID != ev.Pos {
				c.Violate("Request.ID is not the request's position in arrival order", fmt.Sprintf("connection %d: the request sent at position %d of %d was numbered %d", ci, ev.Pos, len(cn.reqs), ev.ReqID),
					map[string]any{"sig": sig, "position": ev.Pos, "request_id": ev.ReqID, "kinds": c06Kinds(cn)})
			}
			if connID == 0 {
				connID = ev.ConnID
			}
		}
		routed := 0
		for _, q := range cn.reqs {
			if q.Kind != "ext-noroute" {
				routed++
				if byPos[q.Pos] == nil {
					c.Violate("routed request never reached its handler", fmt.Sprintf("connection %d position %d (%s)", ci, q.Pos, q.Kind), map[string]any{"sig": sig})
				}
			}
			if q.WaitPos == 0 || byPos[q.Pos] == nil {
				continue
			}
			ev := byPos[q.Pos]
			target := cn
			if q.WaitOther {
				target = conns[1]
			}
			var tev *c06Ev
			for _, e := range target.evs {
				if e.Pos == q.WaitPos {
					tev = e
				}
			}
			if !ev.Forced {
				if tev != nil && tev.Enter < ev.Exit {
					satisfied = true
					if q.WaitOther {
						c.Count("cross_connection_rendezvous_satisfied", 1)
					} else {
						c.Count("rendezvous_satisfied", 1)
					}
				}
				continue
			}
			forcedPairs++
			if tev != nil && tev.Enter > ev.Exit {
				serialPairs++
			}
		}
		c.Max("max/pipeline_length", int64(len(cn.reqs)))
	}
	if forcedPairs > 0 {
		if serialPairs == forcedPairs {
			c.Violate("a blocked handler delays the dispatch of later requests", fmt.Sprintf("%d rendezvous did not complete within the watchdog and in every one of them the later handler entered only after the blocked one had been released (serial dispatch)", forcedPairs),
				map[string]any{"sig": sig, "forced": forcedPairs})
		} else {
			c.Inconclusive(fmt.Sprintf("%d rendezvous timed out, only %d show the serial-dispatch order", forcedPairs, serialPairs))
		}
	}
	c.Count("pipelines", 1)
	if satisfied {
		c.Distinct("pipeline_shapes", sig+"/"+c06Kinds(conns[0]))
	}
	if idx < 2 {
		c.Sample(map[string]any{"pipeline": sig, "kinds": c06Kinds(conns[0]), "rendezvous": c06Waits(conns[0])})
	}
}

func c06Kinds(cn *c06Conn) string {
	var b strings.Builder
	for i, q := range cn.reqs {
		if i >= 40 {
			b.WriteString("..")
			break
		}
		b.WriteString(q.Kind[:1])
		if q.Kind == "ext-noroute" {
			b.WriteString("!")
		}
	}
	return b.String()
}

func c06Waits(cn *c06Conn) []string {
	var out []string
	for _, q := range cn.reqs {
		if q.WaitPos > 0 {
			out = append(out, fmt.Sprintf("%d waits for %d (other conn: %v)", q.Pos, q.WaitPos, q.WaitOther))
		}
	}
	return out
}

// c06StartTLS: numbering continues across a StartTLS upgrade (the StartTLS request itself takes a number).
func c06StartTLS(c *Ctx, r *Rand, pki *PKI, idx int) {
	type rec struct {
		msgID int64
		reqID int
	}
	var mu sync.Mutex
	var recs []rec
	h := func(w *gldap.ResponseWriter, req *gldap.Request) {
		o := observe("", req)
		mu.Lock()
		recs = append(recs, rec{o.ID, req.ID})
		mu.Unlock()
		replyFor(o, w, req)
	}
	startTLSID := 0
	srv, err := startSrv(SrvCfg{}, func(m *gldap.Mux) {
		m.Bind(h)
		m.Search(h)
		m.Delete(h)
		m.ExtendedOperation(func(w *gldap.ResponseWriter, req *gldap.Request) {
			mu.Lock()
			startTLSID = req.ID
			mu.Unlock()
			w.Write(req.NewExtendedResponse(gldap.WithResponseCode(0)))
			req.StartTLS(pki.ServerOnly)
		}, gldap.ExtendedOperationStartTLS)
	})
	if err != nil {
		c.Inconclusive("server start: " + err.Error())
		return
	}
	defer srv.StopWithin(patience)
	cn, err := net.Dial("tcp", srv.Addr)
	if err != nil {
		c.Inconclusive("dial: " + err.Error())
		return
	}
	defer cn.Close()
	cl := wrapClient(cn)
	k1, k2 := r.Intn(6), 1+r.Intn(12)
	pos := map[int64]int{}
	mk := func(id int64, p int) []byte {
		pos[id] = p
		switch p % 3 {
		case 0:
			return sber.Message(id, sber.BindRequest(3, []byte("cn=u"), []byte("p")), nil).Encode()
		case 1:
			return sber.Message(id, sber.DelRequest([]byte("cn=u")), nil).Encode()
		}
		return sber.Message(id, sber.Search{Base: []byte("dc=x"), Scope: 2, Filter: sber.PresentFilter("cn"), Attrs: [][]byte{}}.Node(), nil).Encode()
	}
	for p := 1; p <= k1; p++ {
		cl.Send(mk(int64(5000-p), p))
		if _, err := cl.ReadMsg(patience); err != nil {
			c.Inconclusive("pre-upgrade response: " + err.Error())
			return
		}
	}
	cl.Send(sber.Message(7777, sber.ExtendedRequest([]byte(sber.OIDStartTLS), nil, false), nil).Encode())
	if _, err := cl.ReadMsg(patience); err != nil {
		c.Inconclusive("starttls response: " + err.Error())
		return
	}
	tc := tls.Client(cn, pki.ClientPlain)
	cn.SetDeadline(time.Now().Add(patience))
	if err := tc.Handshake(); err != nil {
		c.Inconclusive("handshake: " + err.Error())
		return
	}
	cn.SetDeadline(time.Time{})
	tcl := wrapClient(tc)
	var all []byte
	for j := 1; j <= k2; j++ {
		all = append(all, mk(int64(9000-j), k1+1+j)...)
	}
	tcl.Send(all)
	for j := 0; j < k2; j++ {
		if _, err := tcl.ReadMsg(patience); err != nil {
			c.Inconclusive("post-upgrade response: " + err.Error())
			return
		}
	}
	time.Sleep(time.Millisecond)
	mu.Lock()
	defer mu.Unlock()
	det := map[string]any{"before_starttls": k1, "after_starttls": k2}
	if startTLSID != k1+1 {
		c.Violate("Request.ID is not the request's position in arrival order", fmt.Sprintf("the StartTLS request sent at position %d was numbered %d", k1+1, startTLSID), det)
	}
	for _, rc := range recs {
		c.Count("requests_numbered", 1)
		if want := pos[rc.msgID]; rc.reqID != want {
			c.Violate("Request.ID is not the request's position in arrival order", fmt.Sprintf("with a StartTLS upgrade at position %d: the request sent at position %d was numbered %d", k1+1, want, rc.reqID), det)
		}
	}
	c.Count("pipelines_with_starttls_upgrade", 1)
	c.Distinct("pipeline_shapes", fmt.Sprintf("starttls/%d/%d", k1, k2))
}

// c06BlockedInWrite: the first handler blocks inside ResponseWriter.Write (the client pipelines and does not read);
// the later requests of the pipeline must still be dispatched: their handlers must be ENTERED while the first one is
// blocked (bounded progress, B = 10s), only then does the client start reading.
func c06BlockedInWrite(c *Ctx, r *Rand, idx int) {
	var entered atomic.Int64
	var firstBlocked atomic.Bool
	blob := strings.Repeat("w", 64<<10)
	later := 2 + r.Intn(6)
	srv, err := startSrv(SrvCfg{}, func(m *gldap.Mux) {
		m.Search(func(w *gldap.ResponseWriter, req *gldap.Request) {
			sm, _ := req.GetSearchMessage()
			if sm.BaseDN == "big" {
				firstBlocked.Store(true)
				for i := 0; i < 200; i++ {
					e := req.NewSearchResponseEntry("cn=e")
					e.AddAttribute("b", []string{blob})
					if w.Write(e) != nil {
						return
					}
				}
			} else {
				entered.Add(1)
			}
			w.Write(req.NewSearchDoneResponse(gldap.WithResponseCode(0)))
		})
		m.Delete(func(w *gldap.ResponseWriter, req *gldap.Request) {
			entered.Add(1)
			w.Write(req.NewResponse(gldap.WithApplicationCode(gldap.ApplicationDelResponse), gldap.WithResponseCode(0)))
		})
	})
	if err != nil {
		c.Inconclusive("server start: " + err.Error())
		return
	}
	defer srv.StopWithin(patience)
	cn, err := net.Dial("tcp", srv.Addr)
	if err != nil {
		c.Inconclusive("dial: " + err.Error())
		return
	}
	defer cn.Close()
	search := func(id int64, base string) []byte {
		return sber.Message(id, sber.Search{Base: []byte(base), Scope: 2, Filter: sber.PresentFilter("cn"), Attrs: [][]byte{}}.Node(), nil).Encode()
	}
	all := search(1, "big")
	for i := 0; i < later; i++ {
		if i%2 == 0 {
			all = append(all, search(int64(2+i), "x")...)
		} else {
			all = append(all, sber.Message(int64(2+i), sber.DelRequest([]byte("cn=x")), nil).Encode()...)
		}
	}
	if r.Bool() {
		cn.Write(all)
	} else {
		// the big request first, the rest only once its handler is surely stuck in Write
		cn.Write(all[:len(search(1, "big"))])
		time.Sleep(150 * time.Millisecond)
		cn.Write(all[len(search(1, "big")):])
	}
	ok := false
	for dl := time.Now().Add(10 * time.Second); time.Now().Before(dl); time.Sleep(time.Millisecond) {
		if entered.Load() == int64(later) {
			ok = true
			break
		}
	}
	c.Count("pipelines_with_a_handler_blocked_in_write", 1)
	c.Count("requests_numbered", int64(later))
	if !ok {
		c.Violate("a blocked handler delays the dispatch of later requests", fmt.Sprintf("the first handler is blocked in Write (client not reading); after 10s only %d of the %d later requests of the pipeline had been handed to their handlers", entered.Load(), later),
			map[string]any{"later_requests": later, "first_handler_started": firstBlocked.Load()})
	} else {
		c.Distinct("pipeline_shapes", fmt.Sprintf("blocked-in-write/%d", later))
	}
	// let the client go: drain
	cn.SetReadDeadline(time.Now().Add(200 * time.Millisecond))
	buf := make([]byte, 64<<10)
	for {
		if _, err := cn.Read(buf); err != nil {
			break
		}
	}
}

// c06OddMessageIDs: pipelines whose message IDs repeat (and include 0 and the largest value): the client's numbering is
// none of the server's business - requests are still numbered by arrival and dispatched without waiting for one
// another. Requests are identified by their DN; every handler returns only after ALL handlers of the pipeline have
// been entered.
func c06OddMessageIDs(c *Ctx, r *Rand, idx int) {
	n := 3 + r.Intn(10)
	idPool := pick(r, [][]int64{{1}, {1, 2}, {1, 2, 3}, {0, 1}, {7, 7, 8}, {1<<31 - 1, 1}, {5, 6, 7, 8, 9, 10, 11, 12, 13, 14, 15, 16, 17}})
	var entered atomic.Int64
	all := make(chan struct{})
	giveUp := make(chan struct{})
	var mu sync.Mutex
	got := map[int]int{} // position -> Request.ID
	srv, err := startSrv(SrvCfg{}, func(m *gldap.Mux) {
		m.Delete(func(w *gldap.ResponseWriter, req *gldap.Request) {
			dm, err := req.GetDeleteMessage()
			if err != nil {
				return
			}
			var pos int
			fmt.Sscanf(dm.DN, "cn=p%d", &pos)
			mu.Lock()
			got[pos] = req.ID
			mu.Unlock()
			if entered.Add(1) == int64(n) {
				close(all)
			}
			select {
			case <-all:
			case <-giveUp:
			}
			w.Write(req.NewResponse(gldap.WithApplicationCode(gldap.ApplicationDelResponse), gldap.WithResponseCode(0)))
		})
	})
	if err != nil {
		c.Inconclusive("server start: " + err.Error())
		return
	}
	defer srv.StopWithin(patience)
	cn, err := net.Dial("tcp", srv.Addr)
	if err != nil {
		c.Inconclusive("dial: " + err.Error())
		return
	}
	defer cn.Close()
	var buf []byte
	var ids []int64
	for i := 1; i <= n; i++ {
		id := idPool[r.Intn(len(idPool))]
		ids = append(ids, id)
		buf = append(buf, sber.Message(id, sber.DelRequest([]byte(fmt.Sprintf("cn=p%d", i))), nil).Encode()...)
	}
	cn.Write(buf)
	ok := false
	select {
	case <-all:
		ok = true
	case <-time.After(10 * time.Second):
	}
	close(giveUp)
	c.Count("pipelines_with_repeated_message_ids", 1)
	c.Count("requests_numbered", int64(n))
	det := map[string]any{"message_ids": ids}
	if !ok {
		c.Violate("a blocked handler delays the dispatch of later requests", fmt.Sprintf("pipeline of %d requests with message IDs %v, every handler waiting for all of them to be entered: after 10s only %d had been handed to their handlers", n, ids, entered.Load()), det)
	} else {
		c.Count("rendezvous_satisfied", 1)
		c.Distinct("pipeline_shapes", fmt.Sprintf("repeated-ids/%d/%d", n, len(idPool)))
	}
	mu.Lock()
	for pos, rid := range got {
		if rid != pos {
			c.Violate("Request.ID is not the arrival position", fmt.Sprintf("request at position %d (message id %d) was numbered %d", pos, ids[pos-1], rid), det)
			break
		}
	}
	mu.Unlock()
	cl := wrapClient(cn)
	for i := 0; i < n && ok; i++ {
		if _, err := cl.ReadMsg(2 * time.Second); err != nil {
			break
		}
	}
}

// c06BeyondReadTimeout: a server with a read timeout, a handler that runs for longer than that while the client sends
// nothing, then further requests on the connection. Whether the connection survives the timeout is not this
// property's business; whatever reaches a handler must carry its arrival position as Request.ID.
func c06BeyondReadTimeout(c *Ctx, r *Rand, idx int) {
	rt := time.Duration(80+r.Intn(120)) * time.Millisecond
	hold := rt*2 + time.Duration(r.Intn(200))*time.Millisecond
	var mu sync.Mutex
	got := map[int]int{}
	srv, err := startSrv(SrvCfg{ReadTimeout: rt}, func(m *gldap.Mux) {
		m.Delete(func(w *gldap.ResponseWriter, req *gldap.Request) {
			dm, err := req.GetDeleteMessage()
			if err != nil {
				return
			}
			var pos int
			fmt.Sscanf(dm.DN, "cn=p%d", &pos)
			mu.Lock()
			got[pos] = req.ID
			mu.Unlock()
			if pos == 1 {
				time.Sleep(hold)
			}
			w.Write(req.NewResponse(gldap.WithApplicationCode(gldap.ApplicationDelResponse), gldap.WithResponseCode(0)))
		})
	})
	if err != nil {
		c.Inconclusive("server start: " + err.Error())
		return
	}
	defer srv.StopWithin(patience)
	cn, err := net.Dial("tcp", srv.Addr)
	if err != nil {
		c.Inconclusive("dial: " + err.Error())
		return
	}
	defer cn.Close()
	cl := wrapClient(cn)
	n := 2 + r.Intn(4)
	cn.Write(sber.Message(1, sber.DelRequest([]byte("cn=p1")), nil).Encode())
	c.Count("connections_with_a_handler_outliving_the_read_timeout", 1)
	if _, err := cl.ReadMsg(patience); err == nil {
		// the connection is still there: go on using it
		for i := 2; i <= n; i++ {
			if _, err := cn.Write(sber.Message(int64(i), sber.DelRequest([]byte(fmt.Sprintf("cn=p%d", i))), nil).Encode()); err != nil {
				break
			}
			if _, err := cl.ReadMsg(2 * time.Second); err != nil {
				break
			}
		}
	}
	mu.Lock()
	defer mu.Unlock()
	c.Count("requests_numbered", int64(len(got)))
	if len(got) > 1 {
		c.Count("requests_served_after_the_read_timeout_passed", int64(len(got)-1))
	}
	c.Distinct("pipeline_shapes", fmt.Sprintf("beyond-read-timeout/%d", len(got)))
	for pos, rid := range got {
		if rid != pos {
			c.Violate("Request.ID is not the arrival position", fmt.Sprintf("server with a %s read timeout, first handler held %s: the request at position %d was numbered %d", rt, hold, pos, rid),
				map[string]any{"read_timeout_ms": rt.Milliseconds(), "first_handler_held_ms": hold.Milliseconds(), "numbers_seen": got})
			break
		}
	}
}

// c06ManyBlockedHandlers: well over a thousand handlers blocked at once, spread over several connections of one server
// (each waits until ALL of them have been entered): however many handlers are already running, the next request read
// on any connection is handed to its handler.
func c06ManyBlockedHandlers(c *Ctx, r *Rand, idx int) {
	nconn, per := 5+idx%2, 250
	total := int64(nconn * per)
	var entered atomic.Int64
	all := make(chan struct{})
	giveUp := make(chan struct{})
	var once sync.Once
	var bad atomic.Int64
	srv, err := startSrv(SrvCfg{}, func(m *gldap.Mux) {
		m.Delete(func(w *gldap.ResponseWriter, req *gldap.Request) {
			dm, err := req.GetDeleteMessage()
			if err != nil {
				return
			}
			var pos int
			fmt.Sscanf(dm.DN, "cn=p%d", &pos)
			if req.ID != pos {
				bad.Add(1)
			}
			if entered.Add(1) == total {
				once.Do(func() { close(all) })
			}
			select {
			case <-all:
			case <-giveUp:
			}
			w.Write(req.NewResponse(gldap.WithApplicationCode(gldap.ApplicationDelResponse), gldap.WithResponseCode(0)))
		})
	})
	if err != nil {
		c.Inconclusive("server start: " + err.Error())
		return
	}
	defer srv.StopWithin(patience)
	var conns []net.Conn
	for k := 0; k < nconn; k++ {
		cn, err := net.Dial("tcp", srv.Addr)
		if err != nil {
			c.Inconclusive("dial: " + err.Error())
			close(giveUp)
			return
		}
		defer cn.Close()
		conns = append(conns, cn)
		var buf []byte
		for i := 1; i <= per; i++ {
			buf = append(buf, sber.Message(int64(i), sber.DelRequest([]byte(fmt.Sprintf("cn=p%d", i))), nil).Encode()...)
		}
		go cn.Write(buf)
	}
	ok := false
	select {
	case <-all:
		ok = true
	case <-time.After(20 * time.Second):
	}
	close(giveUp)
	c.Count("requests_numbered", entered.Load())
	c.Count("runs_with_more_than_a_thousand_handlers_blocked_at_once", 1)
	if !ok {
		c.Violate("a blocked handler delays the dispatch of later requests", fmt.Sprintf("%d connections x %d pipelined requests, every handler waiting until all %d have been entered: after 20s only %d had been handed to their handlers", nconn, per, total, entered.Load()), map[string]any{"connections": nconn, "per_connection": per})
	} else {
		c.Count("rendezvous_satisfied", 1)
		c.Distinct("pipeline_shapes", fmt.Sprintf("many-blocked/%d", nconn))
	}
	if bad.Load() > 0 {
		c.Violate("Request.ID is not the arrival position", fmt.Sprintf("%d of the %d requests were numbered otherwise", bad.Load(), total), nil)
	}
	for _, cn := range conns {
		cl := wrapClient(cn)
		for i := 0; i < per && ok; i++ {
			if _, err := cl.ReadMsg(2 * time.Second); err != nil {
				break
			}
		}
	}
}

// c06OtherConnections: a handler of connection A stays blocked (on something that is not socket I/O) while A itself
// ends - by FIN, reset, Unbind or a malformed frame. Whatever the server does about A, nothing on OTHER connections may
// wait for that handler: connections that exist already and connections made afterwards are served within 10s while
// the handler is still held.
func c06OtherConnections(c *Ctx, r *Rand, idx int) {
	gate := make(chan struct{})
	var parked atomic.Int64
	var mux *gldap.Mux
	srv, err := startSrv(SrvCfg{}, func(m *gldap.Mux) {
		mux = m
		m.Search(func(w *gldap.ResponseWriter, req *gldap.Request) {
			parked.Add(1)
			select {
			case <-gate:
			case <-time.After(patience):
			}
			w.Write(req.NewSearchDoneResponse(gldap.WithResponseCode(0)))
		})
		m.Bind(func(w *gldap.ResponseWriter, req *gldap.Request) {
			w.Write(req.NewBindResponse(gldap.WithResponseCode(0)))
		})
		m.ExtendedOperation(func(w *gldap.ResponseWriter, req *gldap.Request) {
			w.Write(req.NewExtendedResponse(gldap.WithResponseCode(gldap.ResultUnwillingToPerform)))
		}, gldap.ExtendedOperationStartTLS)
	})
	if err != nil {
		c.Inconclusive("server start: " + err.Error())
		return
	}
	released := false
	defer func() {
		if !released {
			close(gate)
		}
		srv.StopWithin(patience)
	}()
	bind := func(cl *Client, id int64) error {
		cl.Send(sber.Message(id, sber.BindRequest(3, []byte("cn=other"), []byte("p")), nil).Encode())
		m, err := cl.ReadMsg(10 * time.Second)
		if err != nil {
			return err
		}
		if m.ID != id || m.Op.Tag != sber.AppBindResponse {
			return fmt.Errorf("unexpected answer")
		}
		return nil
	}
	old, err := dialRaw(srv.Addr, nil)
	if err != nil {
		c.Inconclusive("dial: " + err.Error())
		return
	}
	defer old.Close()
	if err := bind(old, 1); err != nil {
		c.Inconclusive("first round trip: " + err.Error())
		return
	}
	a, err := dialRaw(srv.Addr, nil)
	if err != nil {
		c.Inconclusive("dial: " + err.Error())
		return
	}
	a.Send(sber.Message(2, sber.Search{Base: []byte("dc=x"), Scope: 2, Filter: sber.PresentFilter("cn"), Attrs: [][]byte{}}.Node(), nil).Encode())
	for dl := time.Now().Add(patience); parked.Load() == 0 && time.Now().Before(dl); time.Sleep(200 * time.Microsecond) {
	}
	if parked.Load() == 0 {
		c.Inconclusive("the handler to be held never started")
		a.Close()
		return
	}
	ending := pick(r, []string{"fin", "reset", "unbind", "malformed", "stays", "starttls-queued", "starttls-queued"})
	if idx%2 == 1 {
		// these rounds register a route further down, at a moment when nothing is being routed: no queued StartTLS
		ending = pick(r, []string{"fin", "reset", "unbind", "malformed", "stays"})
	}
	switch ending {
	case "fin":
		a.Close()
	case "reset":
		a.Reset()
	case "unbind":
		a.Send(sber.Message(3, sber.UnbindRequest(), nil).Encode())
	case "malformed":
		a.Send([]byte{0x30, 0x03, 0x02, 0x01, 0x01, 0xff})
	case "starttls-queued":
		// the connection with the blocked handler goes on to ask for StartTLS (served on its own read loop, whatever
		// that has to wait for): still nobody else's problem
		a.Send(sber.Message(3, sber.ExtendedRequest([]byte(sber.OIDStartTLS), nil, false), nil).Encode())
	}
	time.Sleep(time.Duration(1+r.Intn(20)) * time.Millisecond)
	det := map[string]any{"ending_of_the_connection_with_the_blocked_handler": ending}
	if idx%2 == 1 && mux != nil {
		// the application adds a route to the running Mux at a moment when nothing is being routed (the one handler
		// that runs is parked, no request is on its way): whatever that registration has to wait for, later requests
		// are still dispatched while the parked handler stays parked
		reg := make(chan struct{})
		go func() {
			defer close(reg)
			mux.Modify(func(w *gldap.ResponseWriter, req *gldap.Request) {
				w.Write(req.NewModifyResponse(gldap.WithResponseCode(0)))
			})
		}()
		select {
		case <-reg:
		case <-time.After(2 * time.Second):
		}
		det["route_registered_while_the_handler_was_parked"] = true
		c.Count("routes_registered_while_a_handler_was_parked", 1)
	}
	fail := func(what string, err error) {
		c.Violate("a blocked handler delays other connections", fmt.Sprintf("a handler of a connection that ended by %q is still blocked; %s: %v", ending, what, err), det)
	}
	if err := bind(old, 4); err != nil {
		fail("a connection that was already open is not answered within 10s", err)
	}
	for k := 0; k < 2+r.Intn(3); k++ {
		done := make(chan error, 1)
		go func() {
			cl, err := dialRaw(srv.Addr, nil)
			if err != nil {
				done <- err
				return
			}
			defer cl.Close()
			done <- bind(cl, 5)
		}()
		select {
		case err := <-done:
			if err != nil {
				fail("a connection made afterwards is not served within 10s", err)
			} else {
				c.Count("connections_served_while_another_connections_handler_is_blocked", 1)
			}
		case <-time.After(12 * time.Second):
			fail("a connection made afterwards is not served", fmt.Errorf("no answer within 12s"))
		}
	}
	c.Distinct("pipeline_shapes", "other-connections/"+ending)
	close(gate)
	released = true
	if ending != "stays" && ending != "starttls-queued" {
		a.Close()
	} else {
		a.ReadMsg(patience)
		a.Close()
	}
}

// c06FireAndForget: a client that does not wait for answers - N requests and then, in the same write, an Unbind, a
// half-close or a close. Every one of the N requests was read before the connection ended, so every one of them is
// handed to its handler (numbered 1..N), whatever the connection does next.
func c06FireAndForget(c *Ctx, r *Rand, idx int) {
	n := 2 + r.Intn(14)
	var mu sync.Mutex
	got := map[int]int{} // position (from the DN) -> Request.ID
	closed := make(chan struct{})
	var once sync.Once
	srv, err := startSrv(SrvCfg{OnClose: func(int) { once.Do(func() { close(closed) }) }}, func(m *gldap.Mux) {
		m.Delete(func(w *gldap.ResponseWriter, req *gldap.Request) {
			if dm, err := req.GetDeleteMessage(); err == nil {
				var pos int
				fmt.Sscanf(dm.DN, "cn=p%d", &pos)
				mu.Lock()
				got[pos] = req.ID
				mu.Unlock()
			}
			w.Write(req.NewResponse(gldap.WithApplicationCode(gldap.ApplicationDelResponse), gldap.WithResponseCode(0)))
		})
	})
	if err != nil {
		c.Inconclusive("server start: " + err.Error())
		return
	}
	defer srv.StopWithin(patience)
	cn, err := net.Dial("tcp", srv.Addr)
	if err != nil {
		c.Inconclusive("dial: " + err.Error())
		return
	}
	var buf []byte
	for i := 1; i <= n; i++ {
		buf = append(buf, sber.Message(int64(i), sber.DelRequest([]byte(fmt.Sprintf("cn=p%d", i))), nil).Encode()...)
	}
	ending := []string{"unbind", "half-close", "close"}[idx%3]
	if ending == "unbind" {
		buf = append(buf, sber.Message(int64(n+1), sber.UnbindRequest(), nil).Encode()...)
	}
	cn.Write(buf)
	switch ending {
	case "half-close":
		cn.(*net.TCPConn).CloseWrite()
	case "close":
		cn.Close()
	}
	select {
	case <-closed:
	case <-time.After(patience):
		c.Inconclusive("fire-and-forget: the connection was never reported closed")
		cn.Close()
		return
	}
	cn.Close()
	mu.Lock()
	defer mu.Unlock()
	c.Count("fire_and_forget_pipelines", 1)
	c.Count("requests_numbered", int64(n))
	if ending != "close" && len(got) != n { // after a full close the server may see a reset before it has read everything
		c.Violate("a request that was read was never handed to its handler", fmt.Sprintf("%d requests followed by %s in one write: only %d reached their handler", n, ending, len(got)), map[string]any{"ending": ending, "handled": fmt.Sprint(got)})
	}
	for pos, id := range got {
		if id != pos {
			c.Violate("Request.ID is not the arrival position", fmt.Sprintf("fire-and-forget pipeline: request at position %d numbered %d", pos, id), nil)
			break
		}
	}
	c.Distinct("pipeline_shapes", fmt.Sprintf("fire-and-forget/%d/%s", n, ending))
}

// c06LateRequests: a handler that has been blocked for a while - 20ms, 1.3s, 2.7s, (thorough) 6s - when the next
// request of its connection arrives; it stays blocked until that request's handler has been entered. However long
// a handler has been running, the next request read is handed to its handler.
func c06LateRequests(c *Ctx, round int) {
	type cell struct {
		first, second chan struct{}
	}
	var mu sync.Mutex
	cells := map[string]*cell{}
	safeClose := func(ch chan struct{}) {
		defer func() { recover() }() // (closed twice only when the harness has already given up on a cell)
		close(ch)
	}
	get := func(k string) *cell {
		mu.Lock()
		defer mu.Unlock()
		if cells[k] == nil {
			cells[k] = &cell{make(chan struct{}), make(chan struct{})}
		}
		return cells[k]
	}
	srv, err := startSrv(SrvCfg{}, func(m *gldap.Mux) {
		m.Delete(func(w *gldap.ResponseWriter, req *gldap.Request) {
			dm, err := req.GetDeleteMessage()
			if err != nil {
				return
			}
			var k string
			var pos int
			fmt.Sscanf(dm.DN, "cn=%s p%d", &k, &pos)
			ce := get(k)
			if pos == 1 {
				safeClose(ce.first)
				<-ce.second // (opened by the second request's handler, or by the harness when it gives up)
			} else {
				safeClose(ce.second)
			}
			w.Write(req.NewResponse(gldap.WithApplicationCode(gldap.ApplicationDelResponse), gldap.WithResponseCode(0)))
		})
	})
	if err != nil {
		c.Inconclusive("server start: " + err.Error())
		return
	}
	defer srv.StopWithin(patience)
	gaps := []time.Duration{20 * time.Millisecond, 1300 * time.Millisecond, 2700 * time.Millisecond}
	if !c.Quick() {
		gaps = append(gaps, 6*time.Second)
	}
	var wg sync.WaitGroup
	for gi, gap := range gaps {
		wg.Add(1)
		go func(gi int, gap time.Duration) {
			defer wg.Done()
			k := fmt.Sprintf("r%dg%d", round, gi)
			ce := get(k)
			cn, err := net.Dial("tcp", srv.Addr)
			if err != nil {
				c.Inconclusive("dial: " + err.Error())
				return
			}
			defer cn.Close()
			cn.Write(sber.Message(1, sber.DelRequest([]byte(fmt.Sprintf("cn=%s p1", k))), nil).Encode())
			select {
			case <-ce.first:
			case <-time.After(patience):
				c.Inconclusive("late requests: the first handler was not entered")
				return
			}
			time.Sleep(gap)
			cn.Write(sber.Message(2, sber.DelRequest([]byte(fmt.Sprintf("cn=%s p2", k))), nil).Encode())
			select {
			case <-ce.second:
				c.Count("requests_dispatched_while_an_earlier_handler_had_been_blocked_for_a_while", 1)
				if gap > time.Second {
					c.Count("requests_dispatched_while_an_earlier_handler_had_been_blocked_for_more_than_a_second", 1)
				}
			case <-time.After(patience):
				c.Violate("a blocked handler delays the dispatch of later requests", fmt.Sprintf("the handler of a connection's first request had been blocked for %s when the second request was sent; %s later the second request has not been handed to its handler (the first handler waits for exactly that)", gap, patience), map[string]any{"gap_ms": gap.Milliseconds()})
				safeClose(ce.second)
			}
			wrapClient(cn).ReadMsg(2 * time.Second)
		}(gi, gap)
	}
	wg.Wait()
}

func c06Run(c *Ctx) {
	pki := newPKI()
	for i := 0; i < c.N(1, 4); i++ {
		c06LateRequests(c, i)
	}
	for i := 0; i < c.N(12, 200); i++ {
		c06BlockedInWrite(c, c.Rng.Sub(fmt.Sprintf("bw%d", i)), i)
	}
	for i := 0; i < c.N(30, 500); i++ {
		c06OddMessageIDs(c, c.Rng.Sub(fmt.Sprintf("ids%d", i)), i)
	}
	for i := 0; i < c.N(60, 900); i++ {
		c06FireAndForget(c, c.Rng.Sub(fmt.Sprintf("ff%d", i)), i)
	}
	for i := 0; i < c.N(1, 6); i++ {
		c06ManyBlockedHandlers(c, c.Rng.Sub(fmt.Sprintf("mb%d", i)), i)
	}
	for i := 0; i < c.N(8, 100); i++ {
		c06BeyondReadTimeout(c, c.Rng.Sub(fmt.Sprintf("rt%d", i)), i)
	}
	for i := 0; i < c.N(15, 200); i++ {
		c06OtherConnections(c, c.Rng.Sub(fmt.Sprintf("oc%d", i)), i)
	}
	for i := 0; i < c.N(40, 600); i++ {
		c06StartTLS(c, c.Rng.Sub(fmt.Sprintf("tls%d", i)), pki, i)
	}
	n := c.N(300, 5000)
	workers := 8
	if !c.Quick() {
		workers = 32 // up to 64 simultaneous connections
	}
	var next atomic.Int64
	var wg sync.WaitGroup
	for w := 0; w < workers; w++ {
		wg.Add(1)
		go func(w int) {
			defer wg.Done()
			for {
				i := int(next.Add(1)) - 1
				if i >= n {
					return
				}
				c06Pipeline(c, c.Rng.Sub(fmt.Sprintf("p%d", i)), i)
			}
		}(w)
	}
	wg.Wait()
}
