package main

import (
	"crypto/tls"
	"fmt"
	"net"
	"strings"
	"sync"
	"sync/atomic"
	"time"

	"github.com/go-ldap/ldap/v3"
	"github.com/hashicorp/go-hclog"
	"github.com/jimlambrt/gldap"
	"github.com/jimlambrt/gldap/testdirectory"

	"verif/internal/sber"
)

func init() {
	register(&Check{
		ID: "C19", Level: "exploration", Primary: "cases", EvalCount: "binds",
		Rule: "user sets are drawn from an 8-spec pool containing DNs that are prefixes of one another (cn=a, cn=ab, 'cn=a,dc=x'), a duplicate DN with a different password, a user without a password attribute, " +
			"an empty first password, several password values, and a case variant; EXHAUSTIVE for all user sets of size <= 2 x 9 bind DNs (pool DNs, case variants, empty, bytes) x 5 passwords (incl. empty) x both " +
			"AllowAnonymousBind settings, plus random larger sets, plus user sets reached through sequences of LDAP Add and Delete requests, over plain, TLS and StartTLS-upgraded connections (raw client; go-ldap as a second client on a sample). " +
			"Oracle: result code == (pw==\"\" && anon) || exists user u with u.DN == dn and first password value == pw ? 0 : 49. Set* calls happen between binds (and, in one scenario, all the time with unchanged values). Passwords include same-length near misses whose byte-wise differences cancel out; every third user set also asks a sample of its questions two at a time (two BindRequests in one write). The pool also has a 200-byte password (tried with its 128-byte prefix and another tail), passwords with NUL bytes, an entry named like a userPrincipalName login (the directory runs with Defaults.UPNDomain), entries built as literals or with values assigned after construction, a password that looks like a BER-wrapped string (and BER-wrapped forms of other passwords as bind attempts), group entries that carry a password attribute (one of them with the DN of a pool user); users whose DNs are not well-formed DNs (alice; uid=bob,,dc=example,dc=org); the directory's response controls cycle through none / Behera grace, expiry and three error codes / a critical string control. " +
			"distinct_nontrivial = distinct (user set, anon, dn, password) cases",
		Assume: []string{"the directory is configured through SetUsers / SetAllowAnonymousBind between binds (sequential use)"},
		Phases: func(tier string, seed int64) []Phase {
			return []Phase{{Name: "binds-plain", Run: func(c *Ctx) { c19Run(c, "plain") }}, {Name: "binds-tls", Run: func(c *Ctx) { c19Run(c, "tls") }}, {Name: "binds-starttls", Run: func(c *Ctx) { c19Run(c, "starttls") }}}
		},
		MinObserved: []string{"binds", "binds_expected_success", "binds_expected_failure", "ldap_mutation_steps", "user_sets_checked_with_response_controls_configured", "user_sets_checked_while_the_configuration_was_being_reapplied", "binds_sent_two_in_one_write"},
	})
}

type c19User struct {
	DN   string
	PWs  []string // nil = no password attribute
	Note string
}

var c19Pool = []c19User{
	{"cn=a", []string{"pa"}, "plain"},
	{"cn=ab", []string{"pb"}, "dn extends cn=a"},
	{"cn=a,dc=x", []string{"pa"}, "dn extends cn=a with an RDN"},
	{"cn=a", []string{"other"}, "duplicate dn, different password"},
	{"cn=c", nil, "no password attribute"},
	{"cn=d", []string{""}, "empty first password"},
	{"cn=e", []string{"p1", "p2"}, "several password values"},
	{"CN=A", []string{"pa"}, "case variant"},
	{"cn=long", []string{c19Long}, "password longer than 128 bytes"},
	{"cn=bin", []string{"p\x00q"}, "password with a NUL inside"},
	{"cn=ber", []string{"\x04\x02pa"}, "a password that looks like a BER octet string wrapping 'pa'"},
	{"cn=scheme1", []string{"{CLEARTEXT}hunter2"}, "a password that looks like an RFC 2307 storage scheme (it is the password, as it stands)"},
	{"cn=scheme2", []string{"{SHA}5en6G6MezRroT3XKqkdPOmY/BfQ="}, "a password that looks like a hashed value ({SHA} of 'secret')"},
	{"alice", []string{"pal"}, "a DN that is not a DN at all (the directory compares strings)"},
	{"uid=bob,,dc=example,dc=org", []string{"pbo"}, "a DN with an empty RDN"},
	{"cn=cap", nil, "no password attribute, but one named Password (see c19Extra)"},
	{"cn=both", []string{"real"}, "a password attribute next to one named Password (see c19Extra)"},
	{"userPrincipalName=upn@example.com,ou=people,dc=example,dc=org", []string{"pu"}, "an entry named the way NewUsers names them for a UPN domain (the directory is started with Defaults.UPNDomain = example.com)"},
}

// c19Extra: further attributes of some pool entries - named almost like the password attribute, but not it
var c19Extra = map[string]map[string][]string{
	"cn=cap":  {"Password": {"decoy"}},
	"cn=both": {"Password": {"decoy"}, "PASSWORD": {"decoy2"}},
}

// c19Long: a 200-byte password; its 128-byte prefix and a variant with a different tail are tried as well
var c19Long = strings.Repeat("0123456789abcdef", 12) + "tail-one"

var c19DNs = []string{"cn=a", "cn=ab", "cn=a,dc=x", "CN=A", "cn=", "", "cn=e", "cn=d", "cn=c", "\xffcn=a", "cn=long", "cn=bin", "cn=ber", "cn=scheme1", "cn=scheme2", "cn=cap", "cn=both", "alice", "uid=bob,,dc=example,dc=org", "cn=group-with-password,ou=groups,dc=example,dc=org", "upn@example.com", "upn", "userPrincipalName=upn@example.com,ou=people,dc=example,dc=org"}
var c19PWs = []string{"pa", "pb", "", "p2", "other", "p1", "pa\x00", "\x00", "p", "p\x00q", "p\x00", c19Long, c19Long[:128], c19Long[:192] + "tail-two", c19Long + "\x00", "pu", "\x04\x02pa", "\x1b\x02pa", "\x04\x02pb", "gp",
	// near misses of the stored passwords, of the same length, whose byte-wise differences cancel out under one folding or
	// another (high bits toggled in two places, two bytes swapped, one byte up and one down)
	"\xf0\xe1", "\xf0\xe2", "\xf0\xb1", "\xf0\xf5", "\xef\xf4her", "ap", "bp", "q`", "1p", "PA",
	"{CLEARTEXT}hunter2", "hunter2", "{SHA}5en6G6MezRroT3XKqkdPOmY/BfQ=", "secret", "decoy", "decoy2", "real", "pal", "pbo"}

func c19Pred(users []c19User, anon bool, dn, pw string) bool {
	if pw == "" && anon {
		return true
	}
	for _, u := range users {
		if u.DN == dn && len(u.PWs) > 0 && u.PWs[0] == pw {
			return true
		}
	}
	return false
}

func c19Entries(users []c19User) []*gldap.Entry {
	out := []*gldap.Entry{}
	for i, u := range users {
		attrs := map[string][]string{"cn": {"x"}}
		if u.PWs != nil {
			attrs["password"] = append([]string{}, u.PWs...)
		}
		names := []string{"cn", "password"}
		for n, v := range c19Extra[u.DN] {
			attrs[n] = append([]string{}, v...)
		}
		for _, n := range []string{"Password", "PASSWORD"} {
			if _, ok := attrs[n]; ok {
				names = append([]string{n}, names...)
			}
		}
		// the credentials are what the entry's exported fields show (GetAttributeValues), however the entry came to be
		switch (i + len(users)) % 3 {
		case 1: // a literal: Values only
			e := &gldap.Entry{DN: u.DN}
			for _, n := range names {
				if v, ok := attrs[n]; ok {
					e.Attributes = append(e.Attributes, &gldap.EntryAttribute{Name: n, Values: v})
				}
			}
			out = append(out, e)
		case 2: // built with other values, then the password values are assigned
			stale := map[string][]string{"cn": {"x"}}
			for n, v := range c19Extra[u.DN] {
				stale[n] = append([]string{}, v...)
			}
			if u.PWs != nil {
				stale["password"] = []string{"stale-" + u.DN, "pa"}
			}
			e := gldap.NewEntry(u.DN, stale)
			for _, a := range e.Attributes {
				if a.Name == "password" {
					a.Values = append([]string{}, u.PWs...)
				}
			}
			out = append(out, e)
		default:
			out = append(out, gldap.NewEntry(u.DN, attrs))
		}
	}
	return out
}

// startDirectory starts a testdirectory outside `go test`.
func startDirectory(transport string, opts ...testdirectory.Option) (td *testdirectory.Directory, addr string, err error) {
	logger := hclog.New(&hclog.LoggerOptions{Name: "td", Level: hclog.Off})
	tl, _ := testdirectory.NewLogger(logger)
	port := freePort()
	all := []testdirectory.Option{testdirectory.WithPort(tl, port), testdirectory.WithLogger(tl, logger)}
	if transport != "tls" {
		all = append(all, testdirectory.WithNoTLS(tl))
	}
	all = append(all, opts...)
	if m, st := catch(func() { td = testdirectory.Start(tl, all...) }); m != "" {
		return nil, "", fmt.Errorf("testdirectory.Start: %s\n%s", m, stackHead(st, 8))
	}
	return td, fmt.Sprintf("localhost:%d", port), nil
}

// dirDial connects a raw client to a directory over the transport.
func dirDial(addr, transport string) (*Client, error) {
	switch transport {
	case "tls":
		return dialRaw(addr, &tls.Config{InsecureSkipVerify: true})
	case "starttls":
		cn, err := net.Dial("tcp", addr)
		if err != nil {
			return nil, err
		}
		cn.Write(sber.Message(1, sber.ExtendedRequest([]byte(sber.OIDStartTLS), nil, false), nil).Encode())
		if _, err := wrapClient(cn).ReadMsg(patience); err != nil {
			return nil, err
		}
		tc := tls.Client(cn, &tls.Config{InsecureSkipVerify: true})
		cn.SetDeadline(time.Now().Add(patience))
		if err := tc.Handshake(); err != nil {
			return nil, err
		}
		cn.SetDeadline(time.Time{})
		return wrapClient(tc), nil
	}
	return dialRaw(addr, nil)
}

func c19Run(c *Ctx, transport string) {
	tlOpt, _ := testdirectory.NewLogger(hclog.New(&hclog.LoggerOptions{Level: hclog.Off}))
	// every directory option that is documented to influence logins is switched on: the predicate stays what it is
	td, addr, err := startDirectory(transport, testdirectory.WithDefaults(tlOpt, &testdirectory.Defaults{UPNDomain: "example.com", UserAttr: "cn", GroupAttr: "cn"}))
	if err != nil {
		c.Inconclusive(err.Error())
		return
	}
	wedged := false
	defer func() {
		if !wedged {
			td.Stop() // (a directory whose handlers are stuck would keep Stop waiting for them)
		}
	}()
	cl, err := dirDial(addr, transport)
	if err != nil {
		c.Inconclusive("dial: " + err.Error())
		return
	}
	defer func() { cl.Close() }()
	var lc *ldap.Conn
	if transport == "plain" {
		lc, _ = ldap.DialURL("ldap://" + addr)
		if lc != nil {
			lc.SetTimeout(patience)
			defer lc.Close()
		}
	}
	id := int64(1)
	bind := func(dn, pw string) (int64, error) {
		id++
		if err := cl.Send(sber.Message(id, sber.BindRequest(3, []byte(dn), []byte(pw)), nil).Encode()); err != nil {
			return -1, err
		}
		m, err := cl.ReadMsg(patience)
		if err != nil {
			return -1, err
		}
		res, err := sber.AsResult(m.Op)
		if err != nil || m.ID != id || m.Op.Tag != sber.AppBindResponse {
			return -1, fmt.Errorf("not a bind response for id %d", id)
		}
		return res.Code, nil
	}
	// response controls configured on the directory are decoration: whatever they say, they do not decide a bind
	ctlSets := [][]gldap.Control{nil}
	for _, opts := range [][]gldap.Option{
		{gldap.WithGraceAuthNsRemaining(3)},
		{gldap.WithSecondsBeforeExpiration(100)},
		{gldap.WithErrorCode(gldap.BeheraPasswordExpired)},
		{gldap.WithErrorCode(gldap.BeheraAccountLocked)},
		{gldap.WithErrorCode(gldap.BeheraChangeAfterReset)},
	} {
		if b, err := gldap.NewControlBeheraPasswordPolicy(opts...); err == nil {
			ctlSets = append(ctlSets, []gldap.Control{b})
		}
	}
	if cs, err := gldap.NewControlString("1.2.3.4", gldap.WithCriticality(true), gldap.WithControlValue("locked")); err == nil {
		ctlSets = append(ctlSets, []gldap.Control{cs})
	}
	// a GROUP entry that carries a password attribute: groups are not users, nobody binds as one
	td.SetGroups(gldap.NewEntry("cn=group-with-password,ou=groups,dc=example,dc=org", map[string][]string{"member": {"cn=a"}, "password": {"gp"}}),
		gldap.NewEntry("cn=a", map[string][]string{"password": {"gp"}}))
	checks := 0
	check := func(users []c19User, anon bool, setSig string) bool {
		td.SetUsers(c19Entries(users)...)
		td.SetAllowAnonymousBind(anon)
		checks++
		td.SetControls(ctlSets[checks%len(ctlSets)]...)
		if checks%len(ctlSets) != 0 {
			c.Count("user_sets_checked_with_response_controls_configured", 1)
		}
		for _, dn := range c19DNs {
			for _, pw := range c19PWs {
				want := int64(49)
				if c19Pred(users, anon, dn, pw) {
					want = 0
					c.Count("binds_expected_success", 1)
				} else {
					c.Count("binds_expected_failure", 1)
				}
				got, err := bind(dn, pw)
				c.Count("binds", 1)
				c.Distinct("cases", fmt.Sprintf("%s|%v|%q|%q", setSig, anon, dn, pw))
				if err != nil {
					c.Violate("bind got no well-formed answer", err.Error(), map[string]any{"users": users, "anon": anon, "dn": dn, "pw": pw, "set": setSig})
					if strings.HasPrefix(setSig, "reapplied") {
						wedged = true
						return false // one unanswered bind settles it; the directory may be wedged for good
					}
					cl.Close()
					cl, err = dirDial(addr, transport)
					if err != nil {
						c.Inconclusive("redial: " + err.Error())
						return false
					}
					continue
				}
				if got != want {
					key := "bind succeeded without the right credentials"
					if want == 0 {
						key = "bind with the right credentials was refused"
					}
					c.Violate(key, fmt.Sprintf("[%s] users %s anon=%v bind(%q,%q) -> %d, want %d", transport, setSig, anon, dn, pw, got, want),
						map[string]any{"users": users, "anon": anon, "dn_hex": hxs(dn), "pw": pw, "got": got, "want": want})
				}
				// go-ldap as a second client on a sample
				if lc != nil && validUTF8([]byte(dn)) && (len(dn)+len(pw)+len(users))%5 == 0 {
					_, e := lc.SimpleBind(&ldap.SimpleBindRequest{Username: dn, Password: pw, AllowEmptyPassword: true})
					gok := e == nil
					if gok != (want == 0) || (e != nil && !ldap.IsErrorWithCode(e, 49)) {
						c.Violate("go-ldap sees a different bind outcome", fmt.Sprintf("users %s anon=%v bind(%q,%q): %v, want code %d", setSig, anon, dn, pw, e, want), nil)
					}
					c.Count("goldap_binds", 1)
				}
			}
		}
		// every third user set: a sample of the same questions asked two at a time - two BindRequests in one write, on
		// the one connection - each of which gets its own answer
		if checks%3 == 0 {
			type qa struct {
				dn, pw string
				id     int64
			}
			var qs []qa
			k := 0
			for _, dn := range c19DNs {
				for _, pw := range c19PWs {
					if k++; k%7 == 0 {
						id++
						qs = append(qs, qa{dn, pw, id})
					}
				}
			}
			for i := 0; i+1 < len(qs); i += 2 {
				a, b := qs[i], qs[i+1]
				if err := cl.Send(append(sber.Message(a.id, sber.BindRequest(3, []byte(a.dn), []byte(a.pw)), nil).Encode(), sber.Message(b.id, sber.BindRequest(3, []byte(b.dn), []byte(b.pw)), nil).Encode()...)); err != nil {
					break
				}
				got := map[int64]int64{}
				for n := 0; n < 2; n++ {
					m, err := cl.ReadMsg(patience)
					if err != nil {
						c.Violate("bind got no well-formed answer", "two binds sent in one write: "+err.Error(), map[string]any{"users": users, "anon": anon})
						cl.Close()
						if cl, err = dirDial(addr, transport); err != nil {
							c.Inconclusive("redial: " + err.Error())
							return false
						}
						break
					}
					if res, err := sber.AsResult(m.Op); err == nil && m.Op.Tag == sber.AppBindResponse {
						got[m.ID] = res.Code
					}
				}
				for _, q := range []qa{a, b} {
					code, ok := got[q.id]
					if !ok {
						continue
					}
					c.Count("binds", 1)
					c.Count("binds_sent_two_in_one_write", 1)
					want := int64(49)
					if c19Pred(users, anon, q.dn, q.pw) {
						want = 0
					}
					if code != want {
						key := "bind succeeded without the right credentials"
						if want == 0 {
							key = "bind with the right credentials was refused"
						}
						c.Violate(key, fmt.Sprintf("[%s] users %s anon=%v, two binds in one write: bind(%q,%q) -> %d, want %d", transport, setSig, anon, q.dn, q.pw, code, want),
							map[string]any{"users": users, "anon": anon, "dn_hex": hxs(q.dn), "pw": q.pw, "got": code, "want": want})
					}
				}
			}
		}
		return true
	}
	sig := func(idx []int) string {
		s := "{"
		for _, i := range idx {
			s += fmt.Sprint(i)
		}
		return s + "}"
	}
	// exhaustive: all user sets of size <= 2 (ordered) x both anon settings
	var sets [][]int
	sets = append(sets, []int{})
	for i := range c19Pool {
		sets = append(sets, []int{i})
	}
	for i := range c19Pool {
		for j := range c19Pool {
			sets = append(sets, []int{i, j})
		}
	}
	if c.Quick() && transport != "plain" {
		// quick: TLS transports take every 3rd set (plain stays exhaustive)
		var thin [][]int
		for i := 0; i < len(sets); i += 3 {
			thin = append(thin, sets[i])
		}
		sets = thin
	} else {
		c.Note("exhaustive_user_sets_up_to_size_2", true)
	}
	for _, idx := range sets {
		var users []c19User
		for _, i := range idx {
			users = append(users, c19Pool[i])
		}
		for _, anon := range []bool{false, true} {
			if !check(users, anon, sig(idx)) {
				return
			}
		}
	}
	// random larger sets
	r := c.Rng
	for k := 0; k < c.N(10, 400); k++ {
		var idx []int
		for j, n := 0, 3+r.Intn(5); j < n; j++ {
			idx = append(idx, r.Intn(len(c19Pool)))
		}
		var users []c19User
		for _, i := range idx {
			users = append(users, c19Pool[i])
		}
		if !check(users, r.Bool(), sig(idx)) {
			return
		}
	}
	// ---- binds while the application keeps re-applying the directory's configuration (the same users, the same
	// anonymous setting, the same controls): the predicate does not change, so neither do the answers - and every bind
	// still gets one
	for k := 0; k < c.N(4, 60); k++ {
		var idx []int
		for j, n := 0, 1+r.Intn(4); j < n; j++ {
			idx = append(idx, r.Intn(len(c19Pool)))
		}
		var users []c19User
		for _, i := range idx {
			users = append(users, c19Pool[i])
		}
		anon := r.Bool()
		stop := make(chan struct{})
		var reapplied atomic.Int64
		var rw sync.WaitGroup
		rw.Add(1)
		go func() {
			defer rw.Done()
			for {
				select {
				case <-stop:
					return
				default:
				}
				td.SetUsers(c19Entries(users)...)
				td.SetAllowAnonymousBind(anon)
				reapplied.Add(1)
			}
		}()
		ok := check(users, anon, "reapplied"+sig(idx))
		close(stop)
		done := make(chan struct{})
		go func() { rw.Wait(); close(done) }()
		select {
		case <-done:
		case <-time.After(patience):
			c.Violate("bind got no well-formed answer", "the goroutine that re-applies the directory's configuration is stuck in a Set* call", map[string]any{"users": users})
			wedged = true
			return
		}
		c.Count("user_sets_checked_while_the_configuration_was_being_reapplied", 1)
		c.Count("configuration_reapplications_during_binds", reapplied.Load())
		if !ok {
			return
		}
	}
	// ---- user sets reached through LDAP Add / Delete requests (not only SetUsers): the predicate is evaluated on
	// the model of the directory's current users after every step
	for k := 0; k < c.N(15, 300); k++ {
		var users []c19User
		td.SetUsers()
		td.SetAllowAnonymousBind(false)
		var trace []string
		for step := 0; step < 4+r.Intn(8); step++ {
			i := r.Intn(5)
			dn := fmt.Sprintf("cn=m%c,ou=people,dc=example,dc=org", 'a'+i)
			idx := -1
			for j, u := range users {
				if u.DN == dn {
					idx = j
				}
			}
			id++
			if idx < 0 {
				pw := pick(r, []string{"pa", "pb", "other"})
				cl.Send(sber.Message(id, sber.AddRequest([]byte(dn), []sber.Attr{{Type: []byte("password"), Vals: [][]byte{[]byte(pw)}}, {Type: []byte("cn"), Vals: [][]byte{[]byte("x")}}}), nil).Encode())
				if m, err := cl.ReadMsg(patience); err != nil || m.Op.Tag != sber.AppAddResponse {
					c.Inconclusive(fmt.Sprintf("ldap add: %v", err))
					return
				}
				users = append(users, c19User{DN: dn, PWs: []string{pw}})
				trace = append(trace, "add "+dn+" pw="+pw)
			} else {
				cl.Send(sber.Message(id, sber.DelRequest([]byte(dn)), nil).Encode())
				if m, err := cl.ReadMsg(patience); err != nil || m.Op.Tag != sber.AppDelResponse {
					c.Inconclusive(fmt.Sprintf("ldap delete: %v", err))
					return
				}
				users = append(users[:idx:idx], users[idx+1:]...)
				trace = append(trace, "delete "+dn)
			}
			c.Count("ldap_mutation_steps", 1)
			for j := 0; j < 5; j++ {
				bdn := fmt.Sprintf("cn=m%c,ou=people,dc=example,dc=org", 'a'+j)
				for _, pw := range []string{"pa", "pb", "other", ""} {
					want := int64(49)
					if c19Pred(users, false, bdn, pw) {
						want = 0
						c.Count("binds_expected_success", 1)
					} else {
						c.Count("binds_expected_failure", 1)
					}
					got, err := bind(bdn, pw)
					c.Count("binds", 1)
					c.Distinct("cases", fmt.Sprintf("seq/%s|%q|%q", strings.Join(trace, ";"), bdn, pw))
					if err != nil {
						c.Violate("bind got no well-formed answer", err.Error(), map[string]any{"trace": trace})
						return
					}
					if got != want {
						key := "bind succeeded without the right credentials"
						if want == 0 {
							key = "bind with the right credentials was refused"
						}
						c.Violate(key, fmt.Sprintf("[%s] after %v: bind(%q,%q) -> %d, want %d", transport, trace, bdn, pw, got, want), map[string]any{"steps": trace, "users_now": users, "dn": bdn, "pw": pw})
					}
				}
			}
		}
	}
	c.Sample(map[string]any{"users": []c19User{c19Pool[0], c19Pool[3]}, "anon": false, "dn": "cn=a", "pw": "other", "expect": 0, "transport": transport})
}
