package main

import (
	"bytes"
	"fmt"
	"sort"
	"strings"
	"time"

	"github.com/hashicorp/go-hclog"
	"github.com/jimlambrt/gldap"

	"verif/internal/sber"
)

// c16OddStrings: argument values for string-typed options - empty, blank-only, separators only, unbalanced, non-UTF-8, long.
var c16OddStrings = []string{"x", "", " ", "\t", "\n", " \r\n ", "  ", ",", ",,", " , ", "=", "dc=a", "dc=a,", ",dc=a", " dc=a ", "dc=a , dc=b", "\x00", "\xff", "\xff\xfe,",
	"(cn=x)", "((", "))", "(", ")", "()", "(&)", "*", "\\", "\\,", "cn=\\", strings.Repeat("dc=long,", 2000), strings.Repeat(" ", 5000),
	// things that look like OIDs, almost
	".", "..", "1.", ".1", "1..2", "1.3.6.", ".1.3.6", "1.3.6.1.4.1.1466.20037.", "01.2", "1.02", "1.a", "1.3.6.1.4.1.1466.20037", "0", "-1.2"}

func init() {
	register(&Check{
		ID: "C16", Level: "exploration", Primary: "calls", EvalCount: "calls",
		Rule: "every call of an exported helper/constructor runs under recover(); a case is distinct by (function, argument-shape signature): " +
			"ConvertString (tag,first length byte,#following bytes) / wrapper (tag,length class) / several wrapped arguments of different length classes in one call (every ordered pair over 13 lengths 0..70000, random 3..5-tuples), wrapped payloads that are BER elements themselves (one layer comes off, not two); SID (revision,authority) pairs; NewEntry map shapes; " +
			"constructor x ordered option list; 47 odd strings (blanks, separators, brackets, NUL, invalid UTF-8, almost-OIDs, very long ones) in every string-typed Mux registration option; the default result code of every response constructor called without WithResponseCode (checked on the wire); non-trivial = it reached the function body with that shape",
		Assume: []string{"panics are observed through recover() in the calling goroutine; New*Response constructors are exercised inside a live handler (the only way to own a *Request)"},
		Phases: func(tier string, seed int64) []Phase {
			return []Phase{{Name: "helpers", Run: c16Helpers}, {Name: "constructors", Run: c16Constructors}}
		},
		MinObserved: []string{"calls", "convertstring_payloads_that_are_ber_themselves", "sid_pairs", "response_constructor_calls", "default_result_codes_checked", "convertstring_multi_argument_inverse_checked", "convertstring_calls_with_an_argument_of_another_type"},
	})
}

func c16Panic(c *Ctx, fn, msg, stack string, args any) {
	c.Violate("panic in "+fn+": "+normPanic(msg), fn+" panicked: "+msg, map[string]any{"args": args, "stack": stackHead(stack, 24)})
}

func c16Helpers(c *Ctx) {
	r := c.Rng
	// ---- ConvertString: totality
	conv := func(sig string, args ...string) ([]string, error) {
		var out []string
		var err error
		c.Count("calls", 1)
		c.Count("convertstring_calls", 1)
		c.Distinct("calls", "ConvertString/"+sig)
		if m, st := catch(func() { out, err = gldap.ConvertString(args...) }); m != "" {
			var hexargs []string
			for _, a := range args {
				hexargs = append(hexargs, hxs(a))
			}
			c16Panic(c, "ConvertString", m, st, hexargs)
			return out, err
		}
		// "OctetString, GeneralString and all other types will return an error": an argument that is too short to carry
		// a tag and a length, or whose identifier octet is not exactly 0x04 / 0x1b, makes the call fail
		for _, a := range args {
			if len(a) < 2 || (a[0] != 0x04 && a[0] != 0x1b) {
				c.Count("convertstring_calls_with_an_argument_of_another_type", 1)
				if err == nil {
					c.Violate("ConvertString accepts an argument that is not an OctetString or GeneralString encoding", fmt.Sprintf("argument %s: result %q, no error", hx(trunc([]byte(a), 16)), out), map[string]any{"arg_hex": hx(trunc([]byte(a), 64))})
				}
				break
			}
		}
		return out, err
	}
	conv("noargs")
	conv("empty", "")
	for b := 0; b < 256; b++ {
		conv(fmt.Sprintf("1byte/%d", b), string([]byte{byte(b)}))
	}
	tags := []int{4, 27}
	if !c.Quick() {
		tags = nil
		for t := 0; t < 256; t++ {
			tags = append(tags, t)
		}
	} else {
		tags = append(tags, 0, 2, 12, 16, 48, 0x84, 0xff)
	}
	for _, t := range tags {
		for l := 0; l < 256; l++ {
			for follow := 0; follow <= 9; follow++ {
				b := []byte{byte(t), byte(l)}
				for k := 0; k < follow; k++ {
					b = append(b, byte(0x41+k))
				}
				conv(fmt.Sprintf("t%d/l%d/f%d", t, l, follow), string(b))
			}
		}
	}
	for i := 0; i < c.N(20000, 400000); i++ {
		n := r.Intn(12)
		b := r.Bytes(n)
		if n > 0 && r.Chance(70) {
			b[0] = byte(pick(r, []int{4, 27}))
		}
		conv(fmt.Sprintf("rnd/%d/%x", n, trunc(b, 2)), string(b))
	}
	// multi-argument calls mixing valid and invalid
	for i := 0; i < c.N(2000, 20000); i++ {
		var args []string
		for k := 0; k < 1+r.Intn(4); k++ {
			if r.Chance(60) {
				s := r.Bytes(r.Intn(6))
				args = append(args, string(append(append([]byte{4}, sber.EncodeLength(len(s))...), s...)))
			} else {
				args = append(args, string(r.Bytes(r.Intn(4))))
			}
		}
		conv(fmt.Sprintf("multi/%d", len(args)), args...)
	}
	// ---- ConvertString: inverse of BER wrapping
	var lens []int
	for n := 0; n <= 300; n++ {
		lens = append(lens, n)
	}
	lens = append(lens, 65535, 65536, 200000)
	for i := 0; i < c.N(50, 500); i++ {
		lens = append(lens, r.Intn(100000))
	}
	for _, tag := range []int{4, 27} {
		for _, n := range lens {
			s := r.Bytes(n)
			w := append(append([]byte{byte(tag)}, sber.EncodeLength(n)...), s...)
			out, err := conv(fmt.Sprintf("wrap/t%d/%s/%d", tag, lenClass(n), n%7), string(w))
			c.Count("convertstring_inverse_checked", 1)
			if err != nil || len(out) != 1 || out[0] != string(s) {
				c.Violate("ConvertString does not invert BER wrapping", fmt.Sprintf("ConvertString(wrap(tag %d, %d bytes)) = %d results, err=%v", tag, n, len(out), err),
					map[string]any{"tag": tag, "len": n, "input_head": hx(trunc(w, 32))})
			}
		}
	}
	c.Sample(map[string]any{"fn": "ConvertString", "arg_hex": "0482012c<300 bytes>", "expect": "the 300 bytes"})
	// ... also for payloads that look like BER themselves (a binary attribute value is often one): one layer of
	// wrapping is taken off, not two
	for _, tag := range []int{4, 27} {
		for _, innerTag := range []int{0x04, 0x1b, 0x30, 0x02} {
			for _, n := range []int{0, 1, 3, 127, 128, 255, 256, 300, 65536} {
				payload := append(append([]byte{byte(innerTag)}, sber.EncodeLength(n)...), r.Bytes(n)...)
				w := append(append([]byte{byte(tag)}, sber.EncodeLength(len(payload))...), payload...)
				out, err := conv(fmt.Sprintf("wrap/t%d/inner-t%d/%s", tag, innerTag, lenClass(n)), string(w))
				c.Count("convertstring_payloads_that_are_ber_themselves", 1)
				if err != nil || len(out) != 1 || out[0] != string(payload) {
					c.Violate("ConvertString does not invert BER wrapping", fmt.Sprintf("ConvertString(wrap(tag %d, payload = a BER element of tag %#x with %d content bytes)) = %d results, err=%v: the payload is not returned as it was wrapped", tag, innerTag, n, len(out), err),
						map[string]any{"tag": tag, "inner_tag": innerTag, "inner_len": n})
				}
			}
		}
	}
	// several wrapped arguments of different length classes in ONE call: each result is its own argument's payload
	mlens := []int{0, 1, 2, 5, 127, 128, 200, 255, 256, 300, 65535, 65536, 70000}
	multiCase := func(ls []int) {
		var args, want []string
		for _, n := range ls {
			pl := r.Bytes(n)
			tag := pick(r, []int{4, 27})
			args = append(args, string(append(append([]byte{byte(tag)}, sber.EncodeLength(n)...), pl...)))
			want = append(want, string(pl))
		}
		out, err := conv(fmt.Sprintf("wrapmulti/%v", ls), args...)
		c.Count("convertstring_multi_argument_inverse_checked", 1)
		ok := err == nil && len(out) == len(want)
		for k := 0; ok && k < len(want); k++ {
			ok = out[k] == want[k]
		}
		if !ok {
			c.Violate("ConvertString does not invert BER wrapping of several arguments", fmt.Sprintf("payload lengths %v: %d results, err=%v", ls, len(out), err), map[string]any{"payload_lengths": ls})
		}
	}
	for _, a := range mlens {
		for _, b := range mlens {
			multiCase([]int{a, b})
		}
	}
	for i := 0; i < c.N(200, 2000); i++ {
		var ls []int
		for k, n := 0, 3+r.Intn(3); k < n; k++ {
			ls = append(ls, pick(r, mlens))
		}
		multiCase(ls)
	}

	// ---- SID round trip
	step := 1
	if c.Quick() {
		step = 128
	}
	exhaustive := step == 1
	for rev := 0; rev < 256; rev++ {
		for a := 0; a < 65536; a += step {
			aa := a
			if !exhaustive {
				aa = (a + rev*31 + int(c.Seed)) % 65536 // vary the sampled authorities with revision and seed
			}
			var b []byte
			var s string
			var err1, err2 error
			if m, st := catch(func() {
				b, err1 = gldap.SIDBytes(uint8(rev), uint16(aa))
				if err1 == nil {
					s, err2 = gldap.SIDBytesToString(b)
				}
			}); m != "" {
				c16Panic(c, "SIDBytes/SIDBytesToString", m, st, []int{rev, aa})
				continue
			}
			c.Count("sid_pairs", 1)
			want := fmt.Sprintf("S-%d-%d", rev, aa)
			if err1 != nil || err2 != nil || s != want {
				c.Violate("SID round trip", fmt.Sprintf("SIDBytesToString(SIDBytes(%d,%d)) = %q err=%v/%v, want %q", rev, aa, s, err1, err2, want), []int{rev, aa})
			}
		}
	}
	c.mu.Lock()
	sp := c.counts["sid_pairs"]
	c.mu.Unlock()
	c.Count("calls", sp)
	c.Distinct("calls", "SID/roundtrip")
	c.Note("sid_space_exhaustive", exhaustive)
	c.Sample(map[string]any{"fn": "SIDBytesToString(SIDBytes(r,a))", "r": 255, "a": 65535, "expect": "S-255-65535"})
	// truncations and random bytes
	full, _ := gldap.SIDBytes(1, 5)
	full = append(full, 1, 2, 3, 4, 5, 6, 7, 8)
	trySID := func(sig string, b []byte) {
		c.Count("calls", 1)
		c.Count("sid_hostile_calls", 1)
		c.Distinct("calls", "SIDBytesToString/"+sig)
		if m, st := catch(func() { _, _ = gldap.SIDBytesToString(b) }); m != "" {
			c16Panic(c, "SIDBytesToString", m, st, hx(b))
		}
	}
	trySID("nil", nil)
	for n := 0; n <= len(full); n++ {
		for cnt := 0; cnt < 256; cnt += 17 {
			b := append([]byte{}, full[:n]...)
			if n > 1 {
				b[1] = byte(cnt)
			}
			trySID(fmt.Sprintf("trunc/%d/%d", n, cnt), b)
		}
	}
	for i := 0; i < c.N(20000, 300000); i++ {
		n := r.Intn(40)
		trySID(fmt.Sprintf("rnd/%d", n), r.Bytes(n))
	}

	// ---- NewEntry: sorted, deterministic, Values == ByteValues
	names := []string{"", "a", "A", "b", "cn", "CN", "cn ", "member", "z", "\x00", "\xff\xfe", "aa", "a\x00"}
	for i := 0; i < c.N(3000, 60000); i++ {
		var m map[string][]string
		shape := "nilmap"
		if i > 0 {
			m = map[string][]string{}
			k := r.Intn(8)
			shape = fmt.Sprintf("k%d", k)
			for j := 0; j < k; j++ {
				name := pick(r, names)
				if r.Chance(30) {
					name = string(r.Bytes(1 + r.Intn(3)))
				}
				var vals []string
				switch r.Intn(4) {
				case 0:
					vals = nil
					shape += "n"
				case 1:
					vals = []string{}
					shape += "e"
				default:
					for v := 0; v < 1+r.Intn(3); v++ {
						vals = append(vals, string(r.Bytes(r.Intn(5))))
					}
					shape += fmt.Sprint(len(vals))
				}
				m[name] = vals
			}
		}
		c.Count("calls", 20)
		c.Count("newentry_maps", 1)
		c.Distinct("calls", "NewEntry/"+shape)
		var first []string
		for rep := 0; rep < 20; rep++ {
			var e *gldap.Entry
			if msg, st := catch(func() { e = gldap.NewEntry("cn=x", m) }); msg != "" {
				c16Panic(c, "NewEntry", msg, st, shape)
				break
			}
			var order []string
			for _, a := range e.Attributes {
				order = append(order, a.Name)
				if len(a.Values) != len(a.ByteValues) {
					c.Violate("NewEntry Values/ByteValues length differ", fmt.Sprintf("attribute %q: %d values, %d byte values", a.Name, len(a.Values), len(a.ByteValues)), shape)
					continue
				}
				for k := range a.Values {
					if a.Values[k] != string(a.ByteValues[k]) {
						c.Violate("NewEntry Values/ByteValues differ", fmt.Sprintf("attribute %q value %d", a.Name, k), shape)
					}
				}
				if want := m[a.Name]; len(want) != len(a.Values) {
					c.Violate("NewEntry attribute values lost", fmt.Sprintf("attribute %q has %d values, map had %d", a.Name, len(a.Values), len(want)), shape)
				}
			}
			// "ordered by name": byte order (what the code documents) or a case-insensitive alphabetical order are both accepted
			lower := make([]string, len(order))
			for k, n := range order {
				lower[k] = strings.ToLower(n)
			}
			if !sort.StringsAreSorted(order) && !sort.StringsAreSorted(lower) {
				c.Violate("NewEntry attributes not ordered by name", fmt.Sprintf("order %q", order), shape)
			}
			if len(order) != len(m) {
				c.Violate("NewEntry attribute count", fmt.Sprintf("%d attributes from a map of %d", len(order), len(m)), shape)
			}
			if rep == 0 {
				first = order
			} else if strings.Join(order, "\x01") != strings.Join(first, "\x01") {
				c.Violate("NewEntry order differs between calls", fmt.Sprintf("%q vs %q", first, order), shape)
			}
		}
	}
	// NewEntryAttribute / AddValue keep the two views equal
	for i := 0; i < c.N(2000, 20000); i++ {
		var vals []string
		for v := 0; v < r.Intn(4); v++ {
			vals = append(vals, string(r.Bytes(r.Intn(6))))
		}
		c.Count("calls", 1)
		c.Distinct("calls", fmt.Sprintf("NewEntryAttribute/%d", len(vals)))
		if msg, st := catch(func() {
			a := gldap.NewEntryAttribute("n", vals)
			extra := string(r.Bytes(r.Intn(4)))
			a.AddValue(extra)
			if len(a.Values) != len(a.ByteValues) {
				c.Violate("EntryAttribute Values/ByteValues length differ", "after AddValue", len(vals))
				return
			}
			for k := range a.Values {
				if a.Values[k] != string(a.ByteValues[k]) {
					c.Violate("EntryAttribute Values/ByteValues differ", "after AddValue", len(vals))
				}
			}
		}); msg != "" {
			c16Panic(c, "NewEntryAttribute/AddValue", msg, st, len(vals))
		}
	}

	// AddValue on the attributes of a NewEntry result: EVERY attribute of the entry keeps its two views equal, not only
	// the one that was extended (attributes must not share storage)
	for i := 0; i < c.N(300, 5000); i++ {
		m := map[string][]string{}
		for a, n := 0, 2+r.Intn(5); a < n; a++ {
			var vals []string
			for v := 0; v < 1+r.Intn(3); v++ {
				vals = append(vals, fmt.Sprintf("v%d-%d-%s", a, v, string(r.Bytes(r.Intn(3)))))
			}
			m[fmt.Sprintf("attr%c", 'a'+a)] = vals
		}
		c.Count("calls", 1)
		c.Count("entries_extended_with_addvalue", 1)
		c.Distinct("calls", fmt.Sprintf("NewEntry+AddValue/%d", len(m)))
		if msg, st := catch(func() {
			e := gldap.NewEntry("cn=x", m)
			for round := 0; round < 3; round++ {
				for _, a := range e.Attributes {
					if r.Bool() {
						a.AddValue(fmt.Sprintf("added-%d-%s", round, a.Name))
					}
				}
				for _, a := range e.Attributes {
					if len(a.Values) != len(a.ByteValues) {
						c.Violate("EntryAttribute Values/ByteValues length differ", fmt.Sprintf("attribute %s after AddValue calls on the entry's attributes", a.Name), len(m))
						return
					}
					for k := range a.Values {
						if a.Values[k] != string(a.ByteValues[k]) {
							c.Violate("EntryAttribute Values/ByteValues differ", fmt.Sprintf("attribute %s value %d: string %q, bytes %q, after AddValue calls on the entry's attributes", a.Name, k, a.Values[k], a.ByteValues[k]), len(m))
							return
						}
					}
				}
			}
		}); msg != "" {
			c16Panic(c, "NewEntry/AddValue", msg, st, len(m))
		}
	}

	// ---- NewControl* constructors
	type optSpec struct {
		name string
		mk   func() gldap.Option
	}
	ctlOpts := []optSpec{
		{"grace", func() gldap.Option { return gldap.WithGraceAuthNsRemaining(uint(r.Intn(1 << 31))) }},
		{"expire", func() gldap.Option { return gldap.WithSecondsBeforeExpiration(uint(r.Intn(1 << 31))) }},
		{"error", func() gldap.Option { return gldap.WithErrorCode(uint(r.Intn(9))) }},
		{"crit", func() gldap.Option { return gldap.WithCriticality(r.Bool()) }},
		{"value", func() gldap.Option { return gldap.WithControlValue(string(r.Bytes(r.Intn(5)))) }},
		{"nil", func() gldap.Option { return nil }},
		{"foreign-route", func() gldap.Option { return gldap.WithLabel("x") }},
		{"foreign-resp", func() gldap.Option { return gldap.WithResponseCode(3) }},
		{"foreign-cfg", func() gldap.Option { return gldap.WithLogger(hclog.NewNullLogger()) }},
	}
	for mask := 0; mask < 1<<len(ctlOpts); mask++ {
		var opts []gldap.Option
		var on []string
		for i, o := range ctlOpts {
			if mask&(1<<i) != 0 {
				opts = append(opts, o.mk())
				on = append(on, o.name)
			}
		}
		sig := strings.Join(on, "+")
		set := 0
		for _, n := range on[:] {
			if n == "grace" || n == "expire" || n == "error" {
				set++
			}
		}
		c.Count("calls", 7)
		c.Count("control_constructor_calls", 7)
		c.Distinct("calls", "NewControl*/"+sig)
		if msg, st := catch(func() {
			b, err := gldap.NewControlBeheraPasswordPolicy(opts...)
			if set > 1 && err == nil {
				c.Violate("Behera constructor accepts more than one of grace/expire/error", sig, sig)
			}
			if set <= 1 && err != nil {
				c.Violate("Behera constructor rejects a valid option set", sig+": "+err.Error(), sig)
			}
			if err == nil {
				n := 0
				if b.Grace() >= 0 {
					n++
				}
				if b.Expire() >= 0 {
					n++
				}
				if e, _ := b.ErrorCode(); e >= 0 {
					n++
				}
				if n > 1 {
					c.Violate("Behera control with more than one of grace/expire/error set", sig, sig)
				}
				_ = b.Encode()
				_ = b.String()
			}
			if cs, err := gldap.NewControlString("1.2.3", opts...); err == nil {
				_ = cs.Encode()
				_ = cs.String()
			}
			_, _ = gldap.NewControlString("", opts...)
			if m, err := gldap.NewControlManageDsaIT(opts...); err == nil {
				_ = m.Encode()
				_ = m.String()
			}
			if m, err := gldap.NewControlMicrosoftNotification(opts...); err == nil {
				_ = m.Encode()
				_ = m.String()
			}
			if m, err := gldap.NewControlMicrosoftServerLinkTTL(opts...); err == nil {
				_ = m.Encode()
				_ = m.String()
			}
			if m, err := gldap.NewControlMicrosoftShowDeleted(opts...); err == nil {
				_ = m.Encode()
				_ = m.String()
			}
			if m, err := gldap.NewControlPaging(uint32(r.U64()), opts...); err == nil {
				_ = m.Encode()
				_ = m.String()
			}
		}); msg != "" {
			c16Panic(c, "NewControl*", msg, st, sig)
		}
	}
	for code := 0; code <= 300; code++ {
		c.Count("calls", 1)
		c.Distinct("calls", fmt.Sprintf("Behera/error/%d", code))
		if msg, st := catch(func() {
			b, err := gldap.NewControlBeheraPasswordPolicy(gldap.WithErrorCode(uint(code)))
			if code > 8 && err == nil {
				c.Violate("Behera constructor accepts error code above 8", fmt.Sprintf("code %d accepted", code), code)
			}
			if code <= 8 {
				if err != nil {
					c.Violate("Behera constructor rejects a valid error code", fmt.Sprintf("code %d: %v", code, err), code)
				} else if e, _ := b.ErrorCode(); e != code {
					c.Violate("Behera constructor stores a different error code", fmt.Sprintf("code %d stored as %d", code, e), code)
				}
			}
		}); msg != "" {
			c16Panic(c, "NewControlBeheraPasswordPolicy", msg, st, code)
		}
	}

	// ---- Mux registration methods
	h := func(w *gldap.ResponseWriter, r *gldap.Request) {}
	routeOpts := []optSpec{
		{"label", func() gldap.Option { return gldap.WithLabel(pick(r, c16OddStrings)) }},
		{"base", func() gldap.Option { return gldap.WithBaseDN(pick(r, c16OddStrings)) }},
		{"filter", func() gldap.Option { return gldap.WithFilter(pick(r, c16OddStrings)) }},
		{"scope", func() gldap.Option { return gldap.WithScope(gldap.Scope(r.Intn(5) - 1)) }},
		{"nil", func() gldap.Option { return nil }},
		{"foreign-ctl", func() gldap.Option { return gldap.WithCriticality(true) }},
		{"foreign-resp", func() gldap.Option { return gldap.WithDiagnosticMessage("x") }},
	}
	// every odd string once in every string-typed position of a registration
	for _, str := range c16OddStrings {
		str := str
		for _, pos := range []string{"WithBaseDN", "WithFilter", "WithLabel", "ExtendedOperationName"} {
			c.Count("calls", 1)
			c.Count("mux_registration_calls", 1)
			c.Distinct("calls", fmt.Sprintf("Mux/%s(%q)", pos, trunc([]byte(str), 12)))
			if msg, st := catch(func() {
				m, _ := gldap.NewMux()
				switch pos {
				case "WithBaseDN":
					m.Search(h, gldap.WithBaseDN(str))
				case "WithFilter":
					m.Search(h, gldap.WithFilter(str))
				case "WithLabel":
					m.Search(h, gldap.WithLabel(str))
					m.Bind(h, gldap.WithLabel(str))
				default:
					m.ExtendedOperation(h, gldap.ExtendedOperationName(str))
				}
			}); msg != "" {
				c16Panic(c, "Mux registration", msg, st, pos+" "+string(trunc([]byte(str), 32)))
			}
		}
	}
	// every registration method as the FIRST call on a fresh mux, with each string-typed option (whatever a method sets
	// up lazily must be set up by every method)
	for mi, method := range []string{"Bind", "Unbind", "Search", "Modify", "Add", "Delete", "ExtendedOperation", "DefaultRoute"} {
		for si, str := range c16OddStrings {
			for _, pos := range []string{"WithLabel", "WithBaseDN", "WithFilter"} {
				if (mi+si)%3 != 0 && str != "x" && str != "dc=a" {
					continue
				}
				str, pos, method := str, pos, method
				c.Count("calls", 1)
				c.Count("mux_registration_calls", 1)
				c.Distinct("calls", fmt.Sprintf("Mux/first-call/%s/%s", method, pos))
				if msg, st := catch(func() {
					m, _ := gldap.NewMux()
					if si%2 == 1 {
						m = &gldap.Mux{}
					}
					var o gldap.Option
					switch pos {
					case "WithLabel":
						o = gldap.WithLabel(str)
					case "WithBaseDN":
						o = gldap.WithBaseDN(str)
					default:
						o = gldap.WithFilter(str)
					}
					switch method {
					case "Bind":
						m.Bind(h, o)
					case "Unbind":
						m.Unbind(h, o)
					case "Search":
						m.Search(h, o)
					case "Modify":
						m.Modify(h, o)
					case "Add":
						m.Add(h, o)
					case "Delete":
						m.Delete(h, o)
					case "ExtendedOperation":
						m.ExtendedOperation(h, "1.2.3", o)
					default:
						m.DefaultRoute(h, o)
					}
				}); msg != "" {
					c16Panic(c, "Mux registration", msg, st, method+" first, "+pos+" "+string(trunc([]byte(str), 32)))
				}
			}
		}
	}
	for _, nilHandler := range []bool{false, true} {
		for mask := 0; mask < 1<<len(routeOpts); mask++ {
			var opts []gldap.Option
			var on []string
			for i, o := range routeOpts {
				if mask&(1<<i) != 0 {
					opts = append(opts, o.mk())
					on = append(on, o.name)
				}
			}
			sig := fmt.Sprintf("nilh=%v/%s", nilHandler, strings.Join(on, "+"))
			var hf gldap.HandlerFunc = h
			if nilHandler {
				hf = nil
			}
			c.Count("calls", 9)
			c.Count("mux_registration_calls", 9)
			c.Distinct("calls", "Mux/"+sig)
			if msg, st := catch(func() {
				m, err := gldap.NewMux(opts...)
				if err != nil || m == nil {
					c.Violate("NewMux failed", fmt.Sprint(err), sig)
					return
				}
				check := func(name string, err error) {
					if nilHandler && err == nil {
						c.Violate("Mux registration accepts a nil handler", name, sig)
					}
					if !nilHandler && err != nil {
						c.Violate("Mux registration rejects a valid handler", name+": "+err.Error(), sig)
					}
				}
				check("Bind", m.Bind(hf, opts...))
				check("Unbind", m.Unbind(hf, opts...))
				check("Search", m.Search(hf, opts...))
				check("ExtendedOperation", m.ExtendedOperation(hf, gldap.ExtendedOperationName(pick(r, []string{"", "1.2", "\x00"})), opts...))
				check("Modify", m.Modify(hf, opts...))
				check("Add", m.Add(hf, opts...))
				check("Delete", m.Delete(hf, opts...))
				check("DefaultRoute", m.DefaultRoute(hf, opts...))
			}); msg != "" {
				c16Panic(c, "Mux registration", msg, st, sig)
			}
		}
	}
	// nil mux to Router must be an error, not a panic
	if msg, st := catch(func() {
		s, _ := gldap.NewServer(gldap.WithLogger(hclog.NewNullLogger()))
		if err := s.Router(nil); err == nil {
			c.Violate("Server.Router accepts nil", "no error", nil)
		}
	}); msg != "" {
		c16Panic(c, "Server.Router", msg, st, "nil")
	}
}

// c16Constructors exercises New*Response inside a live handler.
func c16Constructors(c *Ctx) {
	r := c.Rng
	done := make(chan struct{})
	type optSpec struct {
		name string
		mk   func() gldap.Option
	}
	respOpts := []optSpec{
		{"code", func() gldap.Option { return gldap.WithResponseCode(r.Intn(100)) }},
		// codes nobody would choose - an int is an int
		{"code-odd", func() gldap.Option {
			return gldap.WithResponseCode(pick(r, []int{-1, -2, -128, -32768, -2147483648, 123, 124, 255, 256, 32767, 32768, 65536, 2147483647}))
		}},
		{"app", func() gldap.Option { return gldap.WithApplicationCode(r.Intn(31)) }},
		{"diag", func() gldap.Option { return gldap.WithDiagnosticMessage(string(r.Bytes(r.Intn(4)))) }},
		{"matched", func() gldap.Option { return gldap.WithMatchedDN(string(r.Bytes(r.Intn(4)))) }},
		{"attrs", func() gldap.Option {
			if r.Chance(25) {
				return gldap.WithAttributes(nil)
			}
			return gldap.WithAttributes(map[string][]string{"a": {"1"}, "": nil})
		}},
		{"nil", func() gldap.Option { return nil }},
		{"foreign-route", func() gldap.Option { return gldap.WithLabel("x") }},
		{"foreign-ctl", func() gldap.Option { return gldap.WithCriticality(true) }},
	}
	type ctor struct {
		name string
		call func(req *gldap.Request, opts []gldap.Option) gldap.Response
	}
	ctors := []ctor{
		{"NewResponse", func(q *gldap.Request, o []gldap.Option) gldap.Response { return q.NewResponse(o...) }},
		{"NewBindResponse", func(q *gldap.Request, o []gldap.Option) gldap.Response { return q.NewBindResponse(o...) }},
		{"NewExtendedResponse", func(q *gldap.Request, o []gldap.Option) gldap.Response { return q.NewExtendedResponse(o...) }},
		{"NewSearchDoneResponse", func(q *gldap.Request, o []gldap.Option) gldap.Response { return q.NewSearchDoneResponse(o...) }},
		{"NewSearchResponseEntry", func(q *gldap.Request, o []gldap.Option) gldap.Response {
			return q.NewSearchResponseEntry(string(r.Bytes(r.Intn(4))), o...)
		}},
		{"NewModifyResponse", func(q *gldap.Request, o []gldap.Option) gldap.Response { return q.NewModifyResponse(o...) }},
	}
	var written int64
	battery := func(w *gldap.ResponseWriter, req *gldap.Request) {
		defer func(d chan struct{}) { close(d) }(done)
		for _, ct := range ctors {
			for mask := 0; mask < 1<<len(respOpts); mask++ {
				var idx []int
				for i := range respOpts {
					if mask&(1<<i) != 0 {
						idx = append(idx, i)
					}
				}
				// every order for up to 3 options, otherwise identity + 3 random orders
				var orders [][]int
				if len(idx) <= 3 {
					orders = permutations(idx)
				} else {
					orders = [][]int{idx}
					for k := 0; k < 3; k++ {
						p := r.Perm(len(idx))
						o := make([]int, len(idx))
						for a, b := range p {
							o[a] = idx[b]
						}
						orders = append(orders, o)
					}
				}
				for _, ord := range orders {
					var opts []gldap.Option
					var on []string
					for _, i := range ord {
						opts = append(opts, respOpts[i].mk())
						on = append(on, respOpts[i].name)
					}
					sig := ct.name + "(" + strings.Join(on, ",") + ")"
					c.Count("calls", 1)
					c.Count("response_constructor_calls", 1)
					c.Distinct("calls", sig)
					if msg, st := catch(func() {
						resp := ct.call(req, opts)
						if resp == nil {
							c.Violate("constructor returned nil", sig, sig)
							return
						}
						// writing exercises packet(); the client discards these frames
						if err := w.Write(resp); err == nil {
							written++
						}
					}); msg != "" {
						c16Panic(c, ct.name, msg, st, sig)
					}
				}
			}
		}
		// defaults for unset options: a constructor called without WithResponseCode answers with its default result
		// code - unwillingToPerform for the general and the modify response, success for bind / extended / search done
		type coded interface {
			gldap.Response
			SetDiagnosticMessage(string)
		}
		for _, variant := range [][]gldap.Option{nil, {gldap.WithMatchedDN("dc=x")}, {gldap.WithApplicationCode(gldap.ApplicationAddResponse)}, {gldap.WithDiagnosticMessage("x"), gldap.WithMatchedDN("")}} {
			for name, mk := range map[string]func() coded{
				"NewResponse":           func() coded { return req.NewResponse(variant...) },
				"NewModifyResponse":     func() coded { return req.NewModifyResponse(variant...) },
				"NewBindResponse":       func() coded { return req.NewBindResponse(variant...) },
				"NewExtendedResponse":   func() coded { return req.NewExtendedResponse(variant...) },
				"NewSearchDoneResponse": func() coded { return req.NewSearchDoneResponse(variant...) },
			} {
				name, mk := name, mk
				if msg, st := catch(func() {
					resp := mk()
					resp.SetDiagnosticMessage("default-probe:" + name)
					_ = w.Write(resp)
				}); msg != "" {
					c16Panic(c, name, msg, st, "no response code option")
				}
			}
		}
		fin := req.NewBindResponse(gldap.WithResponseCode(0))
		fin.SetDiagnosticMessage("battery-done")
		_ = w.Write(fin)
	}
	// the constructors are methods of *Request: run the battery for a request of every operation kind
	kinds := []string{"bind", "search", "modify", "add", "delete", "extended"}
	if c.Quick() {
		kinds = []string{"bind", "search", "extended", "modify"}
	}
	for _, kind := range kinds {
		done = make(chan struct{})
		srv, err := startSrv(SrvCfg{}, func(m *gldap.Mux) {
			m.Bind(battery)
			m.Search(battery)
			m.Modify(battery)
			m.Add(battery)
			m.Delete(battery)
			m.ExtendedOperation(battery, "1.2.3.4")
		})
		if err != nil {
			c.Inconclusive("cannot start server: " + err.Error())
			return
		}
		cl, err := dialRaw(srv.Addr, nil)
		if err != nil {
			c.Inconclusive("dial: " + err.Error())
			return
		}
		var op *sber.Node
		switch kind {
		case "bind":
			op = sber.BindRequest(3, []byte("cn=x"), []byte("p"))
		case "search":
			op = sber.Search{Base: []byte("dc=x"), Scope: 2, Filter: sber.PresentFilter("cn"), Attrs: [][]byte{}}.Node()
		case "modify":
			op = sber.ModifyRequest([]byte("cn=x"), nil)
		case "add":
			op = sber.AddRequest([]byte("cn=x"), nil)
		case "delete":
			op = sber.DelRequest([]byte("cn=x"))
		case "extended":
			op = sber.ExtendedRequest([]byte("1.2.3.4"), nil, false)
		}
		cl.Send(sber.Message(77, op, nil).Encode())
		// drain frames; every one must be a well-formed LDAPMessage with our message ID
		frames := 0
		for {
			m, err := cl.ReadMsg(patience)
			if err != nil {
				c.Inconclusive("reading constructor battery output (" + kind + "): " + err.Error())
				break
			}
			frames++
			if m.ID != 77 {
				c.Violate("response with wrong message ID", fmt.Sprintf("got %d want 77", m.ID), nil)
			}
			if res, err := sber.AsResult(m.Op); err == nil && bytes.Equal(res.Diag, []byte("battery-done")) {
				break
			} else if err == nil && bytes.HasPrefix(res.Diag, []byte("default-probe:")) {
				name := string(res.Diag[len("default-probe:"):])
				want := int64(0)
				if name == "NewResponse" || name == "NewModifyResponse" {
					want = 53
				}
				c.Count("default_result_codes_checked", 1)
				if res.Code != want {
					c.Violate("constructor without WithResponseCode does not answer with its default result code", fmt.Sprintf("%s (on a %s request): result code %d, default is %d", name, kind, res.Code, want), name)
				}
			}
		}
		select {
		case <-done:
		case <-time.After(patience):
			c.Inconclusive("constructor battery did not finish")
		}
		c.Count("response_frames_parsed", int64(frames))
		c.Distinct("calls", "battery-on-"+kind+"-request")
		cl.Close()
		srv.StopWithin(patience)
	}
	c.Sample(map[string]any{"fn": "NewModifyResponse", "options": []string{}, "then": "ResponseWriter.Write", "request_kinds": kinds})
}

func permutations(xs []int) [][]int {
	if len(xs) <= 1 {
		return [][]int{append([]int{}, xs...)}
	}
	var out [][]int
	for i := range xs {
		rest := append(append([]int{}, xs[:i]...), xs[i+1:]...)
		for _, p := range permutations(rest) {
			out = append(out, append([]int{xs[i]}, p...))
		}
	}
	return out
}
