package main

import (
	"bytes"
	"crypto/tls"
	"fmt"
	"io"
	"net"
	"strings"
	"sync"
	"time"

	"github.com/go-ldap/ldap/v3"
	"github.com/jimlambrt/gldap"

	"verif/internal/sber"
)

func init() {
	register(&Check{
		ID: "C13", Level: "exploration", Primary: "sessions", EvalCount: "sessions_checked", RaceIsViolation: false,
		Rule: "one session = a standards-conforming StartTLS upgrade (go-ldap's StartTLS, and a raw client that waits for the response before its ClientHello) through a wiretap proxy recording both directions, " +
			"against a StartTLS handler (registered on the exact-name route, or - every third timing - performed by the default route) with delays in {0,1,5,50ms, and 0.7-3s} before the reply, between the reply and Request.StartTLS, and after it; 1..64 sessions upgrade in parallel, some after an answered bind/search on the still-plain connection whose handler lingers 300ms, some next to (and after) other sessions that take the StartTLS reply and then send garbage, half a ClientHello or nothing - two (every fourth timing: twenty) of them stay like that, open, for as long as the conforming sessions run; some sessions end with an operation gldap does not serve (Compare) sent inside the tunnel; raw-client sessions ask for a streamed answer (one entry, the rest only after the client has seen it); every fourth timing builds the StartTLS reply with the general constructor; every third timing a second server in the process holds upgraded sessions of its own open on connections of the same numbers; after the upgrade a mix of requests " +
			"(go-ldap bind/search/modify, and pipelined concurrent raw requests over the tunnel) is checked with the C01 comparison; one session keeps using the tunnel after several seconds of think time; part of the sessions stay open and idle until the server is stopped, so that shutdown-time bytes are on the wiretap too; after the other sessions of a timing, two sessions whose handler hands a renewed certificate (another CA) to Request.StartTLS - their clients trust that CA only - and one more with the earlier certificate. Wiretap oracle: plaintext LDAP frames up to and including the StartTLS request " +
			"(client->server) / the ExtendedResponse with its message ID (server->client), after which every byte in both directions parses as TLS records (content type 20-23, major version 3, length <= 2^14+2048). " +
			"distinct_nontrivial = distinct (timing triple, client kind, parallelism) combinations whose upgrade completed",
		Assume: []string{"TLS protection is judged on the wire by record framing; the harness does not attempt to decrypt"},
		Phases: func(tier string, seed int64) []Phase {
			return []Phase{{Name: "upgrades", Race: true, Run: c13Run}}
		},
		MinObserved: []string{"sessions_checked", "tls_records_classified", "post_upgrade_requests_compared", "sessions_open_and_idle_at_stop", "upgrades_served_by_the_default_route", "requests_answered_after_think_time", "handshakes_failed_or_abandoned_by_other_sessions", "handshakes_left_pending_while_conforming_sessions_upgrade", "sessions_with_an_answered_request_before_the_upgrade", "rendezvous_inside_the_tunnel_satisfied", "high_volume_sessions_after_upgrade", "plaintext_requests_sent_in_the_same_write_as_starttls", "sessions_whose_first_record_is_not_labelled_3_1", "tunnel_requests_checked_against_the_upgrade_handlers_return", "last_requests_sent_together_with_close_notify", "upgrades_after_a_refused_starttls_request", "upgrades_of_connections_opened_seconds_earlier", "sessions_ended_by_an_unsupported_operation_inside_the_tunnel", "starttls_replies_built_with_the_general_constructor", "streamed_entries_received_while_their_handler_was_waiting", "upgraded_sessions_held_open_on_another_server_of_the_process", "upgrades_performed_with_a_renewed_certificate"},
	})
}

// ---------------------------------------------------------------- wiretap

type tapConn struct {
	mu       sync.Mutex
	c2s, s2c bytes.Buffer
	done     sync.WaitGroup
}

type wiretap struct {
	l      net.Listener
	target string
	mu     sync.Mutex
	conns  []*tapConn
}

func newWiretap(target string) (*wiretap, error) {
	l, err := net.Listen("tcp", "127.0.0.1:0")
	if err != nil {
		return nil, err
	}
	w := &wiretap{l: l, target: target}
	go func() {
		for {
			c, err := l.Accept()
			if err != nil {
				return
			}
			s, err := net.Dial("tcp", target)
			if err != nil {
				c.Close()
				continue
			}
			tc := &tapConn{}
			w.mu.Lock()
			w.conns = append(w.conns, tc)
			w.mu.Unlock()
			tc.done.Add(2)
			pipe := func(dst, src net.Conn, buf *bytes.Buffer) {
				defer tc.done.Done()
				b := make([]byte, 32<<10)
				for {
					n, err := src.Read(b)
					if n > 0 {
						tc.mu.Lock()
						buf.Write(b[:n])
						tc.mu.Unlock()
						if _, werr := dst.Write(b[:n]); werr != nil {
							break
						}
					}
					if err != nil {
						break
					}
				}
				if t, ok := dst.(*net.TCPConn); ok {
					t.CloseWrite()
				}
			}
			go pipe(s, c, &tc.c2s)
			go pipe(c, s, &tc.s2c)
			go func() { tc.done.Wait(); c.Close(); s.Close() }()
		}
	}()
	return w, nil
}

func (w *wiretap) Addr() string { return w.l.Addr().String() }
func (w *wiretap) Close()       { w.l.Close() }

// splitPlainTLS parses plaintext LDAP frames from the front of a recorded
// stream until stop(msg) returns true, then classifies the rest as TLS records.
func splitPlainTLS(stream []byte, stop func(m *sber.Msg) bool) (plainFrames int, records int, tlsBytes int, err error) {
	rest := stream
	found := false
	for len(rest) > 0 {
		n, ferr := sber.FrameLen(rest)
		if ferr != nil || n == 0 || n > len(rest) {
			return plainFrames, 0, 0, fmt.Errorf("plaintext part is not a sequence of whole LDAPMessages (at offset %d: % x)", len(stream)-len(rest), trunc(rest, 16))
		}
		m, perr := sber.ParseMessage(rest[:n])
		if perr != nil {
			return plainFrames, 0, 0, fmt.Errorf("plaintext frame does not parse: %v", perr)
		}
		plainFrames++
		rest = rest[n:]
		if stop(m) {
			found = true
			break
		}
	}
	if !found {
		return plainFrames, 0, 0, fmt.Errorf("the StartTLS request/response was not found in the plaintext part")
	}
	for len(rest) > 0 {
		if len(rest) < 5 {
			return plainFrames, records, tlsBytes, fmt.Errorf("trailing %d bytes are not a TLS record header: % x", len(rest), rest)
		}
		typ, maj, l := rest[0], rest[1], int(rest[3])<<8|int(rest[4])
		if typ < 20 || typ > 23 || maj != 3 || l > 16384+2048 {
			return plainFrames, records, tlsBytes, fmt.Errorf("bytes after the upgrade are not TLS records (record %d: % x)", records, trunc(rest, 16))
		}
		if 5+l > len(rest) {
			return plainFrames, records, tlsBytes, fmt.Errorf("truncated TLS record (%d of %d bytes)", len(rest)-5, l)
		}
		records++
		tlsBytes += 5 + l
		rest = rest[5+l:]
	}
	return plainFrames, records, tlsBytes, nil
}

// ---------------------------------------------------------------- check

type c13Timing struct{ D1, D2, D3 int }

// firstRecordVersion rewrites the record-layer version of the first TLS record the client writes (the ClientHello's
// record may carry any {03,xx} there: RFC 8446 5.1, RFC 5246 E.1 - client stacks differ).
type firstRecordVersion struct {
	net.Conn
	minor byte
	done  bool
}

// corkConn holds back what is written while it is corked and sends it in ONE write when it is closed: a client whose
// last request and close_notify leave in the same segment.
type corkConn struct {
	net.Conn
	mu     sync.Mutex
	corked bool
	held   []byte
}

func (k *corkConn) Write(p []byte) (int, error) {
	k.mu.Lock()
	defer k.mu.Unlock()
	if k.corked {
		k.held = append(k.held, p...)
		return len(p), nil
	}
	return k.Conn.Write(p)
}

func (k *corkConn) Close() error {
	k.mu.Lock()
	if len(k.held) > 0 {
		// (crypto/tls sets the write deadline to "now" once it has written its close_notify)
		k.Conn.SetWriteDeadline(time.Time{})
		k.Conn.Write(k.held)
		k.held = nil
	}
	k.mu.Unlock()
	if t, ok := k.Conn.(*net.TCPConn); ok {
		return t.CloseWrite()
	}
	return k.Conn.Close()
}

func (f *firstRecordVersion) Write(p []byte) (int, error) {
	if !f.done && len(p) >= 5 && p[0] == 0x16 && p[1] == 0x03 {
		f.done = true
		q := append([]byte{}, p...)
		q[2] = f.minor
		return f.Conn.Write(q)
	}
	return f.Conn.Write(p)
}

// c13Wait bounds one upgrade step; two orders of magnitude above what a
// handshake needs here, well below the general patience so that a broken
// upgrade path is reported in reasonable time.
const c13Wait = 12 * time.Second

// c13Renewed is a second, unrelated PKI: what a handler hands to Request.StartTLS after its certificate was renewed.
var c13Renewed *PKI

func c13Run(c *Ctx) {
	pki := newPKI()
	c13Renewed = newPKI()
	delays := []int{0, 1, 5, 50}
	var timings []c13Timing
	for _, a := range delays {
		for _, b := range delays {
			if c.Quick() {
				timings = append(timings, c13Timing{a, b, delays[(a+b)%4]})
				continue
			}
			for _, d := range delays {
				timings = append(timings, c13Timing{a, b, d})
			}
		}
	}
	// handler delays far beyond any plausible internal time-out: the read loop must still not resume
	timings = append(timings, c13Timing{1500, 0, 0}, c13Timing{0, 1500, 0}, c13Timing{700, 700, 0})
	if !c.Quick() {
		timings = append(timings, c13Timing{0, 0, 1500}, c13Timing{3000, 0, 0}, c13Timing{0, 3000, 0}, c13Timing{1100, 1100, 1100})
	}
	pars := []int{1, 4}
	if !c.Quick() {
		pars = []int{1, 8, 64}
	}
	for ti, tm := range timings {
		par := pars[ti%len(pars)]
		c13Timed(c, pki, tm, par, ti)
	}
}

func c13Timed(c *Ctx, pki *PKI, tm c13Timing, par int, ti int) {
	rc := &Recorder{}
	// every third timing lets the DEFAULT route perform the upgrade (a mux without an explicit StartTLS route)
	viaDefault := ti%3 == 2
	var refuseFirst sync.Map // connection id -> true
	var renewedFor sync.Map  // connection id -> true: this connection's upgrade is performed with the renewed configuration
	var upMu sync.Mutex
	upEnter, upExit := map[int]int64{}, map[int]int64{}
	upgrade := func(w *gldap.ResponseWriter, r *gldap.Request) {
		upMu.Lock()
		upEnter[r.ConnectionID()] = nextSeq()
		upMu.Unlock()
		defer func() {
			upMu.Lock()
			upExit[r.ConnectionID()] = nextSeq()
			upMu.Unlock()
		}()
		time.Sleep(time.Duration(tm.D1) * time.Millisecond)
		if _, marked := refuseFirst.LoadAndDelete(r.ConnectionID()); marked {
			// this connection's first StartTLS request is refused (no upgrade); the client may ask again
			w.Write(r.NewExtendedResponse(gldap.WithResponseCode(gldap.ResultUnavailable)))
			return
		}
		var resp gldap.Response
		if ti%4 == 1 {
			// the same answer on the wire, built with the general constructor (how a handler builds it is its business)
			resp = r.NewResponse(gldap.WithApplicationCode(gldap.ApplicationExtendedResponse), gldap.WithResponseCode(gldap.ResultSuccess))
			c.Count("starttls_replies_built_with_the_general_constructor", 1)
		} else {
			er := r.NewExtendedResponse(gldap.WithResponseCode(gldap.ResultSuccess))
			er.SetResponseName(gldap.ExtendedOperationStartTLS)
			resp = er
		}
		if err := w.Write(resp); err != nil {
			return
		}
		time.Sleep(time.Duration(tm.D2) * time.Millisecond)
		cfg := pki.ServerOnly
		if _, marked := renewedFor.LoadAndDelete(r.ConnectionID()); marked {
			cfg = c13Renewed.ServerOnly
		}
		if err := r.StartTLS(cfg); err != nil {
			return
		}
		time.Sleep(time.Duration(tm.D3) * time.Millisecond)
	}
	var rdvMu sync.Mutex
	rdvCh := map[string]chan struct{}{}
	rdvForced := map[string]bool{}
	rdv := func(tag string) chan struct{} {
		rdvMu.Lock()
		defer rdvMu.Unlock()
		if rdvCh[tag] == nil {
			rdvCh[tag] = make(chan struct{})
		}
		return rdvCh[tag]
	}
	srv, err := startSrv(SrvCfg{}, func(m *gldap.Mux) {
		if viaDefault {
			m.DefaultRoute(upgrade)
			c.Count("upgrades_served_by_the_default_route", 1)
		} else {
			m.ExtendedOperation(upgrade, gldap.ExtendedOperationStartTLS)
		}
		// requests named cn=linger...: the handler stays around for a while after its last response
		linger := func(h gldap.HandlerFunc) gldap.HandlerFunc {
			return func(w *gldap.ResponseWriter, r *gldap.Request) {
				name := ""
				if m, err := r.GetSimpleBindMessage(); err == nil {
					name = m.UserName
				} else if m, err := r.GetSearchMessage(); err == nil {
					name = m.BaseDN
				}
				// a rendezvous inside the tunnel: the first request's handler returns only after the second one's has
				// been entered (requests are dispatched concurrently, upgraded or not)
				switch {
				case strings.HasPrefix(name, "cn=rdv-first-"):
					select {
					case <-rdv(strings.TrimPrefix(name, "cn=rdv-first-")):
					case <-time.After(10 * time.Second):
						rdvMu.Lock()
						rdvForced[strings.TrimPrefix(name, "cn=rdv-first-")] = true
						rdvMu.Unlock()
					}
				case strings.HasPrefix(name, "cn=rdv-second-"):
					close(rdv(strings.TrimPrefix(name, "cn=rdv-second-")))
				case strings.HasPrefix(name, "cn=stream-"):
					// a handler that streams: one entry now, the rest when the client - having seen that entry - says so
					e := r.NewSearchResponseEntry(name)
					e.AddAttribute("cn", []string{"first"})
					w.Write(e)
					select {
					case <-rdv(strings.TrimPrefix(name, "cn=")):
					case <-time.After(12 * time.Second):
					}
				}
				h(w, r)
				if strings.HasPrefix(name, "cn=linger") {
					time.Sleep(300 * time.Millisecond)
				}
				if name == "cn=refuse-my-first-starttls" {
					refuseFirst.Store(r.ConnectionID(), true)
				}
				if name == "cn=use-the-renewed-certificate" {
					renewedFor.Store(r.ConnectionID(), true)
				}
			}
		}
		m.Bind(linger(rc.Handler("bind", "")))
		m.Search(linger(rc.Handler("search", "")))
		m.Modify(rc.Handler("modify", ""))
		m.Add(rc.Handler("add", ""))
		m.Delete(rc.Handler("delete", ""))
		m.ExtendedOperation(rc.Handler("ext:"+sber.OIDWhoAmI, sber.OIDWhoAmI), gldap.ExtendedOperationName(sber.OIDWhoAmI))
	})
	if err != nil {
		c.Inconclusive("server start: " + err.Error())
		return
	}
	stopped := false
	defer func() {
		if !stopped {
			srv.StopWithin(patience)
		}
	}()
	tap, err := newWiretap(srv.Addr)
	if err != nil {
		c.Inconclusive("wiretap: " + err.Error())
		return
	}
	defer tap.Close()
	// another server in the same process, with upgraded sessions of its own that stay open for the whole run - on
	// connections that carry the same numbers as ours will (connection numbers are per server)
	if ti%3 == 0 && !c.MuteViolations {
		if other, err := startSrv(SrvCfg{}, func(m *gldap.Mux) {
			m.ExtendedOperation(func(w *gldap.ResponseWriter, r *gldap.Request) {
				w.Write(r.NewExtendedResponse(gldap.WithResponseCode(gldap.ResultSuccess)))
				r.StartTLS(pki.ServerOnly)
			}, gldap.ExtendedOperationStartTLS)
		}); err == nil {
			defer other.StopWithin(patience)
			for k := 0; k < par+24; k++ {
				cn, err := net.Dial("tcp", other.Addr)
				if err != nil {
					break
				}
				defer cn.Close()
				cn.Write(sber.Message(1, sber.ExtendedRequest([]byte(sber.OIDStartTLS), nil, false), nil).Encode())
				if _, err := wrapClient(cn).ReadMsg(c13Wait); err != nil {
					continue
				}
				tc := tls.Client(cn, pki.ClientPlain)
				cn.SetDeadline(time.Now().Add(c13Wait))
				if tc.Handshake() == nil {
					c.Count("upgraded_sessions_held_open_on_another_server_of_the_process", 1)
				}
				cn.SetDeadline(time.Time{})
			}
		}
	}
	var wg sync.WaitGroup
	var mu sync.Mutex
	var sent []*ReqSpec
	upgraded := 0
	// other sessions whose handshake fails or is abandoned after the StartTLS reply (straight to the server: the
	// wiretap judges conforming sessions only): ten before the conforming sessions start, ten next to them. What they
	// leave behind must not matter to anybody else.
	if tm.D1+tm.D2 <= 100 && ti%2 == 0 && !c.MuteViolations {
		hostile := func(k int) {
			cn, err := net.Dial("tcp", srv.Addr)
			if err != nil {
				return
			}
			defer cn.Close()
			cl := wrapClient(cn)
			cl.Send(sber.Message(1, sber.ExtendedRequest([]byte(sber.OIDStartTLS), nil, false), nil).Encode())
			if _, err := cl.ReadMsg(c13Wait); err != nil {
				return
			}
			switch k % 3 {
			case 0:
				cn.Write([]byte("GET / HTTP/1.0\r\n\r\n"))
			case 1:
				cn.Write([]byte{0x16, 0x03, 0x01, 0x00, 0x30, 0x01, 0x00})
			}
			if k%2 == 0 {
				cn.SetReadDeadline(time.Now().Add(300 * time.Millisecond))
				io.Copy(io.Discard, cn)
			}
			c.Count("handshakes_failed_or_abandoned_by_other_sessions", 1)
		}
		for k := 0; k < 10; k++ {
			hostile(k)
		}
		for k := 0; k < 10; k++ {
			wg.Add(1)
			go func(k int) { defer wg.Done(); hostile(k) }(k)
		}
		// ... and two that took the reply and then just sit there (one silent, one after half a ClientHello) for as
		// long as the conforming sessions run: somebody else's unfinished handshake is nobody else's delay
		nPending := 2
		if ti%4 == 0 {
			nPending = 20 // (more than any small per-address allowance an implementation might have)
		}
		for k := 0; k < nPending; k++ {
			cn, err := net.Dial("tcp", srv.Addr)
			if err != nil {
				continue
			}
			cl := wrapClient(cn)
			cl.Send(sber.Message(1, sber.ExtendedRequest([]byte(sber.OIDStartTLS), nil, false), nil).Encode())
			if _, err := cl.ReadMsg(c13Wait); err != nil {
				cn.Close()
				continue
			}
			if k == 1 {
				cn.Write([]byte{0x16, 0x03, 0x01, 0x00, 0x30, 0x01, 0x00})
			}
			c.Count("handshakes_left_pending_while_conforming_sessions_upgrade", 1)
			defer cn.Close()
		}
	}
	// sessions with s%4 == 3 (raw) or s%4 == 2 (go-ldap) stay open and idle until after Stop has been called:
	// whatever the server sends when it shuts down must be TLS-protected too
	holdUntilStop := make(chan struct{})
	var heldOpen sync.WaitGroup
	// a client that does NOT wait: a plaintext bind rides in the same write as the StartTLS request. Whatever becomes of
	// those bytes, they were not sent inside the tunnel and must never be served as if they had been (nor at all once
	// the StartTLS request has been read: the read loop does not resume before the handler returns, and then the
	// connection is a TLS connection).
	smuggled := fmt.Sprintf("cn=smuggled-%d", ti)
	if !c.MuteViolations && tm.D1+tm.D2 <= 100 {
		wg.Add(1)
		go func() {
			defer wg.Done()
			cn, err := net.Dial("tcp", srv.Addr)
			if err != nil {
				return
			}
			defer cn.Close()
			cn.Write(append(sber.Message(1, sber.ExtendedRequest([]byte(sber.OIDStartTLS), nil, false), nil).Encode(),
				sber.Message(77, sber.BindRequest(3, []byte(smuggled), []byte("p")), nil).Encode()...))
			cl := wrapClient(cn)
			if _, err := cl.ReadMsg(c13Wait); err != nil {
				return
			}
			tc := tls.Client(cn, pki.ClientPlain)
			cn.SetDeadline(time.Now().Add(3 * time.Second))
			if tc.Handshake() == nil {
				tcl := wrapClient(tc)
				tcl.Send(sber.Message(78, sber.ExtendedRequest([]byte(sber.OIDWhoAmI), nil, false), nil).Encode())
				for k := 0; k < 3; k++ {
					if _, err := tcl.ReadMsg(500 * time.Millisecond); err != nil {
						break
					}
				}
			}
			c.Count("plaintext_requests_sent_in_the_same_write_as_starttls", 1)
		}()
	}
	// a conforming client whose first StartTLS request is refused and whose second one, on the same connection, is
	// accepted; and (once per run) a client that upgrades a connection it opened several seconds earlier
	conformingLate := func(refusedFirst bool, idle time.Duration) {
		defer wg.Done()
		target := tap.Addr()
		if refusedFirst {
			target = srv.Addr // (not through the wiretap: its oracle takes the FIRST StartTLS request for the upgrade)
		}
		cn, err := net.Dial("tcp", target)
		if err != nil {
			return
		}
		defer cn.Close()
		cl := wrapClient(cn)
		what := fmt.Sprintf("a connection that had been open for %s", idle)
		if refusedFirst {
			what = "a second StartTLS request after a refused one"
			cl.Send(sber.Message(1, sber.BindRequest(3, []byte("cn=refuse-my-first-starttls"), []byte("p")), nil).Encode())
			if _, err := cl.ReadMsg(c13Wait); err != nil {
				return
			}
			cl.Send(sber.Message(2, sber.ExtendedRequest([]byte(sber.OIDStartTLS), nil, false), nil).Encode())
			m, err := cl.ReadMsg(c13Wait)
			if err != nil {
				return
			}
			if res, rerr := sber.AsResult(m.Op); rerr != nil || res.Code == 0 {
				return // the handler did not refuse (harness precondition)
			}
		} else {
			cl.Send(sber.Message(1, sber.BindRequest(3, []byte("cn=x"), []byte("p")), nil).Encode())
			if _, err := cl.ReadMsg(c13Wait); err != nil {
				return
			}
			time.Sleep(idle)
		}
		det := map[string]any{"timing": tm, "session": what}
		cl.Send(sber.Message(3, sber.ExtendedRequest([]byte(sber.OIDStartTLS), nil, false), nil).Encode())
		m, err := cl.ReadMsg(c13Wait)
		if err != nil || m.ID != 3 {
			c.Violate("a conforming StartTLS session failed", fmt.Sprintf("%s: no StartTLS response: %v", what, err), det)
			return
		}
		tc := tls.Client(cn, pki.ClientPlain)
		cn.SetDeadline(time.Now().Add(c13Wait))
		if err := tc.Handshake(); err != nil {
			c.Violate("a conforming StartTLS session failed", fmt.Sprintf("%s: the handshake after the success response failed: %v", what, err), det)
			return
		}
		cn.SetDeadline(time.Time{})
		tcl := wrapClient(tc)
		tcl.Send(sber.Message(4, sber.BindRequest(3, []byte("cn=x"), []byte("p")), nil).Encode())
		if _, err := tcl.ReadMsg(c13Wait); err != nil {
			c.Violate("request inside the tunnel failed", fmt.Sprintf("%s: %v", what, err), det)
			return
		}
		if refusedFirst {
			c.Count("upgrades_after_a_refused_starttls_request", 1)
		} else {
			c.Count("upgrades_of_connections_opened_seconds_earlier", 1)
		}
		tc.Close()
	}
	if !c.MuteViolations && !viaDefault {
		wg.Add(1)
		go conformingLate(true, 0)
		if ti == 1 {
			wg.Add(1)
			go conformingLate(false, time.Duration(c.N(5600, 12000))*time.Millisecond)
		}
	}
	// a TLS 1.2 client whose last request inside the tunnel and whose close_notify leave in one segment (what a client
	// library does on "unbind and close"): the request is served like any other
	lastDN := fmt.Sprintf("cn=last-request-%d", ti)
	lastSent := false
	if !c.MuteViolations && tm.D1+tm.D2+tm.D3 <= 200 {
		wg.Add(1)
		go func() {
			defer wg.Done()
			cn, err := net.Dial("tcp", srv.Addr)
			if err != nil {
				return
			}
			defer cn.Close()
			cl := wrapClient(cn)
			cl.Send(sber.Message(1, sber.ExtendedRequest([]byte(sber.OIDStartTLS), nil, false), nil).Encode())
			if _, err := cl.ReadMsg(c13Wait); err != nil {
				return
			}
			ck := &corkConn{Conn: cn}
			cfg12 := pki.ClientPlain.Clone()
			cfg12.MaxVersion = tls.VersionTLS12
			tc := tls.Client(ck, cfg12)
			cn.SetDeadline(time.Now().Add(c13Wait))
			if tc.Handshake() != nil {
				return
			}
			cn.SetDeadline(time.Time{})
			tcl := wrapClient(tc)
			tcl.Send(sber.Message(2, sber.BindRequest(3, []byte("cn=x"), []byte("p")), nil).Encode())
			if _, err := tcl.ReadMsg(c13Wait); err != nil {
				return
			}
			ck.mu.Lock()
			ck.corked = true
			ck.mu.Unlock()
			tc.Write(sber.Message(3, sber.DelRequest([]byte(lastDN)), nil).Encode())
			tc.Close() // close_notify goes into the cork, then everything leaves in one write, followed by FIN
			mu.Lock()
			lastSent = true
			mu.Unlock()
			cn.SetReadDeadline(time.Now().Add(2 * time.Second))
			io.Copy(io.Discard, cn)
			c.Count("last_requests_sent_together_with_close_notify", 1)
		}()
	}
	for s := 0; s < par; s++ {
		wg.Add(1)
		go func(s int) {
			defer wg.Done()
			r := c.Rng.Sub(fmt.Sprintf("t%d/s%d", ti, s))
			kind := "goldap"
			if s%2 == 1 {
				kind = "raw"
			}
			det := map[string]any{"timing": tm, "client": kind, "parallel": par}
			ok := false
			var tc13 *tls.Conn // the raw-client session's TLS connection, once it exists
			if kind == "goldap" {
				raw, err := net.Dial("tcp", tap.Addr())
				if err != nil {
					c.Inconclusive("go-ldap dial: " + err.Error())
					return
				}
				lc := ldap.NewConn(raw, false)
				lc.Start()
				defer lc.Close()
				lc.SetTimeout(c13Wait)
				if s%4 == 0 && ti%2 == 1 {
					// a request before the upgrade, answered, its handler still lingering when StartTLS arrives
					if err := lc.Bind(fmt.Sprintf("cn=linger-%d-%d", ti, s), "pw"); err != nil {
						c.Inconclusive("bind before the upgrade: " + err.Error())
						return
					}
					c.Count("sessions_with_an_answered_request_before_the_upgrade", 1)
				}
				// go-ldap's handshake has no deadline of its own: bound it by closing the socket
				stErr := make(chan error, 1)
				go func() { stErr <- lc.StartTLS(pki.ClientPlain) }()
				select {
				case err = <-stErr:
				case <-time.After(c13Wait):
					raw.Close()
					err = fmt.Errorf("no completed handshake within %s (%v)", c13Wait, <-stErr)
				}
				if err != nil {
					c.Violate("a conforming StartTLS session failed", fmt.Sprintf("go-ldap StartTLS with handler delays %v: %v", tm, err), det)
					return
				}
				ok = true
				// requests inside the tunnel, through go-ldap
				tag := fmt.Sprintf("cn=goldap-%d-%d", ti, s)
				if err := lc.Bind(tag, "pw"); err != nil {
					c.Violate("request inside the tunnel failed", "bind: "+err.Error(), det)
				}
				if _, err := lc.Search(ldap.NewSearchRequest(tag, 2, 0, 0, 0, false, "(cn=x)", []string{"a"}, nil)); err != nil {
					c.Violate("request inside the tunnel failed", "search: "+err.Error(), det)
				}
			} else {
				cn, err := net.Dial("tcp", tap.Addr())
				if err != nil {
					c.Inconclusive("dial: " + err.Error())
					return
				}
				defer cn.Close()
				cl := wrapClient(cn)
				if s%4 == 1 && ti%2 == 1 {
					// a request before the upgrade, answered, its handler still lingering when StartTLS arrives
					cl.Send(sber.Message(7, sber.Search{Base: []byte(fmt.Sprintf("cn=linger-%d-%d", ti, s)), Scope: 2, Filter: sber.PresentFilter("cn"), Attrs: [][]byte{}}.Node(), nil).Encode())
					for {
						pm, err := cl.ReadMsg(c13Wait)
						if err != nil {
							c.Inconclusive("search before the upgrade: " + err.Error())
							return
						}
						if pm.Op.Tag == sber.AppSearchResultDone {
							break
						}
					}
					c.Count("sessions_with_an_answered_request_before_the_upgrade", 1)
				}
				cl.Send(sber.Message(1, sber.ExtendedRequest([]byte(sber.OIDStartTLS), nil, false), nil).Encode())
				m, err := cl.ReadMsg(c13Wait)
				if err != nil || m.ID != 1 || m.Op.Tag != sber.AppExtendedResponse {
					c.Violate("a conforming StartTLS session failed", fmt.Sprintf("no StartTLS response with handler delays %v: %v", tm, err), det)
					return
				}
				var under net.Conn = cn
				if s%4 == 3 {
					// a client stack that labels its first record 3.3 / 3.2 / 3.0 instead of 3.1
					minor := []byte{3, 2, 0}[ti%3]
					under = &firstRecordVersion{Conn: cn, minor: minor}
					det["first_record_version"] = fmt.Sprintf("3.%d", minor)
					c.Count("sessions_whose_first_record_is_not_labelled_3_1", 1)
				}
				tc := tls.Client(under, pki.ClientPlain)
				cn.SetDeadline(time.Now().Add(c13Wait))
				if err := tc.Handshake(); err != nil {
					c.Violate("a conforming StartTLS session failed", fmt.Sprintf("handshake after the StartTLS response failed with handler delays %v: %v (%v)", tm, err, det["first_record_version"]), det)
					return
				}
				cn.SetDeadline(time.Time{})
				ok = true
				tc13 = tc
				// pipelined concurrent requests inside the tunnel, compared like C01
				tcl := wrapClient(tc)
				n := 4 + r.Intn(8)
				var specs []*ReqSpec
				var all []byte
				for k := 0; k < n; k++ {
					q := genReq(r, pick(r, []string{"bind", "search", "modify", "add", "delete"}))
					q.ID = int64(1000000 + ti*10000 + s*100 + k) // unique across sessions: observations are matched by message ID
					specs = append(specs, q)
					all = append(all, q.Encode()...)
				}
				tcl.Send(all)
				for k := 0; k < n; k++ {
					if _, err := tcl.ReadMsg(patience); err != nil {
						c.Violate("request inside the tunnel failed", fmt.Sprintf("response %d of %d: %v", k, n, err), det)
						break
					}
				}
				mu.Lock()
				sent = append(sent, specs...)
				mu.Unlock()
				// two more requests in one write: the first handler waits for the second to be entered
				if !c.MuteViolations {
					tag := fmt.Sprintf("%d-%d", ti, s)
					search := func(id int64, base string) []byte {
						return sber.Message(id, sber.Search{Base: []byte(base), Scope: 2, Filter: sber.PresentFilter("cn"), Attrs: [][]byte{}}.Node(), nil).Encode()
					}
					tcl.Send(append(search(5000001, "cn=rdv-first-"+tag), search(5000002, "cn=rdv-second-"+tag)...))
					dones := 0
					for dones < 2 {
						pm, err := tcl.ReadMsg(patience)
						if err != nil {
							c.Violate("request inside the tunnel failed", fmt.Sprintf("rendezvous pair: %v", err), det)
							break
						}
						if pm.Op.Tag == sber.AppSearchResultDone {
							dones++
						}
					}
					rdvMu.Lock()
					forced := rdvForced[tag]
					rdvMu.Unlock()
					if forced {
						c.Violate("requests inside the tunnel are not dispatched concurrently", fmt.Sprintf("two requests pipelined after the upgrade (handler delays %v): the second was not handed to its handler within 10s while the first one's handler was waiting for it", tm), det)
					} else if dones == 2 {
						c.Count("rendezvous_inside_the_tunnel_satisfied", 1)
					}
				}
				// a streamed answer: the handler writes one entry and then waits for the client's next request, which the
				// client sends only once it has that entry in hand (own bound 10s, while the harness's handler is waiting)
				if !c.MuteViolations && s%2 == 1 {
					tag := fmt.Sprintf("%d-%d", ti, s)
					search := func(id int64, base string) []byte {
						return sber.Message(id, sber.Search{Base: []byte(base), Scope: 2, Filter: sber.PresentFilter("cn"), Attrs: [][]byte{}}.Node(), nil).Encode()
					}
					tcl.Send(search(5000003, "cn=stream-"+tag))
					pm, err := tcl.ReadMsg(10 * time.Second)
					if err != nil || pm.Op.Tag != sber.AppSearchResultEntry {
						c.Violate("request inside the tunnel failed", fmt.Sprintf("an entry written by a handler that then waits for the client's next request did not reach the client within 10s (handler delays %v): %v", tm, err), det)
					} else {
						c.Count("streamed_entries_received_while_their_handler_was_waiting", 1)
					}
					tcl.Send(search(5000004, "cn=rdv-second-stream-"+tag))
					for dones := 0; dones < 2; {
						pm, err := tcl.ReadMsg(patience)
						if err != nil {
							break
						}
						if pm.Op.Tag == sber.AppSearchResultDone {
							dones++
						}
					}
				}
				// a session that moves a lot of data after the upgrade (one large request, then many small ones)
				if s == 1 && ti%4 == 3 && !c.MuteViolations {
					big := sber.Message(6000000, sber.AddRequest([]byte("cn=big"), []sber.Attr{{Type: []byte("blob"), Vals: [][]byte{bytes.Repeat([]byte("B"), 300<<10)}}}), nil).Encode()
					tcl.Send(big)
					okAll := true
					if _, err := tcl.ReadMsg(patience); err != nil {
						okAll = false
					}
					for k := 0; k < 400 && okAll; k++ {
						tcl.Send(sber.Message(int64(6000001+k), sber.BindRequest(3, bytes.Repeat([]byte("d"), 600), []byte("p")), nil).Encode())
						if _, err := tcl.ReadMsg(patience); err != nil {
							okAll = false
						}
					}
					if !okAll {
						c.Violate("request inside the tunnel failed", fmt.Sprintf("a session that sent 300KiB in one request and 400 further requests after the upgrade stopped being answered (handler delays %v)", tm), det)
					} else {
						c.Count("high_volume_sessions_after_upgrade", 1)
					}
				}
				// think time: a session that stays in use long after the upgrade must keep being answered
				if s == 1 && ti == 1 && !c.MuteViolations {
					pause := time.Duration(c.N(6500, 35000)) * time.Millisecond
					time.Sleep(pause)
					q := genReq(r, "search")
					q.ID = int64(9000000 + ti)
					tcl.Send(q.Encode())
					if _, err := tcl.ReadMsg(c13Wait); err != nil {
						c.Violate("request inside the tunnel failed", fmt.Sprintf("a request sent %s after the upgrade got no answer: %v", pause, err), det)
					} else {
						c.Count("requests_answered_after_think_time", 1)
					}
					mu.Lock()
					sent = append(sent, q)
					mu.Unlock()
				}
			}
			if ok && s%4 == 1 && par > 1 && !c.MuteViolations && tc13 != nil {
				// the session's last act: an operation gldap does not serve (Compare), inside the tunnel. Whatever the
				// server has to say about that - a notice, nothing, the close - it says it inside the tunnel
				tcl := wrapClient(tc13)
				tcl.Send(sber.Message(int64(8000000+ti*100+s), sber.Cons(sber.Application, 14, sber.Str("cn=a"), sber.Seq(sber.Str("a"), sber.Str("b"))), nil).Encode())
				tcl.ReadToEOF(c13Wait)
				c.Count("sessions_ended_by_an_unsupported_operation_inside_the_tunnel", 1)
			}
			if ok {
				mu.Lock()
				upgraded++
				mu.Unlock()
				c.Distinct("sessions", fmt.Sprintf("%v/%s/p%d", tm, kind, par))
				if s%4 >= 2 || par == 1 {
					heldOpen.Add(1)
					wg.Done()
					<-holdUntilStop
					time.Sleep(30 * time.Millisecond) // let the shutdown bytes (if any) cross the wiretap before the client closes
					heldOpen.Done()
					wg.Add(1)
					c.Count("sessions_open_and_idle_at_stop", 1)
				}
			}
		}(s)
	}
	wg.Wait()
	// the configuration a handler hands to Request.StartTLS is the one the handshake is performed with: after every
	// other session of this server, two sessions whose handler presents a renewed certificate (another CA altogether)
	// to clients that trust nothing else - and one more with the old one, to a client that trusts only that
	if !c.MuteViolations {
		for k := 0; k < 3; k++ {
			func() {
				cn, err := net.Dial("tcp", srv.Addr)
				if err != nil {
					return
				}
				defer cn.Close()
				cl := wrapClient(cn)
				dn, trust, what := "cn=use-the-renewed-certificate", c13Renewed.ClientPlain, "a session whose handler hands a renewed certificate (of another CA) to Request.StartTLS"
				if k == 2 {
					dn, trust, what = "cn=x", pki.ClientPlain, "a session whose handler hands the earlier certificate to Request.StartTLS again"
				}
				det := map[string]any{"timing": tm, "session": what}
				cl.Send(sber.Message(1, sber.BindRequest(3, []byte(dn), []byte("p")), nil).Encode())
				if _, err := cl.ReadMsg(c13Wait); err != nil {
					return
				}
				cl.Send(sber.Message(2, sber.ExtendedRequest([]byte(sber.OIDStartTLS), nil, false), nil).Encode())
				m, err := cl.ReadMsg(c13Wait)
				if err != nil || m.ID != 2 {
					c.Violate("a conforming StartTLS session failed", fmt.Sprintf("%s: no StartTLS response: %v", what, err), det)
					return
				}
				tc := tls.Client(cn, trust)
				cn.SetDeadline(time.Now().Add(c13Wait))
				if err := tc.Handshake(); err != nil {
					c.Violate("a conforming StartTLS session failed", fmt.Sprintf("%s, the client trusts that certificate's CA only: the handshake after the success response failed: %v", what, err), det)
					return
				}
				cn.SetDeadline(time.Time{})
				tcl := wrapClient(tc)
				tcl.Send(sber.Message(4, sber.BindRequest(3, []byte("cn=x"), []byte("p")), nil).Encode())
				if _, err := tcl.ReadMsg(c13Wait); err != nil {
					c.Violate("request inside the tunnel failed", fmt.Sprintf("%s: %v", what, err), det)
					return
				}
				if k < 2 {
					c.Count("upgrades_performed_with_a_renewed_certificate", 1)
				}
				tc.Close()
			}()
		}
	}
	// Stop while the held sessions are still open, then let them go
	stopCh := make(chan struct{})
	go func() { srv.S.Stop(); close(stopCh) }()
	time.Sleep(20 * time.Millisecond)
	close(holdUntilStop)
	heldOpen.Wait()
	select {
	case <-stopCh:
	case <-time.After(patience):
		c.Inconclusive("Stop did not return with upgraded sessions open (see C11)")
	}
	stopped = true
	time.Sleep(5 * time.Millisecond)
	// post-upgrade requests: decoded and dispatched exactly as on a plain connection
	byID := map[int64]*Obs{}
	for _, o := range rc.All() {
		byID[o.ID] = o
	}
	if lastSent {
		found := false
		for _, o := range rc.All() {
			if o.Kind == "delete" && string(o.DN) == lastDN {
				found = true
			}
		}
		if !found {
			c.Violate("request inside the tunnel never reached its handler", fmt.Sprintf("a TLS 1.2 session's last request, sent in the same segment as its close_notify, was not served (handler delays %v)", tm), map[string]any{"timing": tm})
		}
	}
	// nothing is dispatched on a connection between the moment its StartTLS handler was entered and the moment it returned
	upMu.Lock()
	for _, o := range rc.All() {
		if en, ok := upEnter[o.ConnID]; ok && o.Seq > en {
			if ex, done := upExit[o.ConnID]; !done || o.Seq < ex {
				c.Violate("a request was dispatched while the connection's StartTLS handler was still running", fmt.Sprintf("%s request (message id %d) entered its handler at stamp %d; the StartTLS handler of that connection ran from %d to %d (handler delays %v)", o.Kind, o.ID, o.Seq, en, upExit[o.ConnID], tm), map[string]any{"timing": tm, "observed": o})
				break
			}
			c.Count("tunnel_requests_checked_against_the_upgrade_handlers_return", 1)
		}
	}
	upMu.Unlock()
	for _, o := range rc.All() {
		if o.Kind == "bind" && string(o.Name) == smuggled {
			c.Violate("plaintext bytes sent behind the StartTLS request were served", fmt.Sprintf("a bind sent in the clear in the same write as the StartTLS request reached the %s handler (handler delays %v)", o.Route, tm), map[string]any{"timing": tm, "observed": o})
		}
	}
	for _, q := range sent {
		o := byID[q.ID]
		if o == nil {
			c.Violate("request inside the tunnel never reached its handler", q.Sig(), map[string]any{"sent": q, "timing": tm})
			continue
		}
		c.Count("post_upgrade_requests_compared", 1)
		if d := compareReq(q, o); len(d) > 0 {
			c.Violate("request inside the tunnel decoded differently from a plain connection", strings.Join(d, "; "), map[string]any{"sent": q, "observed": o})
		}
		if o.Route != q.Kind {
			c.Violate("request inside the tunnel routed differently from a plain connection", fmt.Sprintf("%s request reached route %s", q.Kind, o.Route), nil)
		}
	}
	// wiretap oracle
	tap.mu.Lock()
	conns := append([]*tapConn{}, tap.conns...)
	tap.mu.Unlock()
	for i, tc := range conns {
		done := make(chan struct{})
		go func() { tc.done.Wait(); close(done) }()
		select {
		case <-done:
		case <-time.After(5 * time.Second):
		}
		tc.mu.Lock()
		c2s := append([]byte{}, tc.c2s.Bytes()...)
		s2c := append([]byte{}, tc.s2c.Bytes()...)
		tc.mu.Unlock()
		var startID int64 = -1
		pf, rec1, b1, err := splitPlainTLS(c2s, func(m *sber.Msg) bool {
			if m.Op.Tag == sber.AppExtendedRequest && len(m.Op.Children) > 0 && string(m.Op.Children[0].Content) == sber.OIDStartTLS {
				startID = m.ID
				return true
			}
			return false
		})
		det := map[string]any{"timing": tm, "session": i, "c2s_head": hx(trunc(c2s, 96)), "s2c_head": hx(trunc(s2c, 96))}
		if err != nil {
			c.Violate("client-to-server bytes after StartTLS are not all TLS-protected", err.Error(), det)
			continue
		}
		_, rec2, b2, err := splitPlainTLS(s2c, func(m *sber.Msg) bool { return m.Op.Tag == sber.AppExtendedResponse && m.ID == startID })
		if err != nil {
			c.Violate("server-to-client bytes after the StartTLS response are not all TLS-protected", err.Error(), det)
			continue
		}
		if rec1 == 0 || rec2 == 0 {
			continue // session did not get as far as the handshake (already reported above)
		}
		c.Count("sessions_checked", 1)
		c.Count("tls_records_classified", int64(rec1+rec2))
		c.Count("tls_bytes_classified", int64(b1+b2))
		c.Count("plaintext_frames_before_upgrade", int64(pf))
		if ti == 3 && i == 0 {
			c.Sample(map[string]any{"timing_ms": tm, "c2s_head": hx(trunc(c2s, 48)), "s2c_head": hx(trunc(s2c, 40)), "tls_records_c2s": rec1, "tls_records_s2c": rec2})
		}
	}
	c.Count("upgrades_completed", int64(upgraded))
	_ = io.EOF
}
