// Command verif is the runtime-monitoring driver for the gldap properties
// C01..C20 (see /verif/DESIGN.md).
//
//	verif <ID> quick|thorough [--replay file]      supervisor (what MANIFEST.json calls)
//	verif --child <ID> <tier> <phase> <outfile>    one monitored execution (spawned by the supervisor)
//
// The supervisor never runs gldap code itself: every phase of a check runs in a
// child process so that a crash, fatal error or hang of the system under test
// is an observation (exit status, stderr stack, goroutine dump) rather than
// the end of the monitor.
package main

import (
	"fmt"
	"os"
)

func main() {
	if len(os.Args) >= 2 && os.Args[1] == "--child" {
		childMain(os.Args[2:])
		return
	}
	os.Exit(superMain(os.Args[1:]))
}

func usage() int {
	fmt.Fprintln(os.Stderr, "usage: verif <C01..C20> quick|thorough [--replay file]")
	return 2
}
