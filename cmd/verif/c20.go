package main

import (
	"fmt"
	"sort"
	"strings"

	"github.com/hashicorp/go-hclog"
	"github.com/jimlambrt/gldap"
	"github.com/jimlambrt/gldap/testdirectory"

	"verif/internal/sber"
)

func init() {
	register(&Check{
		ID: "C20", Level: "exploration", Primary: "histories", EvalCount: "steps",
		Rule: "histories of up to 40 operations (every sixth one begins by setting the users to none, adding 5..9 of them one by one and deleting them again, in another order, down to the last) over a pool of 8 user DNs (cn=u<a..h>,ou=people,...) and 4 group DNs (cn=g<a..d>,ou=groups,...) with fixed-width names (no DN is a substring of another), issued by " +
			"1..3 clients strictly one operation at a time: Add (0..4 attributes, 1..3 values), Modify of user entries (add-value on new and existing attributes, delete-attribute - bare, or spelling out all the values the attribute has -, replace of an existing attribute, several " +
			"changes per request - now and then none at all -, multi-valued), Add and Delete of 4 further DNs below the groups base (cn=h<a..d>,ou=groups,..., read back by a search based at the entry's own DN), values of 127..70000 bytes now and then, Delete (users and groups, present and missing), Search (people base with (cn=X); base = entry DN; groups base), SetUsers/SetGroups (model reset with fresh objects, or with entries built by the library's own NewUsers(WithMembersOf) helper, which shares one memberOf slice between all users), and searches with unusual parameters (typesOnly, limits, attribute lists) whose results are not asserted but which must not change the store. " +
			"A reference model (DN -> attribute -> values) is stepped alongside; after every mutating step the affected entry and one other pool entry are searched and compared, and at the end of each history every pool DN. " +
			"Values added through add-value modifications may read back plain or BER-wrapped (a well-formed octet string, judged by the harness's own parser); values set through Add, Set* and replace must read back plainly. The user pool has two DNs with a shared parenthesised remark and one written with a blank after its first comma, the group pool one DN outside the groups base; an attribute returned twice in one entry is a violation; 30% of the people searches write their base in another case; fill-and-drain histories begin by deleting a group while there is no user; every history ends with a listing of the people base (filter (ou=people), every second time written as the compound filter (|(ou=people)(description=<a long value nothing has>))) that must return every user of the model once and nothing else. distinct_nontrivial = distinct operation-kind sequences (histories) containing at least one mutation followed by a search",
		Assume: []string{"not asserted (the statement is silent): modify of group entries, add of a DN that exists as a group, replace of a missing attribute, the result code of an empty search, attribute order within an entry"},
		Phases: func(tier string, seed int64) []Phase {
			return []Phase{{Name: "histories-plain", Run: func(c *Ctx) { c20Run(c, "plain") }}, {Name: "histories-tls", Run: func(c *Ctx) { c20Run(c, "tls") }}}
		},
		MinObserved: []string{"steps", "searches_compared", "op/add", "op/modify", "op/delete", "op/set", "searches_with_odd_parameters", "searches_based_at_a_dn_below_the_groups_base", "searches_for_dns_with_parentheses", "setusers_with_the_same_objects_again", "histories_steps_with_token_groups_configured", "modifies_without_changes_of_a_missing_entry", "delete_attribute_changes_that_list_all_the_values", "fill_and_drain_histories", "groups_deleted_while_there_was_no_user", "listings_of_the_people_base_with_several_users", "people_searches_whose_base_is_written_in_another_case", "listings_of_the_people_base_with_a_compound_filter"},
	})
}

const (
	c20People = "ou=people,dc=example,dc=org"
	c20Groups = "ou=groups,dc=example,dc=org"
)

type c20Entry struct {
	Attrs map[string][]string
	// Wrapped[name][i]: value i of the attribute came from an add-value modification, which this directory stores as
	// received (BER-wrapped); everything else (Add, Set*, replace) must read back plainly
	Wrapped map[string][]bool
}

type c20Model struct {
	Users  map[string]*c20Entry
	Groups map[string]*c20Entry
}

// c20NUsers: eight plain names and two with a parenthesised remark (legal in a DN; they share the remark, yet no DN is
// a substring of another)
// ... and one whose DN is written with a blank after the first comma (the directory keys its entries by the DN as written)
const c20NUsers = 11

func c20UserCN(i int) string {
	if i >= 8 && i < 10 {
		return fmt.Sprintf("u%c (ops)", 'a'+i)
	}
	return fmt.Sprintf("u%c", 'a'+i)
}
func c20UserDN(i int) string {
	if i == 10 {
		return fmt.Sprintf("cn=%s, %s", c20UserCN(i), c20People)
	}
	return fmt.Sprintf("cn=%s,%s", c20UserCN(i), c20People)
}

// c20NGroups: four groups below the groups base and one that SetGroups puts elsewhere in the tree (what list an entry
// is in is decided by the Set* call, not by its DN)
const c20NGroups = 5

func c20GroupDN(i int) string {
	if i == 4 {
		return "cn=ge,ou=roles,dc=example,dc=org"
	}
	return fmt.Sprintf("cn=g%c,%s", 'a'+i, c20Groups)
}

var c20AttrNames = []string{"mail", "description", "sn", "telephoneNumber", "title", "memberOf", "email"}

func c20Vals(r *Rand, n int) []string {
	var out []string
	for i := 0; i < n; i++ {
		v := fmt.Sprintf("v%d-%d", r.Intn(1000), i)
		if r.Chance(12) { // values around and beyond the one-octet BER length forms
			v += strings.Repeat("x", pick(r, []int{127, 128, 129, 255, 256, 300, 1000, 65535, 65536, 70000})-len(v))
			if len(v) > 60000 && !r.Chance(10) {
				v = v[:200]
			}
		}
		out = append(out, v)
	}
	return out
}

// c20HDN: DNs below the groups base that are only ever created through LDAP Add requests.
func c20HDN(i int) string { return fmt.Sprintf("cn=h%c,%s", 'a'+i, c20Groups) }

func (m *c20Model) entries(users bool) []*gldap.Entry {
	src := m.Groups
	if users {
		src = m.Users
	}
	var dns []string
	for dn := range src {
		dns = append(dns, dn)
	}
	sort.Strings(dns)
	out := []*gldap.Entry{}
	for _, dn := range dns {
		attrs := map[string][]string{}
		for k, v := range src[dn].Attrs {
			attrs[k] = append([]string{}, v...) // fresh slices: the harness shares no memory with the directory
		}
		out = append(out, gldap.NewEntry(dn, attrs))
	}
	return out
}

// valuesMatch: each observed value equals the model value plainly or after ConvertString.
func c20ValuesMatch(model, got []string, mayBeWrapped []bool) bool {
	if len(model) != len(got) {
		return false
	}
	for i := range model {
		if got[i] == model[i] {
			continue
		}
		if i >= len(mayBeWrapped) || !mayBeWrapped[i] {
			return false
		}
		// BER-wrapped: a well-formed universal octet string (strict, independent parser) whose content is the value
		n, err := sber.ParseAll([]byte(got[i]))
		if err != nil || !n.Is(sber.Universal, false, sber.TagOctetString) || string(n.Content) != model[i] {
			return false
		}
	}
	return true
}

type c20Client struct {
	cl *Client
	id int64
}

func (k *c20Client) roundTrip(op *sber.Node, wantTag int) (*sber.Result, []*sber.Entry, error) {
	k.id++
	if err := k.cl.Send(sber.Message(k.id, op, nil).Encode()); err != nil {
		return nil, nil, err
	}
	var entries []*sber.Entry
	for {
		m, err := k.cl.ReadMsg(patience)
		if err != nil {
			return nil, nil, err
		}
		if m.ID != k.id {
			return nil, nil, fmt.Errorf("response for message id %d, want %d", m.ID, k.id)
		}
		if m.Op.Tag == sber.AppSearchResultEntry && wantTag == sber.AppSearchResultDone {
			e, err := sber.AsEntry(m.Op)
			if err != nil {
				return nil, nil, err
			}
			entries = append(entries, e)
			continue
		}
		if m.Op.Tag != wantTag {
			return nil, nil, fmt.Errorf("response tag %d, want %d", m.Op.Tag, wantTag)
		}
		res, err := sber.AsResult(m.Op)
		return res, entries, err
	}
}

func c20Run(c *Ctx, transport string) {
	td, addr, err := startDirectory(transport)
	if err != nil {
		c.Inconclusive(err.Error())
		return
	}
	defer td.Stop()
	nh := c.N(250, 12000)
	if transport == "tls" {
		nh = c.N(50, 2000)
	}
	var clients []*c20Client
	for i := 0; i < 3; i++ {
		cl, err := dirDial(addr, transport)
		if err != nil {
			c.Inconclusive("dial: " + err.Error())
			return
		}
		defer cl.Close()
		clients = append(clients, &c20Client{cl: cl})
	}
	for h := 0; h < nh; h++ {
		r := c.Rng.Sub(fmt.Sprintf("h%d", h))
		if !c20History(c, td, clients[:1+r.Intn(3)], r, transport, h) {
			return
		}
	}
}

func c20History(c *Ctx, td interface {
	SetUsers(...*gldap.Entry)
	SetGroups(...*gldap.Entry)
	SetTokenGroups(map[string][]*gldap.Entry)
}, clients []*c20Client, r *Rand, transport string, h int) bool {
	model := &c20Model{Users: map[string]*c20Entry{}, Groups: map[string]*c20Entry{}}
	useHelpers := r.Chance(35)
	var lastSet []*c20Entry
	var lastSetObjs []*gldap.Entry
	tlog, _ := testdirectory.NewLogger(hclog.New(&hclog.LoggerOptions{Level: hclog.Off}))
	reset := func() {
		model.Users, model.Groups = map[string]*c20Entry{}, map[string]*c20Entry{}
		for i := 0; i < c20NUsers; i++ {
			if r.Chance(45) && !(useHelpers && i >= 8) {
				e := &c20Entry{Attrs: map[string][]string{"cn": {c20UserCN(i)}}}
				for _, a := range c20AttrNames {
					if r.Chance(40) {
						e.Attrs[a] = c20Vals(r, 1+r.Intn(3))
					}
				}
				model.Users[c20UserDN(i)] = e
			}
		}
		for i := 0; i < c20NGroups; i++ {
			if r.Chance(50) {
				model.Groups[c20GroupDN(i)] = &c20Entry{Attrs: map[string][]string{"member": {c20UserDN(r.Intn(c20NUsers))}}}
			}
		}
		lastSet, lastSetObjs = nil, nil
		if useHelpers {
			// entries built by the library's own helpers: testdirectory.NewUsers(WithMembersOf) hands the SAME
			// memberOf slice to every user - the store must still treat the entries as independent
			var names []string
			for i := 0; i < 8; i++ {
				if _, ok := model.Users[c20UserDN(i)]; ok {
					names = append(names, fmt.Sprintf("u%c", 'a'+i))
				}
			}
			memberOf := testdirectory.NewMemberOf(tlog, []string{"ga", "gb", "gc"})
			users := testdirectory.NewUsers(tlog, names, testdirectory.WithMembersOf(tlog, memberOf...))
			for _, u := range users {
				e := &c20Entry{Attrs: map[string][]string{}}
				for _, a := range u.Attributes {
					e.Attrs[a.Name] = append([]string{}, a.Values...)
				}
				model.Users[u.DN] = e
			}
			td.SetUsers(users...)
		} else {
			objs := model.entries(true)
			for _, o := range objs {
				lastSet = append(lastSet, model.Users[o.DN])
				lastSetObjs = append(lastSetObjs, o)
			}
			td.SetUsers(objs...)
		}
		td.SetGroups(model.entries(false)...)
		// token groups (an unrelated feature of the directory) are configured in some histories: they have their own
		// kind of search and must leave every other search alone
		if r.Chance(40) {
			td.SetTokenGroups(map[string][]*gldap.Entry{"S-1-5-21-1": {gldap.NewEntry("cn=tg,ou=groups,dc=example,dc=org", map[string][]string{"cn": {"tg"}})}})
			c.Count("histories_steps_with_token_groups_configured", 1)
		} else {
			td.SetTokenGroups(nil)
		}
	}
	reset()
	// reSet hands the directory the SAME entry objects as the last SetUsers call did. The directory's contents are shared
	// with the caller through Set* (the objects ARE the store), so every modification made since then is in them;
	// entries added through LDAP since then are gone, entries deleted through LDAP are back as they were when deleted.
	reSet := func() bool {
		if len(lastSetObjs) == 0 {
			return false
		}
		// (a copy of the slice: the directory keeps the slice it is given and edits it in place on Add and Delete)
		td.SetUsers(append([]*gldap.Entry{}, lastSetObjs...)...)
		model.Users = map[string]*c20Entry{}
		for i, o := range lastSetObjs {
			model.Users[o.DN] = lastSet[i]
		}
		return true
	}
	var trace []string
	fail := func(key, what string) {
		c.Violate(key, fmt.Sprintf("[%s] history %d step %d: %s", transport, h, len(trace), what), map[string]any{"history": trace, "seed_stream": fmt.Sprintf("h%d", h)})
	}
	// verify searches one DN through the appropriate route and compares with the model
	const sizeLimitNote = "single-entry lookups carry a size limit of 0, 1 or 1000 (a limit that is not exceeded changes nothing)"
	verify := func(k *c20Client, dn string) bool {
		limit := int64([]int{0, 1, 1000}[r.Intn(3)])
		cn := dn[:strings.IndexByte(dn, ',')]
		addedBelowGroups := strings.HasSuffix(dn, c20Groups) && strings.HasPrefix(cn, "cn=h")
		outOfBase := strings.HasPrefix(cn, "cn=g") && !strings.HasSuffix(dn, c20Groups)
		isGroup := strings.HasPrefix(cn, "cn=g") && !addedBelowGroups
		var op *sber.Node
		mode := "people-filter"
		switch {
		case addedBelowGroups || outOfBase || isGroup && r.Chance(35):
			// read the entry by its own DN (the filter names its RDN, which is what this directory matches on)
			mode = "base-is-entry-dn-below-groups"
			op = sber.Search{Base: []byte(dn), Scope: 0, Filter: sber.EqFilter("cn", cn[3:]), Attrs: [][]byte{}, SizeLimit: limit}.Node()
			c.Count("searches_based_at_a_dn_below_the_groups_base", 1)
		case strings.Contains(dn, "("):
			// a DN with parentheses: read by its own DN (filter text would carry them escaped)
			mode = "base-is-entry-dn"
			op = sber.Search{Base: []byte(dn), Scope: 0, Filter: sber.PresentFilter("objectClass"), Attrs: [][]byte{}, SizeLimit: limit}.Node()
			c.Count("searches_for_dns_with_parentheses", 1)
		case isGroup:
			mode = "groups-filter"
			op = sber.Search{Base: []byte(c20Groups), Scope: 2, Filter: sber.EqFilter("cn", cn[3:]), Attrs: [][]byte{}, SizeLimit: limit}.Node()
		case r.Bool():
			base := c20People
			if r.Chance(30) {
				// the people base written the way another client writes it (search routes match their base whatever the case)
				base = pick(r, []string{"OU=People,DC=Example,DC=Org", "ou=People,dc=example,dc=org", "OU=PEOPLE,DC=EXAMPLE,DC=ORG"})
				mode = "people-filter-base-in-another-case"
				c.Count("people_searches_whose_base_is_written_in_another_case", 1)
			}
			op = sber.Search{Base: []byte(base), Scope: 2, Filter: sber.EqFilter("cn", cn[3:]), Attrs: [][]byte{}, SizeLimit: limit}.Node()
		default:
			mode = "base-is-entry-dn"
			op = sber.Search{Base: []byte(dn), Scope: 0, Filter: sber.PresentFilter("objectClass"), Attrs: [][]byte{}, SizeLimit: limit}.Node()
		}
		res, entries, err := k.roundTrip(op, sber.AppSearchResultDone)
		if err != nil {
			fail("search got no well-formed answer", err.Error())
			return false
		}
		c.Count("searches_compared", 1)
		if len(entries) > 0 && res.Code != 0 {
			// (the result code of an EMPTY search is not asserted; one that returns the entry has succeeded)
			fail("a search that returns its entry does not end with success", fmt.Sprintf("%s (%s): %d entries, result code %d", dn, mode, len(entries), res.Code))
		}
		_ = sizeLimitNote
		var me *c20Entry
		if isGroup {
			me = model.Groups[dn]
		} else {
			me = model.Users[dn]
		}
		var found *sber.Entry
		for _, e := range entries {
			if string(e.DN) == dn {
				if found != nil {
					fail("search returns an entry twice", dn)
				}
				found = e
			} else {
				fail("search returns an entry that does not match", fmt.Sprintf("searched %s (%s), got %s", dn, mode, e.DN))
			}
		}
		switch {
		case me == nil && found != nil:
			fail("a deleted or never-added entry is still found", fmt.Sprintf("%s (%s)", dn, mode))
		case me != nil && found == nil:
			fail("an existing entry is not found by a search", fmt.Sprintf("%s (%s)", dn, mode))
		case me != nil:
			got := map[string][]string{}
			for _, a := range found.Attrs {
				if _, dup := got[string(a.Type)]; dup {
					fail("a search does not reflect the entry's attributes", fmt.Sprintf("%s: attribute %q is returned twice in one entry (the model has it once)", dn, a.Type))
				}
				got[string(a.Type)] = append(got[string(a.Type)], bytesToStrs(a.Vals)...)
			}
			for name, vals := range me.Attrs {
				if !c20ValuesMatch(vals, got[name], me.Wrapped[name]) {
					fail("a search does not reflect the entry's attributes", fmt.Sprintf("%s attribute %q: model %q, search returned %q", dn, name, vals, got[name]))
				}
			}
			for name := range got {
				if _, ok := me.Attrs[name]; !ok {
					fail("a search does not reflect the entry's attributes", fmt.Sprintf("%s has attribute %q which the model does not have", dn, name))
				}
			}
		}
		return true
	}
	steps := 5 + r.Intn(36)
	mutated := false
	var kinds []string
	// every sixth history begins as a fill-and-drain: the users are set to none, 5..9 pool users are added one after the
	// other and then deleted again, in another order, down to the last one (every step verified like any other)
	type planned struct {
		op  int
		dn  string
		grp bool
	}
	var plan []planned
	if h%6 == 3 {
		td.SetUsers()
		model.Users = map[string]*c20Entry{}
		lastSet, lastSetObjs = nil, nil
		n := 5 + r.Intn(5)
		for _, i := range r.Perm(c20NUsers)[:n] {
			plan = append(plan, planned{0, c20UserDN(i), false})
		}
		for _, j := range r.Perm(n)[:n-1] {
			plan = append(plan, planned{6, plan[j].dn, false})
		}
		// ... and while there is no user at all, a group is deleted (what list an entry is in does not depend on the other list)
		for i := 0; i < c20NGroups; i++ {
			if _, ok := model.Groups[c20GroupDN(i)]; ok {
				plan = append([]planned{{6, c20GroupDN(i), true}}, plan...)
				c.Count("groups_deleted_while_there_was_no_user", 1)
				break
			}
		}
		steps = len(plan) + r.Intn(6)
		c.Count("fill_and_drain_histories", 1)
	}
	for s := 0; s < steps; s++ {
		k := clients[r.Intn(len(clients))]
		c.Count("steps", 1)
		opc, forcedDN, forcedGrp := r.Intn(10), "", false
		if s < len(plan) {
			opc, forcedDN, forcedGrp = plan[s].op, plan[s].dn, plan[s].grp
		}
		switch opc {
		case 0, 1, 2: // add
			dn := c20UserDN(r.Intn(c20NUsers))
			if r.Chance(20) {
				dn = c20HDN(r.Intn(4)) // an entry below the groups base, created by an Add request
			}
			if forcedDN != "" {
				dn = forcedDN
			}
			var attrs []sber.Attr
			ma := map[string][]string{}
			names := r.Perm(len(c20AttrNames))
			for i, n := 0, r.Intn(5); i < n; i++ {
				vals := c20Vals(r, 1+r.Intn(3))
				ma[c20AttrNames[names[i]]] = vals
				attrs = append(attrs, sber.Attr{Type: []byte(c20AttrNames[names[i]]), Vals: strsToBytes(vals)})
			}
			trace = append(trace, fmt.Sprintf("add %s %v", dn, ma))
			kinds = append(kinds, "A")
			c.Count("op/add", 1)
			res, _, err := k.roundTrip(sber.AddRequest([]byte(dn), attrs), sber.AppAddResponse)
			if err != nil {
				fail("add got no well-formed answer", err.Error())
				return false
			}
			if _, exists := model.Users[dn]; exists {
				if res.Code != 68 {
					fail("adding an existing user DN did not fail with entryAlreadyExists", fmt.Sprintf("%s: result %d", dn, res.Code))
				}
			} else {
				if res.Code != 0 {
					fail("adding a new entry failed", fmt.Sprintf("%s: result %d", dn, res.Code))
				} else {
					model.Users[dn] = &c20Entry{Attrs: ma}
				}
			}
			mutated = true
			if !verify(k, dn) || !verify(k, c20UserDN(r.Intn(c20NUsers))) {
				return false
			}
		case 3, 4, 5: // modify a user entry
			dn := c20UserDN(r.Intn(c20NUsers))
			me := model.Users[dn]
			var changes []sber.Change
			var desc []string
			// plan against a scratch copy so that several changes in one request compose
			scratch := map[string][]string{}
			wrapped := map[string][]bool{}
			if me != nil {
				for n, v := range me.Attrs {
					scratch[n] = append([]string{}, v...)
					wrapped[n] = append(make([]bool, 0, len(v)), me.Wrapped[n]...)
					for len(wrapped[n]) < len(v) {
						wrapped[n] = append(wrapped[n], false)
					}
				}
			}
			nch := 1 + r.Intn(3)
			if r.Chance(8) {
				nch = 0 // a Modify without changes: valid, changes nothing, and still needs its entry to exist
			}
			for i, n := 0, nch; i < n; i++ {
				name := pick(r, c20AttrNames)
				_, has := scratch[name]
				switch r.Intn(3) {
				case 0: // add-value (new or existing attribute)
					vals := c20Vals(r, 1+r.Intn(3))
					changes = append(changes, sber.Change{Op: 0, Attr: sber.Attr{Type: []byte(name), Vals: strsToBytes(vals)}})
					for len(wrapped[name]) < len(scratch[name]) {
						wrapped[name] = append(wrapped[name], false)
					}
					scratch[name] = append(scratch[name], vals...)
					for range vals {
						wrapped[name] = append(wrapped[name], true)
					}
					desc = append(desc, fmt.Sprintf("add-value %s %v", name, vals))
				case 1: // delete-attribute
					var listed [][]byte
					anyWrapped := false
					for _, w := range wrapped[name] {
						anyWrapped = anyWrapped || w
					}
					if has && !anyWrapped && len(scratch[name]) > 0 && r.Chance(40) {
						// the request spells out every value the attribute has (values stored by Add, Set* or replace: plain
						// strings): under any reading of "delete" the attribute is gone afterwards
						listed = strsToBytes(scratch[name])
						c.Count("delete_attribute_changes_that_list_all_the_values", 1)
					}
					changes = append(changes, sber.Change{Op: 1, Attr: sber.Attr{Type: []byte(name), Vals: listed}})
					delete(scratch, name)
					delete(wrapped, name)
					desc = append(desc, "delete-attribute "+name)
				case 2: // replace (existing attributes only)
					if !has {
						continue
					}
					vals := c20Vals(r, 1+r.Intn(3))
					changes = append(changes, sber.Change{Op: 2, Attr: sber.Attr{Type: []byte(name), Vals: strsToBytes(vals)}})
					scratch[name] = vals
					delete(wrapped, name)
					desc = append(desc, fmt.Sprintf("replace %s %v", name, vals))
				}
			}
			if len(changes) == 0 {
				c.Count("modifies_without_changes", 1)
				if me == nil {
					c.Count("modifies_without_changes_of_a_missing_entry", 1)
				}
			}
			trace = append(trace, fmt.Sprintf("modify %s %v", dn, desc))
			kinds = append(kinds, "M")
			c.Count("op/modify", 1)
			res, _, err := k.roundTrip(sber.ModifyRequest([]byte(dn), changes), sber.AppModifyResponse)
			if err != nil {
				fail("modify got no well-formed answer", err.Error())
				return false
			}
			if me == nil {
				if res.Code != 32 {
					fail("modifying a missing entry did not return noSuchObject", fmt.Sprintf("%s: result %d", dn, res.Code))
				}
			} else {
				if res.Code != 0 {
					fail("modifying an existing user entry failed", fmt.Sprintf("%s: result %d", dn, res.Code))
				} else {
					me.Attrs, me.Wrapped = scratch, wrapped
				}
			}
			mutated = true
			if !verify(k, dn) || !verify(k, c20UserDN(r.Intn(c20NUsers))) {
				return false
			}
		case 6, 7: // delete
			var dn string
			isGroup := r.Chance(30)
			if isGroup {
				dn = c20GroupDN(r.Intn(c20NGroups))
			} else if r.Chance(20) {
				dn = c20HDN(r.Intn(4))
			} else {
				dn = c20UserDN(r.Intn(c20NUsers))
			}
			if forcedDN != "" {
				dn, isGroup = forcedDN, forcedGrp
			}
			trace = append(trace, "delete "+dn)
			kinds = append(kinds, "D")
			c.Count("op/delete", 1)
			res, _, err := k.roundTrip(sber.DelRequest([]byte(dn)), sber.AppDelResponse)
			if err != nil {
				fail("delete got no well-formed answer", err.Error())
				return false
			}
			src := model.Users
			if isGroup {
				src = model.Groups
			}
			if _, ok := src[dn]; ok {
				if res.Code != 0 {
					fail("deleting an existing entry failed", fmt.Sprintf("%s: result %d", dn, res.Code))
				} else {
					delete(src, dn)
				}
			} else if res.Code != 32 {
				fail("deleting a missing entry did not return noSuchObject", fmt.Sprintf("%s: result %d", dn, res.Code))
			}
			mutated = true
			other := c20UserDN(r.Intn(c20NUsers))
			if isGroup {
				other = c20GroupDN(r.Intn(c20NGroups))
			}
			if !verify(k, dn) || !verify(k, other) {
				return false
			}
		case 8: // search only
			if r.Chance(50) {
				// a search with unusual parameters (typesOnly, limits, attribute selection): what it returns is not
				// asserted (the statement is silent), but it is a READ - every later search must still reflect the store
				base := pick(r, []string{c20People, c20Groups, c20UserDN(r.Intn(c20NUsers))})
				op := sber.Search{Base: []byte(base), Scope: int64(r.Intn(3)), Deref: int64(r.Intn(4)), SizeLimit: int64(r.Intn(3)), TimeLimit: int64(r.Intn(3)),
					TypesOnly: r.Bool(), Filter: sber.EqFilter("cn", pick(r, []string{"u", "g", "ua", "zz"})), Attrs: [][]byte{[]byte("cn"), []byte("mail")}}.Node()
				trace = append(trace, fmt.Sprintf("search with odd parameters on %s", base))
				kinds = append(kinds, "s")
				c.Count("searches_with_odd_parameters", 1)
				if _, _, err := k.roundTrip(op, sber.AppSearchResultDone); err != nil {
					fail("search got no well-formed answer", err.Error())
					return false
				}
				if !verify(k, c20UserDN(r.Intn(c20NUsers))) || !verify(k, c20GroupDN(r.Intn(c20NGroups))) {
					return false
				}
				continue
			}
			trace = append(trace, "search")
			kinds = append(kinds, "S")
			dn := c20UserDN(r.Intn(c20NUsers))
			if r.Chance(25) {
				dn = c20GroupDN(r.Intn(c20NGroups))
			}
			if !verify(k, dn) {
				return false
			}
		case 9: // Set*: the model is reset with fresh objects - or the same objects are handed over once more
			if r.Chance(40) && reSet() {
				trace = append(trace, "SetUsers with the same entry objects as last time")
				kinds = append(kinds, "r")
				c.Count("op/set", 1)
				c.Count("setusers_with_the_same_objects_again", 1)
				mutated = true
				for i := 0; i < c20NUsers; i++ {
					if !verify(k, c20UserDN(i)) {
						return false
					}
				}
				continue
			}
			trace = append(trace, "SetUsers/SetGroups (reset)")
			kinds = append(kinds, "R")
			c.Count("op/set", 1)
			reset()
			mutated = true
		}
	}
	// end of history: every pool DN
	k := clients[0]
	for i := 0; i < c20NUsers; i++ {
		if !verify(k, c20UserDN(i)) {
			return false
		}
	}
	for i := 0; i < c20NGroups; i++ {
		if !verify(k, c20GroupDN(i)) || (i < 4 && !verify(k, c20HDN(i))) {
			return false
		}
	}
	// ... and the people base listed as a whole: a filter that names something every user DN contains returns every
	// user there is, each once (the directory matches a filter element against the DN)
	{
		listFilter := sber.EqFilter("ou", "people")
		if h%2 == 1 {
			// every second listing writes the same question as a compound filter: (|(ou=people)(description=<nothing has this>))
			listFilter = sber.Cons(sber.Context, 1, sber.EqFilter("ou", "people"), sber.EqFilter("description", "nobody-carries-this-description-anywhere-below-the-people-base-of-this-directory"))
			c.Count("listings_of_the_people_base_with_a_compound_filter", 1)
		}
		res, entries, err := k.roundTrip(sber.Search{Base: []byte(c20People), Scope: 2, Filter: listFilter, Attrs: [][]byte{}}.Node(), sber.AppSearchResultDone)
		if err != nil {
			fail("search got no well-formed answer", err.Error())
			return false
		}
		_ = res
		seen := map[string]int{}
		for _, e := range entries {
			seen[string(e.DN)]++
		}
		listed := 0
		for dn := range model.Users {
			if !strings.Contains(dn, "ou=people") {
				continue // (an entry added below the groups base is kept with the users, but the filter does not name it)
			}
			listed++
			if seen[dn] != 1 {
				fail("an existing entry is not found by a search", fmt.Sprintf("%s: returned %d times by a search of the people base with the filter (ou=people), which lists %d entries (the model has %d users)", dn, seen[dn], len(entries), len(model.Users)))
				break
			}
		}
		for dn := range seen {
			if _, ok := model.Users[dn]; !ok {
				fail("a deleted or never-added entry is still found", fmt.Sprintf("%s is listed by a search of the people base with the filter (ou=people)", dn))
				break
			}
		}
		if listed > 1 {
			c.Count("listings_of_the_people_base_with_several_users", 1)
		}
	}
	if mutated {
		c.Distinct("histories", strings.Join(kinds, ""))
	}
	if h < 2 {
		c.Sample(map[string]any{"transport": transport, "clients": len(clients), "history": trace})
	}
	return true
}
