package main

import (
	"bytes"
	"crypto/tls"
	"fmt"
	"net"
	"strings"
	"sync"
	"sync/atomic"
	"time"

	"github.com/hashicorp/go-hclog"
	"github.com/jimlambrt/gldap"

	"verif/internal/sber"
)

func init() {
	register(&Check{
		ID: "C10", Level: "exploration", Primary: "pipelines", EvalCount: "pipelines_checked",
		Rule: "pipelines <k requests> Unbind <m requests> for all k,m in 0..3 (0..8 in thorough) x {whole pipeline in one write (same TCP segment), one write per frame, byte-dribbled} x {no unbind route, unbind route registered, unbind route whose handler panics} x " +
			"{earlier handlers finished, earlier handlers parked on a harness gate (also 63..300 of them at once), an earlier handler that panicked and was recovered} x Unbind message IDs {555, 0, 1, 99, 2^31-1} x {plain, TLS listener, StartTLS-upgraded}; the requests after the Unbind include every operation kind and a second Unbind; the parked handlers are search handlers or (every third case) bind handlers; two in five Unbinds carry controls (ManageDsaIT, a paging control with an empty value, an unknown critical one next to a password-expiry warning that is not a number). Oracle: the set of dispatched message IDs equals the k earlier ones; " +
			"the unbind handler ran exactly once when registered; the strictly parsed stream up to EOF contains exactly one response per earlier request and nothing carrying the Unbind's or a later request's message ID; " +
			"with parked handlers EOF is not seen before the gate opens and is seen after. A second scenario stops the server while an Unbind and its followers sit unread in the connection's buffer behind a held StartTLS (read-loop) handler: no answer to the Unbind, nothing behind it dispatched. A third stops the server in the window between reading an Unbind and acting on it (the window held open at gldap's own 'packet read' Debug log line through the user-supplied logger; the beginning of the shutdown observed on a second, idle connection): the unbind handler still runs exactly once. A fourth gives one Mux to two servers (plain+plain, plain+TLS) and alternates Unbind-terminated sessions between them: one handler run per session. A fifth attaches the empty mux (Server.Router) before the routes are registered, Run last. Every fourth run registers the unbind route twice (only the first registration is the route), every fifth run's Unbind carries a control of up to 40KB, every third run registers the default route after the unbind route; sessions whose Unbind is request number 1025, 1001, 2049 (thorough: also 513, 4097, 10001) of its connection. distinct_nontrivial = distinct (k, m, write mode, route, parked, transport) combinations",
		Assume: []string{"'dispatched' is observed by recording handlers on every route kind including the default route"},
		Phases: func(tier string, seed int64) []Phase {
			return []Phase{{Name: "pipelines", Run: c10Run}}
		},
		MinObserved: []string{"pipelines_checked", "unbinds_sent_after_more_than_a_thousand_requests", "pipelines_on_a_mux_whose_default_route_was_registered_after_the_unbind_route", "requests_after_unbind_sent", "eof_withheld_until_release_observed", "pipelines_after_a_write_fault", "pipelines_with_an_earlier_handler_panic", "unbinds_with_unusual_message_ids", "stops_with_an_unbind_pipeline_in_the_read_buffer", "stops_between_reading_an_unbind_and_acting_on_it", "unbinds_on_servers_that_share_a_mux", "second_unbinds_sent_behind_the_first", "pipelines_with_bind_handlers_parked_when_the_unbind_arrives", "unbinds_carrying_controls", "pipelines_on_a_mux_whose_unbind_route_was_registered_twice", "pipelines_whose_earlier_handlers_stay_parked_long_after_the_unbind", "unbinds_on_a_server_whose_routes_were_registered_after_the_mux_was_attached", "pipelines_inside_a_starttls_upgraded_session"},
	})
}

type c10Case struct {
	K, M       int
	Mode       string // one-write per-frame dribble
	Route      bool
	Panics     bool // the registered unbind handler panics (recovered by gldap): the connection must still end
	Parked     bool
	Transport  string
	WriteFault bool // the connection's write deadline has expired before the pipeline is sent: every response write fails
	// EarlierPanic: the handler of the first earlier request panics (recovered by gldap, no response): the Unbind must
	// still end the connection
	EarlierPanic bool
	// UnbindID: the message ID of the Unbind (0 and the largest value are as good as any other)
	UnbindID int64
}

func c10Run(c *Ctx) {
	pki := newPKI()
	max := c.N(3, 8)
	reps := c.N(1, 20)
	var cases []c10Case
	for rep := 0; rep < reps; rep++ {
		for k := 0; k <= max; k++ {
			for m := 0; m <= max; m++ {
				for _, mode := range []string{"one-write", "per-frame", "dribble"} {
					for _, route := range []int{0, 1, 2} {
						for _, parked := range []bool{false, true} {
							for _, tr := range []string{"plain", "tls", "starttls"} {
								if parked && k == 0 {
									continue
								}
								cases = append(cases, c10Case{K: k, M: m, Mode: mode, Route: route > 0, Panics: route == 2, Parked: parked, Transport: tr})
							}
						}
					}
				}
			}
		}
	}
	// many earlier handlers still in flight when the Unbind arrives (any internal per-connection limit must not swallow it)
	for _, k := range []int{63, 64, 65, 100, 300} {
		for _, route := range []int{0, 1} {
			for _, tr := range []string{"plain", "tls"} {
				cases = append(cases, c10Case{K: k, M: 2, Mode: "one-write", Route: route > 0, Parked: true, Transport: tr})
			}
		}
	}
	// an earlier write fault on the connection (expired write deadline): responses are lost, the Unbind must still end it
	for _, k := range []int{0, 1, 3} {
		for _, route := range []int{0, 1} {
			cases = append(cases, c10Case{K: k, M: 2, Mode: "one-write", Route: route > 0, Transport: "plain", WriteFault: true})
		}
	}
	// an earlier handler that panicked (and was recovered) before the Unbind arrives
	for _, k := range []int{1, 2, 4} {
		for _, route := range []int{0, 1} {
			for _, tr := range []string{"plain", "tls"} {
				for _, mode := range []string{"one-write", "per-frame"} {
					cases = append(cases, c10Case{K: k, M: 2, Mode: mode, Route: route > 0, Transport: tr, EarlierPanic: true})
				}
			}
		}
	}
	// the Unbind's message ID is the client's business
	for i := range cases {
		cases[i].UnbindID = []int64{555, 555, 0, 1, 1<<31 - 1, 99}[i%6]
	}
	var next atomic.Int64
	var wg sync.WaitGroup
	for w := 0; w < 16; w++ {
		wg.Add(1)
		go func(w int) {
			defer wg.Done()
			r := c.Rng.Sub(fmt.Sprintf("w%d", w))
			srvs := map[string]*Srv{}
			for _, tr := range []string{"plain", "tls"} {
				var tc *tls.Config
				if tr == "tls" {
					tc = pki.ServerOnly
				}
				s, err := startSrv(SrvCfg{TLS: tc}, nil)
				if err != nil {
					c.Inconclusive("server start: " + err.Error())
					return
				}
				srvs[tr] = s
				defer s.StopWithin(patience)
			}
			if wf, err := startSrv(SrvCfg{WriteTimeout: 120 * time.Millisecond}, nil); err == nil {
				srvs["writefault"] = wf
				defer wf.StopWithin(patience)
			}
			for {
				i := int(next.Add(1)) - 1
				if i >= len(cases) {
					return
				}
				c10One(c, pki, srvs, cases[i], r, i)
			}
		}(w)
	}
	wg.Wait()
	for round := 0; round < c.N(6, 60); round++ {
		c10StopWithBuffered(c, round)
	}
	for round := 0; round < c.N(6, 60); round++ {
		c10StopAfterTheUnbindWasRead(c, round)
	}
	for round := 0; round < c.N(4, 40); round++ {
		c10SharedMux(c, pki, round)
	}
	for round := 0; round < c.N(4, 40); round++ {
		c10RouterFirst(c, round)
	}
	for round := 0; round < c.N(3, 12); round++ {
		c10LongSession(c, round)
	}
}

// c10LongSession: the Unbind of a session that has been busy - it is request number 1025 (1001, 2049 ...) of its
// connection. The unbind handler runs once, nothing is written in answer to it, nothing behind it is served.
func c10LongSession(c *Ctx, round int) {
	var runs, after atomic.Int64
	srv, err := startSrv(SrvCfg{}, func(m *gldap.Mux) {
		m.Search(func(w *gldap.ResponseWriter, req *gldap.Request) {
			if sm, err := req.GetSearchMessage(); err == nil && sm.BaseDN == "after-the-unbind" {
				after.Add(1)
			}
			w.Write(req.NewSearchDoneResponse(gldap.WithResponseCode(0)))
		})
		m.Unbind(func(w *gldap.ResponseWriter, req *gldap.Request) { runs.Add(1) })
	})
	if err != nil {
		c.Inconclusive("server start: " + err.Error())
		return
	}
	defer srv.StopWithin(patience)
	cl, err := dialRaw(srv.Addr, nil)
	if err != nil {
		c.Inconclusive("dial: " + err.Error())
		return
	}
	defer cl.Close()
	search := func(id int64, base string) []byte {
		return sber.Message(id, sber.Search{Base: []byte(base), Scope: 2, Filter: sber.PresentFilter("cn"), Attrs: [][]byte{}}.Node(), nil).Encode()
	}
	n := []int{1023, 999, 2047, 511, 4095, 9999}[round%6] // the Unbind is request n+2: 1025, 1001, 2049, 513, 4097, 10001
	id := int64(0)
	for sent := 0; sent < n; {
		var batch []byte
		b := 0
		for ; b < 50 && sent < n; b++ {
			id++
			sent++
			batch = append(batch, search(id, "dc=x")...)
		}
		cl.Send(batch)
		for ; b > 0; b-- {
			if _, err := cl.ReadMsg(patience); err != nil {
				c.Inconclusive(fmt.Sprintf("long session: request %d unanswered: %v", sent, err))
				return
			}
		}
	}
	before := srv.closeCnt.Load()
	last := append(search(id+1, "dc=x"), sber.Message(id+2, sber.UnbindRequest(), nil).Encode()...)
	cl.Send(append(last, search(id+3, "after-the-unbind")...))
	det := map[string]any{"requests_before_the_unbind": n + 1}
	var extra []string
	for {
		m, err := cl.ReadMsg(patience)
		if err != nil {
			if isTimeout(err) {
				c.Violate("connection not closed after Unbind", fmt.Sprintf("an Unbind sent as request %d of its connection: the connection is still open", n+2), det)
				return
			}
			break
		}
		if m.ID != id+1 {
			extra = append(extra, fmt.Sprintf("id=%d tag=%d", m.ID, m.Op.Tag))
		}
	}
	srv.WaitCloses(before+1, patience)
	c.Count("unbinds_sent_after_more_than_a_thousand_requests", 1)
	if got := runs.Load(); got != 1 {
		c.Violate("the unbind handler did not run exactly once", fmt.Sprintf("an Unbind sent as request %d of its connection: the unbind handler ran %d times", n+2, got), det)
	}
	if len(extra) > 0 {
		c.Violate("something was written in answer to an Unbind", fmt.Sprintf("an Unbind sent as request %d of its connection: besides the answer to the request before it the client received %v", n+2, extra), det)
	}
	if after.Load() > 0 {
		c.Violate("a request that followed the Unbind was dispatched to a handler", fmt.Sprintf("an Unbind sent as request %d of its connection", n+2), det)
	}
}

// c10RouterFirst: the (empty) mux is attached with Server.Router first, the routes - the unbind route among them - are
// registered afterwards, Run comes last. Sessions that end with an Unbind run the unbind handler exactly once.
func c10RouterFirst(c *Ctx, round int) {
	var runs atomic.Int64
	var mu sync.Mutex
	var dispatched []string
	srv, err := startSrv(SrvCfg{RouterFirst: true}, func(m *gldap.Mux) {
		rec := func(name string) gldap.HandlerFunc {
			return func(w *gldap.ResponseWriter, req *gldap.Request) {
				mu.Lock()
				dispatched = append(dispatched, name)
				mu.Unlock()
				replyFor(observe(name, req), w, req)
			}
		}
		m.Bind(rec("bind"))
		m.Search(rec("search"))
		m.Unbind(func(w *gldap.ResponseWriter, req *gldap.Request) { runs.Add(1) })
	})
	if err != nil {
		c.Inconclusive("server start: " + err.Error())
		return
	}
	defer srv.StopWithin(patience)
	for k := int64(1); k <= 3; k++ {
		before := srv.closeCnt.Load()
		cl, err := dialRaw(srv.Addr, nil)
		if err != nil {
			c.Inconclusive("dial: " + err.Error())
			return
		}
		cl.Send(sber.Message(1, sber.BindRequest(3, []byte("cn=x"), []byte("p")), nil).Encode())
		cl.ReadMsg(patience)
		buf := sber.Message(2, sber.UnbindRequest(), nil).Encode()
		if round%2 == 1 {
			buf = append(buf, sber.Message(3, sber.Search{Base: []byte("dc=after"), Scope: 2, Filter: sber.PresentFilter("cn"), Attrs: [][]byte{}}.Node(), nil).Encode()...)
		}
		cl.Send(buf)
		cl.ReadToEOF(patience)
		cl.Close()
		srv.WaitCloses(before+1, patience)
		mu.Lock()
		nd := len(dispatched)
		mu.Unlock()
		if got := runs.Load(); got != k {
			c.Violate("the unbind handler did not run exactly once", fmt.Sprintf("routes registered after the mux was attached: after %d sessions that ended with an Unbind the unbind handler has run %d times", k, got), map[string]any{"round": round})
			return
		}
		if nd != int(k) {
			c.Violate("a request that followed the Unbind was dispatched to a handler", fmt.Sprintf("routes registered after the mux was attached: %d handler runs for %d binds", nd, k), map[string]any{"round": round})
			return
		}
	}
	c.Count("unbinds_on_a_server_whose_routes_were_registered_after_the_mux_was_attached", 3)
}

// c10StopAfterTheUnbindWasRead: the server is stopped in the window between "the Unbind has been read" and "the
// Unbind is acted upon". The window is held open through the user-supplied logger (gldap logs "packet read" at Debug
// level right after reading a packet); that the shutdown has begun is observed on a second, idle connection, which the
// server closes. The statement makes no exception for a stopping server: an Unbind that was read runs the unbind
// handler exactly once, gets no answer, and nothing behind it is dispatched.
func c10StopAfterTheUnbindWasRead(c *Ctx, round int) {
	sink := &logSink{}
	gl := newGateLogger(hclog.New(&hclog.LoggerOptions{Name: "sut", Level: hclog.Debug, Output: sink, JSONFormat: true}), "packet read")
	srvS, err := gldap.NewServer(gldap.WithLogger(gl))
	if err != nil {
		c.Inconclusive(err.Error())
		return
	}
	var mu sync.Mutex
	unbindRuns := 0
	var dispatched []string
	m, _ := gldap.NewMux()
	rec := func(name string) gldap.HandlerFunc {
		return func(w *gldap.ResponseWriter, req *gldap.Request) {
			mu.Lock()
			dispatched = append(dispatched, name)
			mu.Unlock()
			replyFor(observe(name, req), w, req)
		}
	}
	m.Bind(rec("bind"))
	m.Search(rec("search"))
	m.DefaultRoute(rec("default"))
	m.Unbind(func(w *gldap.ResponseWriter, req *gldap.Request) {
		mu.Lock()
		unbindRuns++
		mu.Unlock()
	})
	srvS.Router(m)
	addr := fmt.Sprintf("127.0.0.1:%d", freePort())
	runRet := make(chan error, 1)
	go func() { runRet <- srvS.Run(addr) }()
	for dl := time.Now().Add(patience); !srvS.Ready() && time.Now().Before(dl); time.Sleep(200 * time.Microsecond) {
	}
	idle, err := net.DialTimeout("tcp", addr, patience)
	if err != nil {
		c.Inconclusive("dial: " + err.Error())
		close(gl.Release)
		srvS.Stop()
		return
	}
	defer idle.Close()
	cl, err := dialRaw(addr, nil)
	if err != nil {
		c.Inconclusive("dial: " + err.Error())
		close(gl.Release)
		srvS.Stop()
		return
	}
	defer cl.Close()
	buf := sber.Message(int64(7+round), sber.UnbindRequest(), nil).Encode()
	if round%2 == 1 {
		buf = append(buf, sber.Message(3, sber.BindRequest(3, []byte("cn=after"), []byte("p")), nil).Encode()...)
	}
	cl.Send(buf)
	select {
	case <-gl.Reached:
	case <-time.After(patience):
		c.Inconclusive("this build does not log 'packet read' at Debug level: the window cannot be held")
		close(gl.Release)
		srvS.Stop()
		return
	}
	stopped := make(chan struct{})
	go func() { srvS.Stop(); close(stopped) }()
	// the shutdown has begun once the server ends the idle connection
	idle.SetReadDeadline(time.Now().Add(patience))
	one := make([]byte, 64)
	for {
		if _, err := idle.Read(one); err != nil {
			if isTimeout(err) {
				c.Inconclusive("the idle connection was not closed by the stopping server")
			}
			break
		}
	}
	close(gl.Release)
	got := 0
	for {
		if _, err := cl.ReadMsg(10 * time.Second); err != nil {
			break
		}
		got++
	}
	select {
	case <-stopped:
	case <-time.After(patience):
		c.Inconclusive("Stop did not return (see C11)")
	}
	mu.Lock()
	defer mu.Unlock()
	det := map[string]any{"round": round, "unbind_handler_runs": unbindRuns, "dispatched": dispatched, "frames_received": got}
	c.Count("stops_between_reading_an_unbind_and_acting_on_it", 1)
	if unbindRuns != 1 {
		c.Violate("the unbind handler did not run exactly once", fmt.Sprintf("an Unbind that had been read when Stop was called: the unbind handler ran %d times", unbindRuns), det)
	}
	if len(dispatched) > 0 {
		c.Violate("a request that followed the Unbind was dispatched to a handler", fmt.Sprintf("Stop between reading the Unbind and acting on it: %v reached handlers", dispatched), det)
	}
}

// c10SharedMux: one Mux given to two servers (an ldap and an ldaps listener on the same routes, say). Every
// connection of either server that sends an Unbind runs the unbind handler exactly once - connection numbers are
// per server, so the two servers' connections carry the same numbers.
func c10SharedMux(c *Ctx, pki *PKI, round int) {
	var runs atomic.Int64
	m, _ := gldap.NewMux()
	m.Bind(func(w *gldap.ResponseWriter, req *gldap.Request) {
		w.Write(req.NewBindResponse(gldap.WithResponseCode(0)))
	})
	m.Unbind(func(w *gldap.ResponseWriter, req *gldap.Request) { runs.Add(1) })
	var srvs []*Srv
	var ctcs []*tls.Config
	for i := 0; i < 2; i++ {
		var stc, ctc *tls.Config
		if i == 1 && round%2 == 1 {
			stc, ctc = pki.ServerOnly, pki.ClientPlain
		}
		s, err := startSrv(SrvCfg{TLS: stc}, nil)
		if err != nil {
			c.Inconclusive("server start: " + err.Error())
			return
		}
		defer s.StopWithin(patience)
		s.S.Router(m)
		srvs = append(srvs, s)
		ctcs = append(ctcs, ctc)
	}
	sent := int64(0)
	for k := 0; k < 3; k++ {
		for i, s := range srvs {
			before := s.closeCnt.Load()
			cl, err := dialRaw(s.Addr, ctcs[i])
			if err != nil {
				c.Inconclusive("dial: " + err.Error())
				return
			}
			cl.Send(sber.Message(1, sber.BindRequest(3, []byte("cn=x"), []byte("p")), nil).Encode())
			cl.ReadMsg(patience)
			cl.Send(sber.Message(2, sber.UnbindRequest(), nil).Encode())
			sent++
			cl.ReadToEOF(patience)
			cl.Close()
			s.WaitCloses(before+1, patience)
			if got := runs.Load(); got != sent {
				c.Violate("the unbind handler did not run exactly once", fmt.Sprintf("two servers share one mux: after %d sessions that ended with an Unbind (the last one connection %d of server %d) the unbind handler has run %d times", sent, k+1, i+1, got),
					map[string]any{"round": round, "sessions": sent, "unbind_handler_runs": got})
				return
			}
		}
	}
	c.Count("unbinds_on_servers_that_share_a_mux", sent)
}

// c10StopWithBuffered: the Unbind and the requests behind it are already sitting in the connection's read buffer when
// the server is stopped - they arrived in one segment behind a request whose handler runs on the read loop itself
// (StartTLS) and is held by the harness. Whether or not the server still reads the Unbind while shutting down: it is
// not answered, and nothing behind it is dispatched.
func c10StopWithBuffered(c *Ctx, round int) {
	var mu sync.Mutex
	var dispatched []string
	entered := make(chan struct{})
	gate := make(chan struct{})
	var once sync.Once
	srv, err := startSrv(SrvCfg{}, func(m *gldap.Mux) {
		m.ExtendedOperation(func(w *gldap.ResponseWriter, req *gldap.Request) {
			once.Do(func() { close(entered) })
			<-gate
			w.Write(req.NewExtendedResponse(gldap.WithResponseCode(gldap.ResultUnwillingToPerform)))
		}, gldap.ExtendedOperationStartTLS)
		rec := func(name string) gldap.HandlerFunc {
			return func(w *gldap.ResponseWriter, req *gldap.Request) {
				mu.Lock()
				dispatched = append(dispatched, name)
				mu.Unlock()
				replyFor(observe(name, req), w, req)
			}
		}
		m.Bind(rec("bind"))
		m.Search(rec("search"))
		m.DefaultRoute(rec("default"))
		if round%2 == 1 {
			m.Unbind(func(w *gldap.ResponseWriter, req *gldap.Request) {})
		}
	})
	if err != nil {
		c.Inconclusive("server start: " + err.Error())
		return
	}
	cl, err := dialRaw(srv.Addr, nil)
	if err != nil {
		c.Inconclusive("dial: " + err.Error())
		srv.StopWithin(patience)
		return
	}
	defer cl.Close()
	var buf []byte
	buf = append(buf, sber.Message(1, sber.ExtendedRequest([]byte(sber.OIDStartTLS), nil, false), nil).Encode()...)
	buf = append(buf, sber.Message(2, sber.UnbindRequest(), nil).Encode()...)
	buf = append(buf, sber.Message(3, sber.BindRequest(3, []byte("cn=after"), []byte("p")), nil).Encode()...)
	buf = append(buf, sber.Message(4, sber.Search{Base: []byte("dc=after"), Scope: 2, Filter: sber.PresentFilter("cn"), Attrs: [][]byte{}}.Node(), nil).Encode()...)
	cl.Send(buf)
	select {
	case <-entered:
	case <-time.After(patience):
		c.Inconclusive("the inline handler never started")
		close(gate)
		srv.StopWithin(patience)
		return
	}
	time.Sleep(10 * time.Millisecond) // the whole segment has been read into the connection's buffer
	stopped := make(chan struct{})
	go func() { srv.S.Stop(); close(stopped) }()
	time.Sleep(time.Duration(50+100*(round%3)) * time.Millisecond)
	close(gate)
	got := map[int64]int{}
	for {
		m, err := cl.ReadMsg(10 * time.Second)
		if err != nil {
			if isTimeout(err) {
				c.Violate("connection not closed after Unbind", "pipeline buffered behind an inline handler when Stop was called: no EOF within 10s", map[string]any{"round": round})
			}
			break
		}
		got[m.ID]++
	}
	select {
	case <-stopped:
	case <-time.After(patience):
		c.Inconclusive("Stop did not return (see C11)")
	}
	mu.Lock()
	defer mu.Unlock()
	det := map[string]any{"round": round, "responses_by_message_id": fmt.Sprint(got), "dispatched": dispatched}
	if got[2] > 0 {
		c.Violate("a response was sent to the Unbind request", "an Unbind that was sitting in the read buffer when Stop was called got an answer", det)
	}
	if got[3] > 0 || got[4] > 0 {
		c.Violate("a request that followed the Unbind was answered", fmt.Sprintf("requests buffered behind an Unbind when Stop was called were answered: %v", got), det)
	}
	if len(dispatched) > 0 {
		c.Violate("a request that followed the Unbind was dispatched to a handler", fmt.Sprintf("requests buffered behind an Unbind when Stop was called reached handlers: %v", dispatched), det)
	}
	c.Count("stops_with_an_unbind_pipeline_in_the_read_buffer", 1)
}

func c10One(c *Ctx, pki *PKI, srvs map[string]*Srv, cs c10Case, r *Rand, idx int) {
	det := map[string]any{"case": cs}
	var mu sync.Mutex
	var dispatched []int64 // message IDs seen by any handler (0 for extended: identified by route below)
	var extRoutes []string
	unbindRuns := 0
	gate := make(chan struct{})
	var entered atomic.Int64
	rec := func(route string) gldap.HandlerFunc {
		return func(w *gldap.ResponseWriter, req *gldap.Request) {
			o := observe(route, req)
			mu.Lock()
			if o.Kind == "extended" {
				extRoutes = append(extRoutes, route)
			} else {
				dispatched = append(dispatched, o.ID)
			}
			mu.Unlock()
			entered.Add(1)
			if cs.Parked && ((o.Kind == "search" && strings.HasPrefix(string(o.DN), "park")) || (o.Kind == "bind" && strings.HasPrefix(string(o.Name), "park"))) {
				<-gate
			}
			if cs.EarlierPanic && o.ID == 100 {
				panic("injected panic in an earlier handler (C10)")
			}
			replyFor(o, w, req)
		}
	}
	var stc, ctc *tls.Config
	if cs.Transport == "tls" {
		stc, ctc = pki.ServerOnly, pki.ClientPlain
	}
	_ = stc
	// one long-lived server per worker and transport; every case installs its own mux (routes are in place before the
	// case's connection is accepted)
	srv := srvs[cs.Transport]
	if cs.Transport == "starttls" {
		srv = srvs["plain"]
	}
	if cs.WriteFault {
		srv = srvs["writefault"]
		if srv == nil {
			return
		}
	}
	m, _ := gldap.NewMux()
	m.Bind(rec("bind"))
	m.Search(rec("search"))
	m.Modify(rec("modify"))
	m.Add(rec("add"))
	m.Delete(rec("delete"))
	m.ExtendedOperation(rec("ext-before"), "1.7.1")
	m.ExtendedOperation(rec("ext-after"), "1.7.2")
	var upgradedOnce atomic.Bool
	m.ExtendedOperation(func(w *gldap.ResponseWriter, req *gldap.Request) {
		if cs.Transport == "starttls" && upgradedOnce.CompareAndSwap(false, true) {
			// the connection's one real upgrade, before the pipeline under test
			w.Write(req.NewExtendedResponse(gldap.WithResponseCode(0)))
			req.StartTLS(pki.ServerOnly)
			return
		}
		rec("ext-starttls")(w, req)
	}, gldap.ExtendedOperationStartTLS)
	defaultLast := idx%3 == 1
	if !defaultLast {
		m.DefaultRoute(rec("default"))
	}
	if cs.Route && idx%4 == 3 {
		// the unbind route is registered twice: the first registration is replaced, its handler never runs
		m.Unbind(func(w *gldap.ResponseWriter, req *gldap.Request) {
			mu.Lock()
			unbindRuns += 100
			mu.Unlock()
		})
		c.Count("pipelines_on_a_mux_whose_unbind_route_was_registered_twice", 1)
	}
	if cs.Route {
		m.Unbind(func(w *gldap.ResponseWriter, req *gldap.Request) {
			mu.Lock()
			unbindRuns++
			mu.Unlock()
			if cs.Panics {
				panic("injected panic in the unbind handler (C10)")
			}
		})
	}
	if defaultLast {
		// the default route is registered after the unbind route (the order of registrations is the application's business)
		m.DefaultRoute(rec("default"))
		if cs.Route {
			c.Count("pipelines_on_a_mux_whose_default_route_was_registered_after_the_unbind_route", 1)
		}
	}
	if err := srv.S.Router(m); err != nil {
		c.Inconclusive("Router: " + err.Error())
		return
	}
	cl, err := dialRaw(srv.Addr, ctc)
	if err != nil {
		c.Skip(fmt.Sprintf("pipelines: the harness could not connect (%v): %v", cs, err))
		return
	}
	defer cl.Close()
	if cs.Transport == "starttls" {
		cl.Send(sber.Message(50, sber.ExtendedRequest([]byte(sber.OIDStartTLS), nil, false), nil).Encode())
		if _, err := cl.ReadMsg(patience); err != nil {
			c.Inconclusive("starttls response: " + err.Error())
			return
		}
		tc := tls.Client(cl.C, pki.ClientPlain)
		cl.C.SetDeadline(time.Now().Add(patience))
		if err := tc.Handshake(); err != nil {
			c.Inconclusive("starttls handshake: " + err.Error())
			return
		}
		cl.C.SetDeadline(time.Time{})
		under := cl.C
		cl = wrapClient(tc)
		cl.Under = under
		c.Count("pipelines_inside_a_starttls_upgraded_session", 1)
	}
	if cs.WriteFault {
		time.Sleep(300 * time.Millisecond) // the absolute write deadline set at accept has passed
		c.Count("pipelines_after_a_write_fault", 1)
	}
	mkReq := func(id int64, after bool, i int) []byte {
		name := "1.7.1"
		if after {
			name = "1.7.2"
		}
		base := "cn=x"
		if !after && cs.Parked {
			base = "park"
		}
		switch (i + int(id)) % 6 {
		case 0:
			return sber.Message(id, sber.BindRequest(3, []byte("cn=u"), []byte("p")), nil).Encode()
		case 1:
			return sber.Message(id, sber.ModifyRequest([]byte("cn=u"), nil), nil).Encode()
		case 2:
			return sber.Message(id, sber.AddRequest([]byte("cn=u"), nil), nil).Encode()
		case 3:
			return sber.Message(id, sber.DelRequest([]byte("cn=u")), nil).Encode()
		case 4:
			if !(cs.Parked && !after) {
				return sber.Message(id, sber.ExtendedRequest([]byte(name), nil, false), nil).Encode()
			}
		}
		return sber.Message(id, sber.Search{Base: []byte(base), Scope: 2, Filter: sber.PresentFilter("cn"), Attrs: [][]byte{}}.Node(), nil).Encode()
	}
	var frames [][]byte
	before := map[int64]bool{}
	after := map[int64]bool{}
	nExtBefore := 0
	extBefore := map[int64]bool{}
	for i := 0; i < cs.K; i++ {
		id := int64(100 + i)
		f := mkReq(id, false, i)
		if strings.Contains(string(f), "1.7.1") && !cs.Parked {
			nExtBefore++
			extBefore[id] = true
		}
		if cs.Parked {
			// parked pipelines use requests whose handler can be parked: searches, and in every third case binds (a
			// bind in progress is no reason to treat what follows differently)
			f = sber.Message(id, sber.Search{Base: []byte("park"), Scope: 2, Filter: sber.PresentFilter("cn"), Attrs: [][]byte{}}.Node(), nil).Encode()
			if idx%3 == 1 {
				f = sber.Message(id, sber.BindRequest(3, []byte("park"), []byte("p")), nil).Encode()
				if i == 0 {
					c.Count("pipelines_with_bind_handlers_parked_when_the_unbind_arrives", 1)
				}
			}
		}
		before[id] = true
		frames = append(frames, f)
	}
	unbindID := cs.UnbindID
	if cs.EarlierPanic {
		// the first earlier request is one whose message ID handlers can see (not an extended request)
		frames[0] = sber.Message(100, sber.DelRequest([]byte("cn=panics")), nil).Encode()
		if extBefore[100] {
			delete(extBefore, 100)
			nExtBefore--
		}
		c.Count("pipelines_with_an_earlier_handler_panic", 1)
	}
	if unbindID != 555 {
		c.Count("unbinds_with_unusual_message_ids", 1)
	}
	// the Unbind may carry controls (any message may): whatever they are - well-formed, of a type gldap knows but with a
	// value it would refuse on another operation, of an unknown type - it is still the Unbind
	var unbindCtls []sber.Control
	switch idx % 5 {
	case 1:
		unbindCtls = []sber.Control{{OID: "2.16.840.1.113730.3.4.2", Crit: true}}
	case 2:
		unbindCtls = []sber.Control{{OID: sber.OIDPaging, HasValue: true, Value: []byte{}}}
	case 3:
		unbindCtls = []sber.Control{{OID: "1.3.6.1.4.1.99999.7", Crit: true, HasValue: true, Value: []byte("x")}, {OID: "2.16.840.1.113730.3.4.5", HasValue: true, Value: []byte("soon")}}
	case 4:
		if idx%2 == 0 {
			// a large one: the Unbind is a 40KB frame
			unbindCtls = []sber.Control{{OID: "1.3.6.1.4.1.99999.8", HasValue: true, Value: bytes.Repeat([]byte("v"), 40000)}}
		}
	}
	if unbindCtls != nil {
		c.Count("unbinds_carrying_controls", 1)
	}
	frames = append(frames, sber.Message(unbindID, sber.UnbindRequest(), unbindCtls).Encode())
	for i := 0; i < cs.M; i++ {
		id := int64(700 + i)
		after[id] = true
		var f []byte
		switch {
		case i%4 == 3, i == 0 && cs.K%2 == 1:
			f = sber.Message(id, sber.UnbindRequest(), nil).Encode() // a second unbind (in odd-k pipelines right behind the first)
			c.Count("second_unbinds_sent_behind_the_first", 1)
		case i%4 == 2:
			f = sber.Message(id, sber.ExtendedRequest([]byte(sber.OIDStartTLS), nil, false), nil).Encode()
		default:
			f = mkReq(id, true, i)
		}
		frames = append(frames, f)
		c.Count("requests_after_unbind_sent", 1)
	}
	var all []byte
	for _, f := range frames {
		all = append(all, f...)
	}
	go func() {
		switch cs.Mode {
		case "one-write":
			cl.Send(all)
		case "per-frame":
			for _, f := range frames {
				if cl.Send(f) != nil {
					return
				}
			}
		default:
			for off := 0; off < len(all); {
				step := 1 + (off*7+idx)%23
				if off+step > len(all) {
					step = len(all) - off
				}
				if cl.Send(all[off:off+step]) != nil {
					return
				}
				off += step
			}
		}
	}()
	// with parked handlers: the connection must stay open until the gate opens
	if cs.Parked {
		for dl := time.Now().Add(patience); entered.Load() < int64(cs.K) && time.Now().Before(dl); {
			time.Sleep(100 * time.Microsecond)
		}
		hold := 120 * time.Millisecond
		if idx%5 == 2 {
			// now and then the earlier handlers stay parked for the better part of a second after the Unbind was read
			hold = time.Duration(600+r.Intn(300)) * time.Millisecond
			c.Count("pipelines_whose_earlier_handlers_stay_parked_long_after_the_unbind", 1)
		}
		cl.C.SetReadDeadline(time.Now().Add(hold))
		_, err := sber.ReadFrame(cl.br)
		if err != nil && !isTimeout(err) {
			c.Violate("connection closed after Unbind before earlier in-flight handlers finished", fmt.Sprintf("%v: EOF while %d handlers were parked", cs, cs.K), det)
		} else if err != nil {
			c.Count("eof_withheld_until_release_observed", 1)
		}
		close(gate)
	} else {
		close(gate)
	}
	// read everything until EOF
	got := map[int64]int{}
	sawEOF, endedInReset := false, false
	for {
		m, err := cl.ReadMsg(10 * time.Second)
		if err != nil {
			if isTimeout(err) {
				c.Violate("connection not closed after Unbind", fmt.Sprintf("%v: no EOF within patience", cs), det)
			} else if strings.Contains(err.Error(), "malformed") {
				c.Violate("malformed frame on an unbind pipeline", err.Error(), det)
			} else {
				sawEOF = true
				// a connection closed while requests the server never read are still queued for it (the client sent
				// them behind the Unbind) is reset by the kernel, and a reset may discard what was on its way to the
				// client: only a stream that ended with a clean EOF is known to be complete
				endedInReset = strings.Contains(err.Error(), "reset")
			}
			break
		}
		got[m.ID]++
	}
	_ = sawEOF
	// the server closed the socket only after every handler returned: the records are complete
	time.Sleep(time.Millisecond)
	mu.Lock()
	defer mu.Unlock()
	c.Count("pipelines_checked", 1)
	c.Distinct("pipelines", fmt.Sprintf("%d/%d/%s/%v/%v/%v/%s/%v/%v/%d", cs.K, cs.M, cs.Mode, cs.Route, cs.Panics, cs.Parked, cs.Transport, cs.WriteFault, cs.EarlierPanic, cs.UnbindID))
	seen := map[int64]int{}
	for _, id := range dispatched {
		seen[id]++
		switch {
		case after[id]:
			c.Violate("a request that followed the Unbind was dispatched to a handler", fmt.Sprintf("%v: message id %d", cs, id), det)
		case id == unbindID:
			c.Violate("the Unbind request was dispatched to a non-unbind handler", fmt.Sprintf("%v", cs), det)
		case !before[id]:
			c.Violate("handler ran for a request the client did not send", fmt.Sprintf("id %d", id), det)
		}
	}
	nb, na := 0, 0
	for _, rt := range extRoutes {
		switch rt {
		case "ext-before":
			nb++
		default:
			na++
		}
	}
	if na > 0 {
		c.Violate("a request that followed the Unbind was dispatched to a handler", fmt.Sprintf("%v: %d extended requests sent after the Unbind reached a handler (%v)", cs, na, extRoutes), det)
	}
	missing := 0
	for id := range before {
		if !extBefore[id] && seen[id] == 0 {
			missing++
		}
	}
	if missing != 0 || nb != nExtBefore {
		c.Violate("a request that preceded the Unbind was never dispatched (or dispatched twice)", fmt.Sprintf("%v: %d earlier requests missing; %d of %d earlier extended requests seen", cs, missing, nb, nExtBefore), det)
	}
	for id, n := range seen {
		if before[id] && n > 1 {
			c.Violate("a request that preceded the Unbind was never dispatched (or dispatched twice)", fmt.Sprintf("%v: id %d dispatched %d times", cs, id, n), det)
		}
	}
	wantUnbind := 0
	if cs.Route {
		wantUnbind = 1
	}
	if unbindRuns != wantUnbind {
		c.Violate("the unbind handler did not run exactly once", fmt.Sprintf("%v: ran %d times, want %d", cs, unbindRuns, wantUnbind), det)
	}
	for id, n := range got {
		switch {
		case id == unbindID:
			c.Violate("a response was sent to the Unbind request", fmt.Sprintf("%v", cs), det)
		case after[id]:
			c.Violate("a request that followed the Unbind was answered", fmt.Sprintf("%v: message id %d", cs, id), det)
		case before[id] && n != 1:
			c.Violate("an earlier request was answered more than once", fmt.Sprintf("%v: id %d x%d", cs, id, n), det)
		}
	}
	if endedInReset {
		c.Count("pipelines_whose_connection_ended_in_a_reset", 1)
	}
	for id := range before {
		if got[id] == 0 && !cs.WriteFault && !(cs.EarlierPanic && id == 100) && !endedInReset {
			c.Violate("an earlier request's response was lost when the connection ended", fmt.Sprintf("%v: id %d", cs, id), det)
		}
	}
	if idx == 77 {
		c.Sample(det)
	}
}
