package main

import (
	"bytes"
	"crypto/tls"
	"fmt"
	"sort"
	"strings"
	"sync"
	"sync/atomic"
	"time"

	"github.com/go-ldap/ldap/v3"
	"github.com/jimlambrt/gldap"

	"verif/internal/sber"
)

func init() {
	register(&Check{
		ID: "C04", Level: "exploration", Primary: "script_shapes", EvalCount: "responses_checked",
		Rule: "a response script = constructor in {NewResponse, NewBindResponse, NewSearchDoneResponse, NewSearchResponseEntry, NewExtendedResponse, NewModifyResponse} x a PRNG-chosen subset of that " +
			"constructor's documented options (NewResponse without an application code answers with its own tag, ExtendedResponse, whatever the kind of the request - the scripts are carried by bind, search, add, delete and modify requests, a tenth of which pad their message ID with leading zero octets; in 15% of the scripts of the typed constructors also options the constructor does not support - an application code, result code, strings, attributes - placed before or after the supported ones: they must not change what goes out) x 0..4 setters (SetResultCode, SetDiagnosticMessage, SetMatchedDN, SetControls, AddAttribute, SetResponseName) with values from an adversarial pool (result codes 0..32767, application " +
			"codes 0..30, empty/binary/invalid-UTF-8 strings, 127/128/65535/65536/200000-byte strings, 0..n attributes x 0..m values, all control kinds); the handler runs the script for a request whose message ID is drawn " +
			"from 0..2^31-1, and the strict parser checks the one frame it produced against a last-writer-wins model (fields never set are unconstrained). A quarter of the single-response requests write their response object also before some of their setters (each write must show the state at that point); a fifth of the connections park a request and let a LATER request's handler answer it through its own writer (the frame must still carry the parked request's message ID); a third of the requests get 2..3 responses. " +
			"distinct_nontrivial = distinct (constructor, option subset, setter sequence, length classes, message-id class) signatures",
		Assume: []string{"the library's defaults for fields the handler never set (\"Unused\", result code 0/53) are not asserted",
			"ExtendedResponse.SetResponseName is not encoded by gldap and is outside the statement's field list"},
		Phases: func(tier string, seed int64) []Phase {
			ps := []Phase{{Name: "scripts-plain", Run: func(c *Ctx) { c04Scripts(c, false) }}, {Name: "goldap", Run: c04GoLDAP}}
			if tier == "thorough" {
				ps = append(ps, Phase{Name: "scripts-tls", Run: func(c *Ctx) { c04Scripts(c, true) }})
			}
			return ps
		},
		MinObserved: []string{"responses_checked", "goldap_responses_checked", "responses_from_a_request_with_several_responses", "responses_written_again_after_further_setters", "requests_answered_by_another_requests_handler", "responses_built_with_options_their_constructor_does_not_support", "scripts_carried_by_add_delete_and_modify_requests", "requests_whose_message_id_was_padded_with_zero_octets", "extended_responses_given_a_response_name", "entries_whose_attribute_map_was_reused_before_the_write"},
	})
}

type c04Setter struct {
	Kind string    `json:"kind"` // code diag matched controls addattr
	Code int       `json:"code,omitempty"`
	Str  []byte    `json:"str,omitempty"`
	Ctls []CtlSpec `json:"ctls,omitempty"`
	Name []byte    `json:"name,omitempty"`
	Vals [][]byte  `json:"vals,omitempty"`
}

type c04Script struct {
	Ctor     string              `json:"ctor"`
	MsgID    int64               `json:"msg_id"`
	OptCode  *int                `json:"opt_code,omitempty"`
	OptApp   *int                `json:"opt_app,omitempty"`
	OptDiag  *[]byte             `json:"opt_diag,omitempty"`
	OptMatch *[]byte             `json:"opt_matched,omitempty"`
	OptAttrs map[string][]string `json:"-"`
	HasAttrs bool                `json:"opt_attrs,omitempty"`
	EntryDN  []byte              `json:"entry_dn,omitempty"`
	Setters  []c04Setter         `json:"setters,omitempty"`
	OptOrder []int               `json:"opt_order,omitempty"`
	// Early: the same response object is also written before setter k is applied (after k setters), for every k
	// listed; each such write must show exactly what had been set by then, and must not freeze the object.
	Early []int `json:"early_writes_before_setter,omitempty"`
	// options the constructor does not support (it ignores them): they must not change what goes out
	FApp    *int    `json:"foreign_application_code,omitempty"`
	FCode   *int    `json:"foreign_result_code,omitempty"`
	FStr    *[]byte `json:"foreign_diag_and_matched,omitempty"`
	FAttrs  bool    `json:"foreign_attributes,omitempty"`
	FBefore bool    `json:"foreign_options_first,omitempty"`
}

// upTo is the script as it stood after k setters (what an early write must show).
func (s *c04Script) upTo(k int) *c04Script {
	t := *s
	t.Setters = s.Setters[:k]
	t.Early = nil
	return &t
}

func (s *c04Script) sig() string {
	var b strings.Builder
	fmt.Fprintf(&b, "%s/id%s/", s.Ctor, idClass(s.MsgID))
	if s.OptCode != nil {
		fmt.Fprintf(&b, "c%s", idClass(int64(*s.OptCode)))
	}
	if s.OptApp != nil {
		b.WriteString("a")
	}
	if s.OptDiag != nil {
		b.WriteString("d" + lenClass(len(*s.OptDiag)))
	}
	if s.OptMatch != nil {
		b.WriteString("m" + lenClass(len(*s.OptMatch)))
	}
	if s.HasAttrs {
		fmt.Fprintf(&b, "A%d", len(s.OptAttrs))
	}
	fmt.Fprintf(&b, "/o%v/e%s", s.OptOrder, lenClass(len(s.EntryDN)))
	for _, st := range s.Setters {
		switch st.Kind {
		case "controls":
			b.WriteString("/controls")
			for _, c := range st.Ctls {
				b.WriteString(":" + c.Kind)
			}
		case "addattr":
			fmt.Fprintf(&b, "/addattr%s:%d", lenClass(len(st.Name)), len(st.Vals))
		case "code":
			b.WriteString("/code" + idClass(int64(st.Code)))
		default:
			b.WriteString("/" + st.Kind + lenClass(len(st.Str)))
		}
	}
	return b.String()
}

var c04Ctors = []string{"NewResponse", "NewBindResponse", "NewSearchDoneResponse", "NewSearchResponseEntry", "NewExtendedResponse", "NewModifyResponse"}

func c04Bytes(r *Rand) []byte {
	if r.Chance(3) {
		return r.Bytes(pick(r, []int{65535, 65536, 200000}))
	}
	return advBytes(r)
}

func c04Code(r *Rand) int {
	if r.Chance(50) {
		return pick(r, []int{0, 1, 32, 49, 53, 80, 127, 128, 255, 256, 32767})
	}
	return r.Intn(32768)
}

func genScript(r *Rand, ctor string) *c04Script {
	s := &c04Script{Ctor: ctor, MsgID: genID(r)}
	ip := func(v int) *int { return &v }
	bp := func(v []byte) *[]byte { return &v }
	switch ctor {
	case "NewResponse":
		if r.Bool() {
			s.OptCode = ip(c04Code(r))
		}
		if r.Bool() {
			s.OptApp = ip(r.Intn(31))
		}
		if r.Bool() {
			s.OptDiag = bp(c04Bytes(r))
		}
		if r.Bool() {
			s.OptMatch = bp(c04Bytes(r))
		}
	case "NewModifyResponse":
		if r.Chance(70) {
			s.OptCode = ip(c04Code(r))
		}
		if r.Bool() {
			s.OptDiag = bp(c04Bytes(r))
		}
		if r.Bool() {
			s.OptMatch = bp(c04Bytes(r))
		}
	case "NewSearchResponseEntry":
		s.EntryDN = c04Bytes(r)
		if r.Bool() {
			s.HasAttrs = true
			s.OptAttrs = map[string][]string{}
			for i, n := 0, r.Intn(4); i < n; i++ {
				var vals []string
				for j, m := 0, r.Intn(4); j < m; j++ {
					vals = append(vals, string(c04Bytes(r)))
				}
				s.OptAttrs[string(advBytes(r))] = vals
			}
		}
	default:
		if r.Bool() {
			s.OptCode = ip(c04Code(r))
		}
	}
	s.OptOrder = r.Perm(5)
	if ctor != "NewResponse" && r.Chance(15) {
		s.FBefore = r.Bool()
		s.FApp = ip(r.Intn(31))
		switch ctor {
		case "NewModifyResponse":
			s.FAttrs = r.Bool()
		case "NewSearchResponseEntry":
			s.FCode = ip(c04Code(r))
			s.FStr = bp(advBytes(r))
		default:
			s.FStr = bp(advBytes(r))
			s.FAttrs = r.Bool()
		}
	}
	for i, n := 0, r.Intn(5); i < n; i++ {
		var kinds []string
		switch ctor {
		case "NewSearchResponseEntry":
			kinds = []string{"addattr", "addattr", "addattr", "code", "diag", "matched"}
		case "NewBindResponse", "NewSearchDoneResponse":
			kinds = []string{"code", "diag", "matched", "controls", "controls"}
		case "NewExtendedResponse":
			kinds = []string{"code", "diag", "matched", "respname"}
		default:
			kinds = []string{"code", "diag", "matched"}
		}
		st := c04Setter{Kind: pick(r, kinds)}
		switch st.Kind {
		case "code":
			st.Code = c04Code(r)
		case "respname":
			st.Str = []byte(pick(r, []string{"1.3.6.1.4.1.1466.20037", "1.3.6.1.1.8", "1.2.3", "", "not-an-oid"}))
		case "diag", "matched":
			st.Str = c04Bytes(r)
		case "controls":
			st.Ctls = genGldapCtls(r, 5)
		case "addattr":
			st.Name = advBytes(r)
			for j, m := 0, r.Intn(4); j < m; j++ {
				st.Vals = append(st.Vals, c04Bytes(r))
			}
		}
		s.Setters = append(s.Setters, st)
	}
	return s
}

var c04Foreign, c04OtherKinds, c04PaddedIDs, c04RespNames, c04MapsReused atomic.Int64

type c04Parked struct {
	req  *gldap.Request
	done chan struct{}
}

type c04Built struct {
	s    *c04Script
	resp gldap.Response
	base interface {
		SetResultCode(int)
		SetDiagnosticMessage(string)
		SetMatchedDN(string)
	}
	setCtls func(...gldap.Control)
	setName func(gldap.ExtendedOperationName)
	addAttr func(string, []string)
	next    int
	wrote   map[int]bool
}

// step applies the next setter; false when none is left.
func (b *c04Built) step() (bool, error) {
	if b.next >= len(b.s.Setters) {
		return false, nil
	}
	st := b.s.Setters[b.next]
	b.next++
	switch st.Kind {
	case "code":
		b.base.SetResultCode(st.Code)
	case "diag":
		b.base.SetDiagnosticMessage(string(st.Str))
	case "matched":
		b.base.SetMatchedDN(string(st.Str))
	case "controls":
		cs, err := toGldapAll(st.Ctls)
		if err != nil {
			return false, fmt.Errorf("toGldap: %w", err) // the harness could not build the control: not a Write error
		}
		b.setCtls(cs...)
	case "addattr":
		b.addAttr(string(st.Name), bytesToStrs(st.Vals))
	case "respname":
		// (what becomes of the name is not asserted; the message stays one well-formed LDAPMessage with everything else as set)
		b.setName(gldap.ExtendedOperationName(st.Str))
		c04RespNames.Add(1)
	}
	return true, nil
}

// run executes the script inside a handler and writes the single response.
func (s *c04Script) run(w *gldap.ResponseWriter, r *gldap.Request) error {
	b := s.build(r)
	for {
		more, err := b.step()
		if err != nil {
			return err
		}
		if !more {
			break
		}
	}
	return w.Write(b.resp)
}

// runGroup builds several responses from ONE request first, then applies their
// setters interleaved, then writes them in order: responses created from the
// same request must not influence one another.
func runGroup(w *gldap.ResponseWriter, r *gldap.Request, group []*c04Script) error {
	var built []*c04Built
	for _, s := range group {
		built = append(built, s.build(r))
	}
	for progress := true; progress; {
		progress = false
		for _, b := range built {
			for _, k := range b.s.Early {
				if k == b.next && !b.wrote[k] {
					if b.wrote == nil {
						b.wrote = map[int]bool{}
					}
					b.wrote[k] = true
					if err := w.Write(b.resp); err != nil {
						return err
					}
				}
			}
			more, err := b.step()
			if err != nil {
				return err
			}
			progress = progress || more
		}
	}
	for _, b := range built {
		if err := w.Write(b.resp); err != nil {
			return err
		}
	}
	return nil
}

func (s *c04Script) build(r *gldap.Request) *c04Built {
	var opts []gldap.Option
	var handed map[string][]string
	for _, k := range s.OptOrder {
		switch k {
		case 0:
			if s.OptCode != nil {
				opts = append(opts, gldap.WithResponseCode(*s.OptCode))
			}
		case 1:
			if s.OptApp != nil {
				opts = append(opts, gldap.WithApplicationCode(*s.OptApp))
			}
		case 2:
			if s.OptDiag != nil {
				opts = append(opts, gldap.WithDiagnosticMessage(string(*s.OptDiag)))
			}
		case 3:
			if s.OptMatch != nil {
				opts = append(opts, gldap.WithMatchedDN(string(*s.OptMatch)))
			}
		case 4:
			if s.HasAttrs {
				// the constructor gets a map of its own, which the handler goes on using for other things afterwards (see
				// below): the entry has the attributes the map had when the entry was made
				handed = map[string][]string{}
				for n, v := range s.OptAttrs {
					handed[n] = append([]string{}, v...)
				}
				opts = append(opts, gldap.WithAttributes(handed))
			}
		}
	}
	var foreign []gldap.Option
	if s.FApp != nil {
		foreign = append(foreign, gldap.WithApplicationCode(*s.FApp))
	}
	if s.FCode != nil {
		foreign = append(foreign, gldap.WithResponseCode(*s.FCode))
	}
	if s.FStr != nil {
		foreign = append(foreign, gldap.WithDiagnosticMessage(string(*s.FStr)), gldap.WithMatchedDN(string(*s.FStr)))
	}
	if s.FAttrs {
		foreign = append(foreign, gldap.WithAttributes(map[string][]string{"foreign": {"x"}}))
	}
	if len(foreign) > 0 {
		c04Foreign.Add(1)
		if s.FBefore {
			opts = append(foreign, opts...)
		} else {
			opts = append(opts, foreign...)
		}
	}
	b := &c04Built{s: s}
	switch s.Ctor {
	case "NewResponse":
		x := r.NewResponse(opts...)
		b.resp, b.base = x, x
	case "NewBindResponse":
		x := r.NewBindResponse(opts...)
		b.resp, b.base, b.setCtls = x, x, x.SetControls
	case "NewSearchDoneResponse":
		x := r.NewSearchDoneResponse(opts...)
		b.resp, b.base, b.setCtls = x, x, x.SetControls
	case "NewSearchResponseEntry":
		x := r.NewSearchResponseEntry(string(s.EntryDN), opts...)
		b.resp, b.base, b.addAttr = x, x, x.AddAttribute
		if handed != nil {
			// the map is re-used for the next entry
			for n := range handed {
				handed[n] = []string{"re-used for another entry"}
			}
			handed["added-to-the-map-after-the-entry-was-made"] = []string{"x"}
			c04MapsReused.Add(1)
		}
	case "NewExtendedResponse":
		x := r.NewExtendedResponse(opts...)
		b.resp, b.base, b.setName = x, x, x.SetResponseName
	case "NewModifyResponse":
		x := r.NewModifyResponse(opts...)
		b.resp, b.base = x, x
	}
	return b
}

// expectation (last writer wins; nil = never set = unconstrained)
type c04Expect struct {
	Tag      *int
	Code     *int
	Diag     *[]byte
	Matched  *[]byte
	Ctls     *[]CtlSpec
	MapAttrs map[string][]string
	Added    []c04Setter
	IsEntry  bool
}

func (s *c04Script) expect() c04Expect {
	e := c04Expect{Code: s.OptCode, Diag: s.OptDiag, Matched: s.OptMatch}
	tag := map[string]int{"NewBindResponse": 1, "NewSearchDoneResponse": 5, "NewSearchResponseEntry": 4, "NewExtendedResponse": 24, "NewModifyResponse": 7}
	if t, ok := tag[s.Ctor]; ok {
		e.Tag = &t
	} else if s.OptApp != nil {
		e.Tag = s.OptApp
	} else {
		// NewResponse without an application code: the constructor's own tag (ExtendedResponse), whatever kind of
		// request the response was created from
		t := 24
		e.Tag = &t
	}
	if s.Ctor == "NewSearchResponseEntry" {
		e.IsEntry = true
		e.MapAttrs = s.OptAttrs
	}
	for i := range s.Setters {
		st := s.Setters[i]
		switch st.Kind {
		case "code":
			v := st.Code
			e.Code = &v
		case "diag":
			v := st.Str
			e.Diag = &v
		case "matched":
			v := st.Str
			e.Matched = &v
		case "controls":
			v := st.Ctls
			e.Ctls = &v
		case "addattr":
			e.Added = append(e.Added, st)
		}
	}
	return e
}

// c04Check compares one strictly parsed frame with the script's expectation.
func c04Check(s *c04Script, m *sber.Msg) []string {
	var d []string
	e := s.expect()
	if m.ID != s.MsgID {
		d = append(d, fmt.Sprintf("message id %d != request's %d", m.ID, s.MsgID))
	}
	if e.Tag != nil && m.Op.Tag != *e.Tag {
		d = append(d, fmt.Sprintf("protocolOp tag %d != %d", m.Op.Tag, *e.Tag))
	}
	if e.IsEntry {
		ent, err := sber.AsEntry(m.Op)
		if err != nil {
			return append(d, "not a well-formed SearchResultEntry: "+err.Error())
		}
		if !bytes.Equal(ent.DN, s.EntryDN) {
			d = append(d, fmt.Sprintf("entry dn %x != %x", trunc(ent.DN, 16), trunc(s.EntryDN, 16)))
		}
		nmap := len(e.MapAttrs)
		if len(ent.Attrs) != nmap+len(e.Added) {
			return append(d, fmt.Sprintf("%d attributes on the wire, %d from WithAttributes + %d added", len(ent.Attrs), nmap, len(e.Added)))
		}
		// the WithAttributes map comes first, as a set
		var gotMap, wantMap []string
		for _, a := range ent.Attrs[:nmap] {
			gotMap = append(gotMap, string(a.Type)+"\x00"+strings.Join(bytesToStrs(a.Vals), "\x01"))
		}
		for k, v := range e.MapAttrs {
			wantMap = append(wantMap, k+"\x00"+strings.Join(v, "\x01"))
		}
		sort.Strings(gotMap)
		sort.Strings(wantMap)
		if strings.Join(gotMap, "\x02") != strings.Join(wantMap, "\x02") {
			d = append(d, "attributes given through WithAttributes differ on the wire")
		}
		for i, st := range e.Added {
			a := ent.Attrs[nmap+i]
			if !bytes.Equal(a.Type, st.Name) || !eqBytesList(a.Vals, st.Vals) {
				d = append(d, fmt.Sprintf("added attribute %d (%x, %d values) arrived as (%x, %d values) or in a different order", i, trunc(st.Name, 12), len(st.Vals), trunc(a.Type, 12), len(a.Vals)))
			}
		}
		if m.HasCtl {
			d = append(d, "entry carries controls nobody set")
		}
		return d
	}
	res, err := sber.AsResult(m.Op)
	if err != nil {
		return append(d, "not a well-formed LDAPResult: "+err.Error())
	}
	if e.Code != nil && res.Code != int64(*e.Code) {
		d = append(d, fmt.Sprintf("result code %d != %d", res.Code, *e.Code))
	}
	if e.Diag != nil && !bytes.Equal(res.Diag, *e.Diag) {
		d = append(d, fmt.Sprintf("diagnostic message %x(%d) != %x(%d)", trunc(res.Diag, 12), len(res.Diag), trunc(*e.Diag, 12), len(*e.Diag)))
	}
	if e.Matched != nil && !bytes.Equal(res.Matched, *e.Matched) {
		d = append(d, fmt.Sprintf("matched dn %x(%d) != %x(%d)", trunc(res.Matched, 12), len(res.Matched), trunc(*e.Matched, 12), len(*e.Matched)))
	}
	var want []CtlSpec
	if e.Ctls != nil {
		want = *e.Ctls
	}
	d = append(d, checkWireControls(want, m.Controls)...)
	return d
}

func c04Scripts(c *Ctx, useTLS bool) {
	conns := c.N(400, 12000)
	if useTLS {
		conns = c.N(100, 2000)
	}
	workers := 16
	var pki *PKI
	if useTLS {
		pki = newPKI()
	}
	var wg sync.WaitGroup
	for w := 0; w < workers; w++ {
		wg.Add(1)
		go func(w int) {
			defer wg.Done()
			r := c.Rng.Sub(fmt.Sprintf("w%d", w))
			var mu sync.Mutex
			scripts := map[string][]*c04Script{}
			parked := map[string]*c04Parked{}
			errs := map[string]error{}
			handler := func(w *gldap.ResponseWriter, req *gldap.Request) {
				var key string
				if m, err := req.GetSimpleBindMessage(); err == nil {
					key = m.UserName
				} else if m, err := req.GetSearchMessage(); err == nil {
					key = m.BaseDN
				} else if m, err := req.GetAddMessage(); err == nil {
					key = m.DN
				} else if m, err := req.GetDeleteMessage(); err == nil {
					key = m.DN
				} else if m, err := req.GetModifyMessage(); err == nil {
					key = m.DN
				}
				mu.Lock()
				s := scripts[key]
				mu.Unlock()
				if strings.HasPrefix(key, "xreq-park-") {
					// the request is answered later, by ANOTHER request's handler (a cancel-style flow): hand the
					// request over and stay around until that has happened
					ch := make(chan struct{})
					mu.Lock()
					parked[key] = &c04Parked{req: req, done: ch}
					mu.Unlock()
					select {
					case <-ch:
					case <-time.After(patience):
					}
					return
				}
				if s == nil {
					return
				}
				if strings.HasPrefix(key, "xreq-fire-") {
					pk := "xreq-park-" + strings.TrimPrefix(key, "xreq-fire-")
					var p *c04Parked
					for dl := time.Now().Add(patience); p == nil && time.Now().Before(dl); time.Sleep(200 * time.Microsecond) {
						mu.Lock()
						p = parked[pk]
						mu.Unlock()
					}
					if p == nil {
						mu.Lock()
						errs[key] = fmt.Errorf("the parked request never arrived")
						mu.Unlock()
						return
					}
					defer close(p.done)
					if msg, st := catch(func() {
						// s[0] is built from the PARKED request and written with this request's writer, s[1] is this
						// request's own response
						err := runGroup(w, p.req, s[:1])
						if err == nil {
							err = runGroup(w, req, s[1:])
						}
						if err != nil {
							mu.Lock()
							errs[key] = err
							mu.Unlock()
						}
					}); msg != "" {
						mu.Lock()
						errs[key] = fmt.Errorf("panic: %s\n%s", msg, stackHead(st, 16))
						mu.Unlock()
					}
					return
				}
				if msg, st := catch(func() {
					if err := runGroup(w, req, s); err != nil {
						mu.Lock()
						errs[key] = err
						mu.Unlock()
					}
				}); msg != "" {
					mu.Lock()
					errs[key] = fmt.Errorf("panic: %s\n%s", msg, stackHead(st, 16))
					mu.Unlock()
				}
			}
			var stc, ctc *tls.Config
			if useTLS {
				stc, ctc = pki.ServerOnly, pki.ClientPlain
			}
			srv, err := startSrv(SrvCfg{TLS: stc}, func(m *gldap.Mux) {
				m.Bind(handler)
				m.Search(handler)
				m.Add(handler)
				m.Delete(handler)
				m.Modify(handler)
			})
			if err != nil {
				c.Inconclusive("server start: " + err.Error())
				return
			}
			for i := w; i < conns; i += workers {
				n := 1 + r.Intn(20)
				var list []*c04Script
				used := map[int64]bool{}
				var all []byte
				mu.Lock()
				for k := range scripts {
					delete(scripts, k)
				}
				for k := 0; k < n; k++ {
					s := genScript(r, pick(r, c04Ctors))
					for used[s.MsgID] {
						s.MsgID = genID(r)
					}
					used[s.MsgID] = true
					key := fmt.Sprintf("script-%d-%d", i, k)
					group := []*c04Script{s}
					// a third of the requests get 2..3 responses built from the same request
					for g, ng := 0, pick(r, []int{0, 0, 1, 2}); g < ng; g++ {
						s2 := genScript(r, pick(r, c04Ctors))
						s2.MsgID = s.MsgID
						group = append(group, s2)
					}
					// a quarter of the single-response requests write their response object more than once, with
					// setters in between
					if len(group) == 1 && r.Chance(25) {
						for k := 0; k <= len(s.Setters); k++ {
							if r.Bool() {
								s.Early = append(s.Early, k)
								list = append(list, s.upTo(k))
							}
						}
					}
					scripts[key] = group
					list = append(list, group...)
					// the request that carries the script is of any kind: what a constructor produces does not depend on it
					from := len(all)
					switch r.Intn(8) {
					case 0, 1, 2:
						all = append(all, sber.Message(s.MsgID, sber.BindRequest(3, []byte(key), []byte("p")), nil).Encode()...)
					case 3, 4:
						all = append(all, sber.Message(s.MsgID, sber.Search{Base: []byte(key), Scope: 2, Filter: sber.PresentFilter("objectClass"), Attrs: [][]byte{}}.Node(), nil).Encode()...)
					case 5:
						all = append(all, sber.Message(s.MsgID, sber.AddRequest([]byte(key), []sber.Attr{{Type: []byte("cn"), Vals: [][]byte{[]byte("x")}}}), nil).Encode()...)
						c04OtherKinds.Add(1)
					case 6:
						all = append(all, sber.Message(s.MsgID, sber.DelRequest([]byte(key)), nil).Encode()...)
						c04OtherKinds.Add(1)
					default:
						all = append(all, sber.Message(s.MsgID, sber.ModifyRequest([]byte(key), nil), nil).Encode()...)
						c04OtherKinds.Add(1)
					}
					// now and then the client pads its message ID with leading zero octets (gldap's reader takes that): the
					// response is gldap's own encoding, a well-formed one
					if idb := sber.IntBytes(s.MsgID); r.Chance(10) && len(idb) <= 5 && len(all)-from < 120 {
						if msg, _, err := sber.Parse(all[from:]); err == nil && len(msg.Children) >= 2 {
							msg.Children[0] = sber.Prim(sber.Universal, sber.TagInteger, append(make([]byte, 1+r.Intn(3)), idb...))
							all = append(all[:from], msg.Encode()...)
							c04PaddedIDs.Add(1)
						}
					}
				}
				// now and then: a request that is answered by a LATER request's handler, with that handler's writer
				// (the response must still carry the message ID of the request it was built from)
				if r.Chance(20) {
					sx, sy := genScript(r, pick(r, c04Ctors)), genScript(r, pick(r, c04Ctors))
					for used[sx.MsgID] {
						sx.MsgID = genID(r)
					}
					used[sx.MsgID] = true
					for used[sy.MsgID] {
						sy.MsgID = genID(r)
					}
					used[sy.MsgID] = true
					tag := fmt.Sprintf("%d", i)
					scripts["xreq-fire-"+tag] = []*c04Script{sx, sy}
					delete(parked, "xreq-park-"+tag)
					list = append(list, sx, sy)
					all = append(all, sber.Message(sx.MsgID, sber.Search{Base: []byte("xreq-park-" + tag), Scope: 2, Filter: sber.PresentFilter("objectClass"), Attrs: [][]byte{}}.Node(), nil).Encode()...)
					all = append(all, sber.Message(sy.MsgID, sber.BindRequest(3, []byte("xreq-fire-"+tag), []byte("p")), nil).Encode()...)
					c.Count("requests_answered_by_another_requests_handler", 1)
				}
				mu.Unlock()
				cl, err := dialRaw(srv.Addr, ctc)
				if err != nil {
					c.Inconclusive("dial: " + err.Error())
					continue
				}
				all = append(all, sber.Message(1, sber.UnbindRequest(), nil).Encode()...)
				go cl.Send(all)
				byID := map[int64][]*c04Script{}
				for _, s := range list {
					byID[s.MsgID] = append(byID[s.MsgID], s)
				}
				frames := 0
				for {
					m, err := cl.ReadMsg(patience)
					if err != nil {
						if isTimeout(err) {
							c.Inconclusive("timeout waiting for responses / EOF")
						} else if !strings.Contains(err.Error(), "EOF") {
							c.Violate("response is not a well-formed LDAPMessage", err.Error(), map[string]any{"scripts": list})
						}
						break
					}
					frames++
					c.Count("bytes_parsed", int64(len(m.Raw)))
					q := byID[m.ID]
					if len(q) == 0 {
						c.Violate("response carries a message ID no request had", fmt.Sprintf("message id %d", m.ID), nil)
						continue
					}
					s := q[0] // frames written by one handler arrive in the order it wrote them
					byID[m.ID] = q[1:]
					if len(q) > 1 || len(scriptsOf(list, m.ID)) > 1 {
						c.Count("responses_from_a_request_with_several_responses", 1)
					}
					if len(s.Early) > 0 {
						c.Count("responses_written_again_after_further_setters", 1)
					}
					c.Count("responses_checked", 1)
					c.Count("scripts/"+s.Ctor, 1)
					c.Distinct("script_shapes", s.sig())
					if d := c04Check(s, m); len(d) > 0 {
						c.Violate("response on the wire differs from what the handler set ("+s.Ctor+")", strings.Join(d, "; "), map[string]any{"script": s, "frame_hex": hx(trunc(m.Raw, 1024)), "diff": d})
					}
				}
				cl.Close()
				mu.Lock()
				for key, e := range errs {
					if strings.HasPrefix(e.Error(), "panic:") {
						c.Violate("panic while building or writing a response", e.Error(), map[string]any{"script": scripts[key]})
					} else if strings.Contains(e.Error(), "toGldap") || strings.Contains(e.Error(), "never arrived") {
						c.Inconclusive("script error: " + e.Error())
					} else {
						// the client is connected and reading: a Write that reports an error has not delivered its response
						c.Violate("Write failed on a live connection", e.Error(), map[string]any{"script": scripts[key]})
					}
					delete(errs, key)
					if g := scripts[key]; len(g) > 0 {
						delete(byID, g[0].MsgID)
					}
				}
				mu.Unlock()
				for _, q := range byID {
					for _, s := range q {
						c.Violate("a successful Write produced no frame at the client", s.sig(), map[string]any{"script": s})
					}
				}
				if i < 2 && len(list) > 0 {
					c.Sample(map[string]any{"script": list[0]})
				}
				c.Count("connections", 1)
			}
			srv.StopWithin(patience)
		}(w)
	}
	wg.Wait()
	c.Count("responses_built_with_options_their_constructor_does_not_support", c04Foreign.Swap(0))
	c.Count("scripts_carried_by_add_delete_and_modify_requests", c04OtherKinds.Swap(0))
	c.Count("requests_whose_message_id_was_padded_with_zero_octets", c04PaddedIDs.Swap(0))
	c.Count("extended_responses_given_a_response_name", c04RespNames.Swap(0))
	c.Count("entries_whose_attribute_map_was_reused_before_the_write", c04MapsReused.Swap(0))
}

// c04GoLDAP pushes Bind and Search flows through go-ldap as a second observer.
func c04GoLDAP(c *Ctx) {
	r := c.Rng
	var mu sync.Mutex
	type flow struct {
		Code    int
		Diag    string
		Matched string
		Ctls    []CtlSpec
		Entries []*c04Script
	}
	var cur *flow
	srv, err := startSrv(SrvCfg{}, func(m *gldap.Mux) {
		m.Bind(func(w *gldap.ResponseWriter, req *gldap.Request) {
			mu.Lock()
			f := cur
			mu.Unlock()
			resp := req.NewBindResponse(gldap.WithResponseCode(f.Code))
			resp.SetDiagnosticMessage(f.Diag)
			resp.SetMatchedDN(f.Matched)
			cs, _ := toGldapAll(f.Ctls)
			resp.SetControls(cs...)
			w.Write(resp)
		})
		m.Search(func(w *gldap.ResponseWriter, req *gldap.Request) {
			mu.Lock()
			f := cur
			mu.Unlock()
			for _, e := range f.Entries {
				e.run(w, req)
			}
			resp := req.NewSearchDoneResponse(gldap.WithResponseCode(f.Code))
			resp.SetDiagnosticMessage(f.Diag)
			resp.SetMatchedDN(f.Matched)
			cs, _ := toGldapAll(f.Ctls)
			resp.SetControls(cs...)
			w.Write(resp)
		})
	})
	if err != nil {
		c.Inconclusive("server start: " + err.Error())
		return
	}
	defer srv.StopWithin(patience)
	lc, err := ldap.DialURL("ldap://" + srv.Addr)
	if err != nil {
		c.Inconclusive("go-ldap dial: " + err.Error())
		return
	}
	defer lc.Close()
	lc.SetTimeout(patience)
	for i := 0; i < c.N(400, 8000); i++ {
		f := &flow{Code: pick(r, []int{0, 0, 0, 49, 53, 32, 4, 80}), Diag: string(advBytes(r)), Matched: string(advBytes(r))}
		// go-ldap can decode these control shapes without panicking (see DESIGN 1.2)
		for k, n := 0, r.Intn(4); k < n; k++ {
			cs := genGldapCtl(r, pick(r, []string{"paging", "dsait", "generic", "ms-notif", "ms-del", "ms-ttl", "vchu-must"}))
			if cs.Kind == "generic" {
				// go-ldap special-cases several OIDs (and panics on some shapes): use an OID space it does not know
				cs.OID = fmt.Sprintf("9.9.%d.%d", r.Intn(1000), r.Intn(1000))
				if !validUTF8(cs.Value) {
					continue
				}
			}
			f.Ctls = append(f.Ctls, cs)
		}
		isSearch := r.Bool()
		if isSearch {
			for k, n := 0, r.Intn(4); k < n; k++ {
				e := genScript(r, "NewSearchResponseEntry")
				f.Entries = append(f.Entries, e)
			}
		}
		mu.Lock()
		cur = f
		mu.Unlock()
		var gotCtls []ldap.Control
		var e error
		var sr *ldap.SearchResult
		if pm, _ := catch(func() {
			if isSearch {
				sr, e = lc.Search(ldap.NewSearchRequest("dc=x", 2, 0, 0, 0, false, "(objectClass=*)", nil, nil))
				if sr != nil {
					gotCtls = sr.Controls
				}
			} else {
				var br *ldap.SimpleBindResult
				br, e = lc.SimpleBind(&ldap.SimpleBindRequest{Username: "cn=x", Password: "p"})
				if br != nil {
					gotCtls = br.Controls
				}
			}
		}); pm != "" {
			c.Count("goldap_client_panics_ignored", 1) // a go-ldap client bug, not an observation about gldap
			lc.Close()
			lc, _ = ldap.DialURL("ldap://" + srv.Addr)
			lc.SetTimeout(patience)
			continue
		}
		c.Count("goldap_responses_checked", 1)
		c.Count("responses_checked", 1)
		c.Distinct("script_shapes", fmt.Sprintf("goldap/%v/c%d/e%d/ctl%d", isSearch, f.Code, len(f.Entries), len(f.Ctls)))
		det := map[string]any{"flow": f, "search": isSearch}
		if f.Code == 0 {
			if e != nil {
				c.Violate("go-ldap sees a failure where the handler set success", e.Error(), det)
				continue
			}
		} else {
			le, ok := e.(*ldap.Error)
			if !ok || int(le.ResultCode) != f.Code {
				c.Violate("go-ldap sees a different result code than the handler set", fmt.Sprintf("%v, want code %d", e, f.Code), det)
				continue
			}
			if le.MatchedDN != f.Matched {
				c.Violate("go-ldap sees a different matched DN than the handler set", fmt.Sprintf("%q != %q", le.MatchedDN, f.Matched), det)
			}
			if le.Err == nil || le.Err.Error() != f.Diag {
				c.Violate("go-ldap sees a different diagnostic message than the handler set", fmt.Sprintf("%v != %q", le.Err, f.Diag), det)
			}
		}
		if isSearch && sr != nil {
			if len(sr.Entries) != len(f.Entries) {
				c.Violate("go-ldap sees a different number of entries", fmt.Sprintf("%d != %d", len(sr.Entries), len(f.Entries)), det)
			} else {
				for k, en := range sr.Entries {
					ex := f.Entries[k].expect()
					if en.DN != string(f.Entries[k].EntryDN) || len(en.Attributes) != len(ex.MapAttrs)+len(ex.Added) {
						c.Violate("go-ldap sees a different entry than the handler wrote", fmt.Sprintf("entry %d", k), det)
						continue
					}
					for a, st := range ex.Added {
						ga := en.Attributes[len(ex.MapAttrs)+a]
						if ga.Name != string(st.Name) || strings.Join(ga.Values, "\x01") != strings.Join(bytesToStrs(st.Vals), "\x01") {
							c.Violate("go-ldap sees a different entry than the handler wrote", fmt.Sprintf("entry %d attribute %d", k, a), det)
						}
					}
				}
			}
		}
		if f.Code == 0 {
			if len(gotCtls) != len(f.Ctls) {
				c.Violate("go-ldap sees a different number of response controls", fmt.Sprintf("%d != %d", len(gotCtls), len(f.Ctls)), det)
			} else {
				for k, g := range gotCtls {
					if g.GetControlType() != f.Ctls[k].OID {
						c.Violate("go-ldap sees a different response control", fmt.Sprintf("control %d: %s != %s", k, g.GetControlType(), f.Ctls[k].OID), det)
					}
					if p, ok := g.(*ldap.ControlPaging); ok && (int64(p.PagingSize) != f.Ctls[k].Size || !bytes.Equal(p.Cookie, f.Ctls[k].Cookie)) {
						c.Violate("go-ldap sees a different response control", fmt.Sprintf("control %d paging fields", k), det)
					}
				}
			}
		}
	}
}

func scriptsOf(list []*c04Script, id int64) []*c04Script {
	var out []*c04Script
	for _, s := range list {
		if s.MsgID == id {
			out = append(out, s)
		}
	}
	return out
}

func validUTF8(b []byte) bool { return strings.ToValidUTF8(string(b), "\x00\x01") == string(b) }
