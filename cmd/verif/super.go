package main

import (
	"bufio"
	"bytes"
	"encoding/json"
	"fmt"
	"os"
	"os/exec"
	"os/signal"
	"path/filepath"
	"regexp"
	"sort"
	"strconv"
	"strings"
	"sync/atomic"
	"syscall"
	"time"
)

// Super is the supervisor state for one check invocation.
type Super struct {
	Check    *Check
	Tier     string
	Seed     int64
	Scratch  string
	VerifDir string

	merged     PhaseResult
	sets       map[string]map[uint64]struct{}
	phasesRun  int
	crashes    int
	races      []RaceReport
	raceBlocks int
	infra      []string // infrastructure problems (exit 2)
	start      time.Time
}

// RaceReport is one de-duplicated race-detector report.
type RaceReport struct {
	Attribution string   `json:"attribution"` // gldap | harness | thirdparty
	Key         string   `json:"key"`
	Stacks      []string `json:"stacks"`
	Count       int      `json:"count"`
	Phase       string   `json:"phase"`
}

// KnownFinding is one entry of /verif/known_findings.json.
type KnownFinding struct {
	Property string `json:"property"`
	Key      string `json:"key"`
	Status   string `json:"status"` // known | fixed
	Commit   string `json:"commit,omitempty"`
	What     string `json:"what"`
}

func verifDir() string {
	if d := os.Getenv("VERIF_DIR"); d != "" {
		return d
	}
	exe, err := os.Executable()
	if err == nil {
		d := filepath.Dir(filepath.Dir(exe))
		if _, err := os.Stat(filepath.Join(d, "MANIFEST.json")); err == nil {
			return d
		}
	}
	return "/verif"
}

// currentChild is the process group of the phase that is running (0 = none): a supervisor that is told to go away
// (SIGTERM/SIGINT/SIGHUP, e.g. by an outer timeout) takes its child along instead of leaving it orphaned.
var currentChild atomic.Int64

func superMain(args []string) int {
	if len(args) < 1 {
		return usage()
	}
	sigs := make(chan os.Signal, 1)
	signal.Notify(sigs, syscall.SIGTERM, syscall.SIGINT, syscall.SIGHUP)
	go func() {
		<-sigs
		if pid := currentChild.Load(); pid > 0 {
			_ = syscall.Kill(-int(pid), syscall.SIGKILL)
		}
		os.Exit(2)
	}()
	id := args[0]
	tier := os.Getenv("VERIF_TIER")
	replay := ""
	rest := args[1:]
	for i := 0; i < len(rest); i++ {
		switch rest[i] {
		case "quick", "thorough":
			tier = rest[i]
		case "--replay":
			if i+1 < len(rest) {
				replay = rest[i+1]
				i++
			}
		}
	}
	if tier == "" {
		tier = "quick"
	}
	seed := int64(1)
	if s := os.Getenv("VERIF_SEED"); s != "" {
		if v, err := strconv.ParseInt(s, 10, 64); err == nil {
			seed = v
		}
	}
	ck := registry[id]
	if ck == nil {
		fmt.Fprintf(os.Stderr, "unknown property %q\n", id)
		return 2
	}
	s := &Super{Check: ck, Tier: tier, Seed: seed, VerifDir: verifDir(), sets: map[string]map[uint64]struct{}{}, start: time.Now()}
	s.merged.Counts = map[string]int64{}
	s.merged.Notes = map[string]any{}

	var onlyPhase string
	if replay != "" {
		b, err := os.ReadFile(replay)
		if err != nil {
			fmt.Fprintln(os.Stderr, "replay:", err)
			return 2
		}
		var rp struct {
			Property string `json:"property"`
			Tier     string `json:"tier"`
			Seed     int64  `json:"seed"`
			Phase    string `json:"phase"`
		}
		if err := json.Unmarshal(b, &rp); err != nil {
			fmt.Fprintln(os.Stderr, "replay:", err)
			return 2
		}
		s.Tier, s.Seed, onlyPhase = rp.Tier, rp.Seed, rp.Phase
		fmt.Printf("replaying %s tier=%s seed=%d phase=%s\n", rp.Property, rp.Tier, rp.Seed, rp.Phase)
	}

	base := os.Getenv("VERIF_SCRATCH")
	var err error
	s.Scratch, err = os.MkdirTemp(base, "verif-"+id+"-")
	if err != nil {
		fmt.Fprintln(os.Stderr, "scratch:", err)
		return 2
	}
	defer os.RemoveAll(s.Scratch)

	queue := ck.Phases(s.Tier, s.Seed)
	if onlyPhase != "" {
		var q []Phase
		for _, p := range queue {
			if p.Name == onlyPhase || strings.HasPrefix(onlyPhase, p.Name+"@") {
				q = append(q, p)
			}
		}
		if len(q) > 0 {
			queue = q
		}
	}
	if only := os.Getenv("VERIF_PHASES"); only != "" { // development aid: run a subset of the phases
		var q []Phase
		for _, p := range queue {
			for _, o := range strings.Split(only, ",") {
				if p.Name == o {
					q = append(q, p)
				}
			}
		}
		queue = q
	}
	for len(queue) > 0 {
		ph := queue[0]
		queue = queue[1:]
		follow := s.runPhase(ph)
		queue = append(follow, queue...)
	}
	return s.finish()
}

func (s *Super) runPhase(ph Phase) []Phase {
	s.phasesRun++
	tag := fmt.Sprintf("%03d-%s", s.phasesRun, sanitize(ph.Name))
	out := filepath.Join(s.Scratch, tag+".json")
	errPath := filepath.Join(s.Scratch, tag+".stderr")
	racePrefix := filepath.Join(s.Scratch, tag+".race")
	binDir := os.Getenv("VERIF_BIN_DIR")
	if binDir == "" {
		binDir = filepath.Join(s.VerifDir, "bin")
	}
	bin := filepath.Join(binDir, "verif")
	if ph.Race {
		bin = filepath.Join(binDir, "verif-race")
	}
	if ph.Bin != "" {
		bin = filepath.Join(binDir, ph.Bin)
		if _, err := os.Stat(bin); err != nil {
			s.merged.Notes["skipped/"+ph.Name] = "optional binary " + ph.Bin + " not available"
			s.phasesRun--
			return nil
		}
	}
	cmd := exec.Command(bin, "--child", s.Check.ID, s.Tier, ph.Name, out)
	cmd.Env = append(os.Environ(),
		"VERIF_SEED="+strconv.FormatInt(s.Seed, 10),
		"VERIF_ARG="+ph.Arg,
		"VERIF_SCRATCH_DIR="+s.Scratch,
		"GORACE=halt_on_error=0 history_size=5 log_path="+racePrefix,
		"GOTRACEBACK=all",
	)
	for k, v := range ph.Env {
		cmd.Env = append(cmd.Env, k+"="+v)
	}
	ef, err := os.Create(errPath)
	if err != nil {
		s.infra = append(s.infra, err.Error())
		return nil
	}
	cmd.Stderr = ef
	cmd.Stdout = ef
	cmd.SysProcAttr = &syscall.SysProcAttr{Setpgid: true}
	timeout := ph.Timeout
	if timeout == 0 {
		timeout = 15 * time.Minute
		if s.Tier == "thorough" {
			timeout = 90 * time.Minute
		}
	}
	t0 := time.Now()
	if err := cmd.Start(); err != nil {
		ef.Close()
		s.infra = append(s.infra, "cannot start child: "+err.Error())
		return nil
	}
	currentChild.Store(int64(cmd.Process.Pid))
	defer currentChild.Store(0)
	done := make(chan error, 1)
	go func() { done <- cmd.Wait() }()
	var werr error
	timedOut := false
	select {
	case werr = <-done:
	case <-time.After(timeout):
		timedOut = true
		_ = cmd.Process.Signal(syscall.SIGQUIT)
		select {
		case werr = <-done:
		case <-time.After(10 * time.Second):
			_ = syscall.Kill(-cmd.Process.Pid, syscall.SIGKILL)
			werr = <-done
		}
	}
	ef.Close()
	_ = syscall.Kill(-cmd.Process.Pid, syscall.SIGKILL) // any stragglers in the group
	stderrB, _ := os.ReadFile(errPath)
	stderr := string(stderrB)
	if os.Getenv("VERIF_VERBOSE") != "" {
		fmt.Fprintf(os.Stderr, "---- phase %s (%.1fs) ----\n%s\n", ph.Name, time.Since(t0).Seconds(), tail(stderr, 4000))
	}

	var pr *PhaseResult
	if b, err := os.ReadFile(out); err == nil {
		var r PhaseResult
		if json.Unmarshal(b, &r) == nil {
			pr = &r
		}
	}
	s.collectRaces(racePrefix, ph.Name)

	var follow []Phase
	// a child that finished its phase is normal even when the race runtime makes it exit 66
	abnormal := pr == nil || !pr.Done
	_ = werr
	if pr != nil {
		s.merge(pr, ph.Name)
	}
	switch {
	case timedOut:
		dump := filepath.Join(s.VerifDir, "replays", fmt.Sprintf("%s-watchdog-%s.txt", s.Check.ID, sanitize(ph.Name)))
		os.MkdirAll(filepath.Dir(dump), 0o755)
		os.WriteFile(dump, []byte(tail(stderr, 400000)), 0o644)
		s.infra = append(s.infra, fmt.Sprintf("phase %s: wall-clock watchdog (%s) fired; goroutine dump in %s", ph.Name, timeout, dump))
	case abnormal:
		s.crashes++
		if ph.Crash != nil {
			follow = ph.Crash(s, ph, stderr, pr)
		} else {
			s.defaultCrash(ph, stderr)
		}
	}
	return follow
}

// defaultCrash classifies an unexpected child death.
func (s *Super) defaultCrash(ph Phase, stderr string) {
	site, msg, isGldap := classifyCrash(stderr)
	if isGldap {
		s.merged.Violations = append(s.merged.Violations, Violation{
			Key:    "process crash in " + site + ": " + msg,
			What:   fmt.Sprintf("the process hosting the server died during phase %s: %s", ph.Name, msg),
			Detail: map[string]any{"phase": ph.Name, "stderr_tail": tail(stderr, 6000)},
		})
		return
	}
	s.infra = append(s.infra, fmt.Sprintf("phase %s: child died without a gldap frame on the stack: %s\n%s", ph.Name, msg, tail(stderr, 3000)))
}

var (
	reGoroutine = regexp.MustCompile(`(?m)^goroutine \d+`)
	reHex       = regexp.MustCompile(`0x[0-9a-fA-F]+`)
	reNum       = regexp.MustCompile(`\b\d+\b`)
)

// classifyCrash finds the panic message and the innermost gldap frame of the
// panicking goroutine in a Go crash dump.
func classifyCrash(stderr string) (site, msg string, gldap bool) {
	idx := strings.Index(stderr, "panic: ")
	if j := strings.Index(stderr, "fatal error: "); j >= 0 && (idx < 0 || j < idx) {
		idx = j
	}
	if idx < 0 {
		return "", "no panic/fatal error marker", false
	}
	rest := stderr[idx:]
	line := rest
	if nl := strings.IndexByte(rest, '\n'); nl >= 0 {
		line = rest[:nl]
	}
	msg = normMsg(line)
	// first goroutine block after the marker is the panicking one
	loc := reGoroutine.FindStringIndex(rest)
	if loc == nil {
		return "", msg, false
	}
	block := rest[loc[0]:]
	if end := strings.Index(block, "\n\n"); end >= 0 {
		block = block[:end]
	}
	for _, l := range strings.Split(block, "\n") {
		l = strings.TrimSpace(l)
		if strings.HasPrefix(l, "github.com/jimlambrt/gldap") {
			fn := l
			if p := strings.LastIndex(fn, "("); p > 0 {
				fn = fn[:p]
			}
			return strings.TrimPrefix(fn, "github.com/jimlambrt/"), msg, true
		}
	}
	return "", msg, false
}

func normMsg(m string) string {
	m = strings.TrimSpace(m)
	m = reHex.ReplaceAllString(m, "0x?")
	if i := strings.Index(m, " [recovered]"); i >= 0 {
		m = m[:i]
	}
	if len(m) > 160 {
		m = m[:160]
	}
	return m
}

func (s *Super) merge(pr *PhaseResult, phase string) {
	for k, v := range pr.Counts {
		if strings.HasPrefix(k, "max/") {
			if v > s.merged.Counts[k] {
				s.merged.Counts[k] = v
			}
			continue
		}
		s.merged.Counts[k] += v
	}
	for k, l := range pr.Sets {
		m := s.sets[k]
		if m == nil {
			m = map[uint64]struct{}{}
			s.sets[k] = m
		}
		for _, h := range l {
			m[h] = struct{}{}
		}
	}
	for _, smp := range pr.Samples {
		if len(s.merged.Samples) < 8 {
			s.merged.Samples = append(s.merged.Samples, smp)
		}
	}
	for k, v := range pr.Notes {
		s.merged.Notes[phase+"/"+k] = v
	}
	for _, v := range pr.Violations {
		if d, ok := v.Detail.(map[string]any); ok {
			d["phase"] = phase
		} else {
			v.Detail = map[string]any{"phase": phase, "detail": v.Detail}
		}
		s.merged.Violations = append(s.merged.Violations, v)
	}
	for _, i := range pr.Inconclusive {
		s.merged.Inconclusive = append(s.merged.Inconclusive, phase+": "+i)
	}
}

// ---------------------------------------------------------------- race logs

func (s *Super) collectRaces(prefix, phase string) {
	files, _ := filepath.Glob(prefix + ".*")
	for _, f := range files {
		b, err := os.ReadFile(f)
		if err != nil {
			continue
		}
		for _, blk := range strings.Split(string(b), "==================") {
			if !strings.Contains(blk, "WARNING: DATA RACE") {
				continue
			}
			s.raceBlocks++
			rep := parseRaceBlock(blk)
			rep.Phase = phase
			found := false
			for i := range s.races {
				if s.races[i].Key == rep.Key {
					s.races[i].Count++
					found = true
					break
				}
			}
			if !found {
				rep.Count = 1
				s.races = append(s.races, rep)
			}
		}
	}
}

type frame struct{ fn, file string }

func parseRaceBlock(blk string) RaceReport {
	// Sections start with a non-indented line ending in ':' ("Write at ... by goroutine 7:")
	var sections [][]frame
	var titles []string
	sc := bufio.NewScanner(strings.NewReader(blk))
	sc.Buffer(make([]byte, 1<<20), 1<<20)
	var cur []frame
	var pendingFn string
	flush := func() {
		if cur != nil {
			sections = append(sections, cur)
		}
		cur = nil
	}
	for sc.Scan() {
		l := sc.Text()
		t := strings.TrimSpace(l)
		if t == "" {
			continue
		}
		if !strings.HasPrefix(l, " ") && strings.HasSuffix(t, ":") {
			flush()
			titles = append(titles, t)
			cur = []frame{}
			continue
		}
		if cur == nil {
			continue
		}
		if strings.HasPrefix(l, "      ") { // file line
			file := t
			if sp := strings.IndexByte(file, ' '); sp >= 0 {
				file = file[:sp]
			}
			cur = append(cur, frame{fn: pendingFn, file: file})
			pendingFn = ""
		} else {
			fn := t
			if p := strings.LastIndex(fn, "("); p > 0 {
				fn = fn[:p]
			}
			pendingFn = fn
		}
	}
	flush()
	rep := RaceReport{}
	attr := "harness"
	var keyParts []string
	n := 0
	for i, sec := range sections {
		if i >= len(titles) {
			break
		}
		tl := titles[i]
		isAccess := strings.HasPrefix(tl, "Write at") || strings.HasPrefix(tl, "Read at") ||
			strings.HasPrefix(tl, "Previous write at") || strings.HasPrefix(tl, "Previous read at") ||
			strings.HasPrefix(tl, "Atomic") || strings.HasPrefix(tl, "Previous atomic")
		if !isAccess {
			continue
		}
		n++
		var fns []string
		for _, fr := range sec {
			fns = append(fns, fr.fn)
		}
		keyParts = append(keyParts, strings.Join(fns, "<"))
		rep.Stacks = append(rep.Stacks, reHex.ReplaceAllString(tl, "0x?")+" "+stackString(sec))
		switch attribute(sec) {
		case "gldap":
			attr = "gldap"
		case "thirdparty":
			if attr != "gldap" {
				attr = "thirdparty"
			}
		}
		if n == 2 {
			break
		}
	}
	sort.Strings(keyParts)
	rep.Key = strings.Join(keyParts, " || ")
	rep.Attribution = attr
	return rep
}

func stackString(sec []frame) string {
	var parts []string
	for i, fr := range sec {
		if i >= 8 {
			break
		}
		parts = append(parts, fr.fn+" "+fr.file)
	}
	return strings.Join(parts, " <- ")
}

// attribute returns who owns the innermost non-runtime, non-stdlib frame.
func attribute(sec []frame) string {
	for _, fr := range sec {
		switch {
		case strings.HasPrefix(fr.fn, "github.com/jimlambrt/gldap"):
			return "gldap"
		case strings.HasPrefix(fr.fn, "main.") || strings.HasPrefix(fr.fn, "verif/"):
			return "harness"
		case strings.Contains(fr.file, "/pkg/mod/"):
			return "thirdparty"
		}
		// stdlib / runtime frame: keep walking outwards
	}
	return "harness"
}

// ---------------------------------------------------------------- finish

func (s *Super) loadKnown() []KnownFinding {
	b, err := os.ReadFile(filepath.Join(s.VerifDir, "known_findings.json"))
	if err != nil {
		return nil
	}
	var f struct {
		Findings []KnownFinding `json:"findings"`
	}
	if err := json.Unmarshal(b, &f); err != nil {
		fmt.Fprintln(os.Stderr, "known_findings.json:", err)
		return nil
	}
	return f.Findings
}

func (s *Super) finish() int {
	ck := s.Check
	// races
	gldapRaces := 0
	selftest := 0
	for _, r := range s.races {
		switch r.Attribution {
		case "gldap":
			gldapRaces++
			if ck.RaceIsViolation {
				s.merged.Violations = append(s.merged.Violations, Violation{
					Key:    "data race: " + shortRaceKey(r),
					What:   "race detector report with a racing access inside gldap",
					Detail: map[string]any{"phase": r.Phase, "stacks": r.Stacks, "count": r.Count},
				})
			}
		case "harness":
			if r.Phase == "selftest" {
				selftest++
			} else if ck.RaceIsViolation {
				s.infra = append(s.infra, "race report attributed to harness code: "+strings.Join(r.Stacks, " | "))
			}
		}
	}
	if ck.ID == "C15" {
		s.merged.Counts["detector_selftest_reports"] = int64(selftest)
		if selftest == 0 {
			s.merged.Inconclusive = append(s.merged.Inconclusive, "the deliberate self-test race was not reported: the race detector is not live")
		}
	}

	known := s.loadKnown()
	isKnown := func(key string) *KnownFinding {
		for i := range known {
			if known[i].Property == ck.ID && known[i].Status == "known" && known[i].Key == key {
				return &known[i]
			}
		}
		return nil
	}

	// group violations by key
	type grp struct {
		first Violation
		n     int64
	}
	groups := map[string]*grp{}
	var order []string
	for _, v := range s.merged.Violations {
		g := groups[v.Key]
		if g == nil {
			g = &grp{first: v}
			groups[v.Key] = g
			order = append(order, v.Key)
		}
		g.n++
	}
	for k, g := range groups {
		if c := s.merged.Counts["violations/"+k]; c > g.n {
			g.n = c
		}
	}
	sort.Strings(order)
	exit := 0
	unlisted := 0
	os.MkdirAll(filepath.Join(s.VerifDir, "replays"), 0o755)
	for i, k := range order {
		g := groups[k]
		if kf := isKnown(k); kf != nil {
			fmt.Printf("KNOWN-FINDING: property=%s %s (observed %d times this run)\n", ck.ID, kf.Key, g.n)
			continue
		}
		unlisted++
		phase := ""
		if d, ok := g.first.Detail.(map[string]any); ok {
			if p, ok := d["phase"].(string); ok {
				phase = p
			}
		}
		rp := map[string]any{"property": ck.ID, "tier": s.Tier, "seed": s.Seed, "phase": phase,
			"key": k, "what": g.first.What, "occurrences": g.n, "detail": g.first.Detail}
		path := filepath.Join(s.VerifDir, "replays", fmt.Sprintf("%s-%s-seed%d-%02d.json", ck.ID, s.Tier, s.Seed, i))
		b, _ := json.MarshalIndent(rp, "", " ")
		os.WriteFile(path, b, 0o644)
		fmt.Printf("VIOLATION property=%s replay=%s\n", ck.ID, path)
		fmt.Printf("  key: %s\n  what: %s (x%d)\n", k, g.first.What, g.n)
		exit = 1
	}

	// observed-nothing guard
	for _, name := range ck.MinObserved {
		if s.merged.Counts[name] <= 0 {
			s.merged.Inconclusive = append(s.merged.Inconclusive, "observed nothing: counter "+name+" is 0")
		}
	}

	// evidence
	cov := map[string]any{}
	for k, v := range s.merged.Counts {
		if strings.HasPrefix(k, "violations/") {
			continue
		}
		cov[k] = v
	}
	for k, m := range s.sets {
		cov["distinct/"+k] = len(m)
	}
	evals := s.merged.Counts[ck.EvalCount]
	distinct := len(s.sets[ck.Primary])
	cov["evaluations"] = evals
	cov["distinct_nontrivial"] = distinct
	cov["rule"] = ck.Rule
	samples := s.merged.Samples
	if samples == nil {
		samples = []any{}
	}
	cov["samples"] = samples
	cov["phases_run"] = s.phasesRun
	cov["child_crashes"] = s.crashes
	cov["race_report_blocks"] = s.raceBlocks
	cov["race_reports_dedup_gldap"] = gldapRaces
	cov["race_reports_dedup_total"] = len(s.races)
	if len(s.races) > 0 {
		cov["race_reports"] = s.races
	}
	if len(s.merged.Notes) > 0 {
		cov["notes"] = s.merged.Notes
	}
	if len(s.merged.Inconclusive) > 0 {
		cov["inconclusive"] = s.merged.Inconclusive
	}
	if len(s.infra) > 0 {
		cov["infrastructure"] = s.infra
	}
	var totalV int64
	for _, g := range groups {
		totalV += g.n
	}
	ev := map[string]any{
		"property_id": ck.ID, "tier": s.Tier, "seed": s.Seed, "level": ck.Level,
		"coverage": cov, "assumptions": ck.Assume, "wall_s": time.Since(s.start).Seconds(),
		"violations": totalV, "verdict": "held on what was observed",
	}
	if exit == 1 {
		ev["verdict"] = "violated"
	} else if len(s.infra) > 0 || len(s.merged.Inconclusive) > 0 {
		ev["verdict"] = "inconclusive"
	}
	if os.Getenv("VERIF_NO_EVIDENCE") == "" {
		b, _ := json.MarshalIndent(ev, "", " ")
		os.MkdirAll(filepath.Join(s.VerifDir, "evidence"), 0o755)
		os.WriteFile(filepath.Join(s.VerifDir, "evidence", ck.ID+".json"), append(b, '\n'), 0o644)
	}

	fmt.Printf("%s %s seed=%d: %s; evaluations=%d distinct=%d violations=%d(unlisted keys %d) phases=%d crashes=%d races(gldap)=%d wall=%.1fs\n",
		ck.ID, s.Tier, s.Seed, ev["verdict"], evals, distinct, totalV, unlisted, s.phasesRun, s.crashes, gldapRaces, time.Since(s.start).Seconds())
	for _, m := range s.infra {
		fmt.Printf("INFRASTRUCTURE: %s\n", m)
	}
	for _, m := range s.merged.Inconclusive {
		fmt.Printf("INCONCLUSIVE: %s\n", m)
	}
	if exit == 1 {
		return 1
	}
	if len(s.infra) > 0 || len(s.merged.Inconclusive) > 0 {
		return 2
	}
	return 0
}

func shortRaceKey(r RaceReport) string {
	// innermost gldap function of each access
	var parts []string
	for _, st := range strings.Split(r.Key, " || ") {
		fn := ""
		for _, f := range strings.Split(st, "<") {
			if strings.HasPrefix(f, "github.com/jimlambrt/gldap") {
				fn = strings.TrimPrefix(f, "github.com/jimlambrt/")
				break
			}
		}
		if fn == "" {
			fs := strings.Split(st, "<")
			fn = fs[0]
		}
		parts = append(parts, fn)
	}
	sort.Strings(parts)
	return strings.Join(parts, " vs ")
}

func sanitize(s string) string {
	var b bytes.Buffer
	for _, r := range s {
		switch {
		case r >= 'a' && r <= 'z', r >= 'A' && r <= 'Z', r >= '0' && r <= '9', r == '-', r == '_', r == '.':
			b.WriteRune(r)
		default:
			b.WriteByte('_')
		}
	}
	return b.String()
}

func tail(s string, n int) string {
	if len(s) <= n {
		return s
	}
	return "...\n" + s[len(s)-n:]
}

// ---------------------------------------------------------------- child

func childMain(args []string) {
	if len(args) < 4 {
		fmt.Fprintln(os.Stderr, "child: bad args")
		os.Exit(2)
	}
	id, tier, phase, out := args[0], args[1], args[2], args[3]
	seed := int64(1)
	if v, err := strconv.ParseInt(os.Getenv("VERIF_SEED"), 10, 64); err == nil {
		seed = v
	}
	ck := registry[id]
	if ck == nil {
		fmt.Fprintln(os.Stderr, "child: unknown check", id)
		os.Exit(2)
	}
	var run func(*Ctx)
	for _, p := range ck.Phases(tier, seed) {
		if p.Name == phase {
			run = p.Run
			break
		}
	}
	if run == nil {
		// follow-up phases carry their base name before '@'
		base := phase
		if i := strings.IndexByte(phase, '@'); i >= 0 {
			base = phase[:i]
		}
		for _, p := range ck.Phases(tier, seed) {
			if p.Name == base {
				run = p.Run
				break
			}
		}
	}
	if run == nil {
		fmt.Fprintln(os.Stderr, "child: unknown phase", phase)
		os.Exit(2)
	}
	c := newCtx(id, tier, phase, out, seed)
	c.flush(false)
	run(c)
	if n := srvStarted.Load(); n > 0 {
		c.Count("harness/servers_started", n)
		c.Count("harness/servers_whose_mux_was_attached_before_the_routes_were_registered", srvRouterFirst.Load())
		c.Count("harness/servers_with_two_hour_read_and_write_timeouts", srvLongTimeouts.Load())
	}
	c.flush(true)
	os.Exit(0)
}
