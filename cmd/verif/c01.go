package main

import (
	"bytes"
	"crypto/tls"
	"fmt"
	"net"
	"sync"
	"time"

	"github.com/go-ldap/ldap/v3"
	"github.com/hashicorp/go-hclog"
	"github.com/jimlambrt/gldap"

	"verif/internal/sber"
)

func init() {
	register(&Check{
		ID: "C01", Level: "exploration", Primary: "shapes", EvalCount: "requests_compared",
		Rule: "requests are drawn from a seeded generator over all seven operations (message IDs over 0..2^31-1 incl. boundary values, adversarial byte strings, " +
			"go-ldap-accepted round-tripping filters, 0..n attributes/changes/values, 0..n controls of all nine typed kinds and generic OIDs, both criticalities) and encoded by two " +
			"independent encoders (sber, go-ldap client), against servers logging at Error and at Debug level; list lengths run up to 100 and lists repeat elements (verbatim and in another case); unsupported operations are sent under every application tag up to 30 and under 24 tags in the high-tag-number form (31 .. 2^32+3) with bind-shaped, empty and request-shaped bodies; each is compared field by field with what the handler obtains through the public API. " +
			"distinct_nontrivial counts distinct shape signatures (operation, id class, length classes, counts per list, control kind/criticality/value-presence sequence) of requests that reached a handler",
		Assume: []string{"extended-request values and extended/unbind controls are not exposed by gldap and are not asserted",
			"an extended request's name is observed through the exact-name route that served it, its message ID through the response's message ID"},
		Phases: func(tier string, seed int64) []Phase {
			ps := []Phase{{Name: "raw-plain", Run: func(c *Ctx) { c01Raw(c, false) }},
				{Name: "raw-debuglog", Run: func(c *Ctx) { c01DebugLog = true; c01Raw(c, false) }},
				{Name: "goldap", Run: c01GoLDAP},
				{Name: "negative", Run: c01Negative}}
			if tier == "thorough" {
				ps = append(ps, Phase{Name: "raw-tls", Run: func(c *Ctx) { c01Raw(c, true) }})
			}
			return ps
		},
		MinObserved: []string{"requests_compared", "negative_frames", "goldap_requests", "connections_served_with_a_debug_level_logger", "frames_stalled_midway_beyond_the_read_timeout"},
	})
}

var c01ExtNames = []string{sber.OIDWhoAmI, sber.OIDPasswordModify, sber.OIDStartTLS, "1.2.3.4"}

func isRegisteredExt(name []byte) bool {
	for _, n := range c01ExtNames {
		if n == string(name) {
			return true
		}
	}
	return false
}

// c01CheckConn compares the observations of one finished connection with the specs sent on it.
func c01CheckConn(c *Ctx, enc string, specs []*ReqSpec, obs []*Obs, negIDs map[int64]string) {
	byID := map[int64]*ReqSpec{}
	extWant := map[string][]*ReqSpec{}
	for _, q := range specs {
		if q.Kind == "extended" {
			route := "default"
			if isRegisteredExt(q.Name) {
				route = "ext:" + string(q.Name)
			}
			extWant[route] = append(extWant[route], q)
			continue
		}
		byID[q.ID] = q
	}
	seen := map[int64]int{}
	extGot := map[string]int{}
	for _, o := range obs {
		if o.Kinds == 0 { // extended
			extGot[o.Route]++
			l := extWant[o.Route]
			if extGot[o.Route] > len(l) {
				c.Violate("handler ran for a request the client did not send", fmt.Sprintf("[%s] extra extended request on route %s", enc, o.Route), o)
				continue
			}
			q := l[extGot[o.Route]-1]
			c.Count("requests_compared", 1)
			c.Distinct("shapes", q.Sig())
			if o.Route != "default" {
				if d := compareReq(q, o); len(d) > 0 {
					c.Violate("decoded extended request differs from what the client sent", fmt.Sprintf("[%s] %v", enc, d), map[string]any{"sent": q, "observed": o})
				}
			}
			continue
		}
		if why, neg := negIDs[o.ID]; neg {
			c.Violate("unsupported request delivered to a handler as "+o.Kind, fmt.Sprintf("[%s] %s reached route %s as a %s request", enc, why, o.Route, o.Kind), map[string]any{"frame": why, "observed": o})
			continue
		}
		q := byID[o.ID]
		if q == nil {
			c.Violate("handler ran for a request the client did not send", fmt.Sprintf("[%s] observation with message id %d kind %s", enc, o.ID, o.Kind), o)
			continue
		}
		seen[o.ID]++
		if seen[o.ID] > 1 {
			c.Violate("request delivered to a handler more than once", fmt.Sprintf("[%s] message id %d", enc, o.ID), o)
			continue
		}
		c.Count("requests_compared", 1)
		c.Count("requests/"+enc+"/"+q.Kind, 1)
		c.Distinct("shapes", q.Sig())
		wantRoute := q.Kind
		if o.Route != wantRoute {
			c.Violate("request served by the wrong kind of route", fmt.Sprintf("[%s] %s request reached route %s", enc, q.Kind, o.Route), map[string]any{"sent": q, "observed": o})
		}
		if d := compareReq(q, o); len(d) > 0 {
			key := "decoded " + q.Kind + " request differs from what the client sent"
			c.Violate(key, fmt.Sprintf("[%s] %v", enc, d), map[string]any{"sent": q, "sent_hex": hx(trunc(q.Encode(), 2048)), "observed": o, "diff": d})
		}
	}
	for id, q := range byID {
		if seen[id] == 0 {
			c.Violate("well-formed request never reached a handler", fmt.Sprintf("[%s] %s request id %d", enc, q.Kind, id), map[string]any{"sent": q, "sent_hex": hx(trunc(q.Encode(), 2048))})
		}
	}
	for route, l := range extWant {
		if extGot[route] < len(l) {
			c.Violate("well-formed request never reached a handler", fmt.Sprintf("[%s] %d extended requests for route %s, handler saw %d", enc, len(l), route, extGot[route]), nil)
		}
	}
}

// c01DebugLog makes the recording servers log at Debug level (the server pretty-prints every packet it reads and
// writes): what a handler receives must not depend on the log level.
var c01DebugLog bool

// c01Server starts a recording server.
func c01Server(tc *tls.Config) (*Srv, *Recorder, error) {
	rc := &Recorder{}
	cfg := SrvCfg{TLS: tc}
	if c01DebugLog {
		cfg.LogLevel = hclog.Debug
	}
	srv, err := startSrv(cfg, func(m *gldap.Mux) { rc.RegisterAll(m, c01ExtNames) })
	return srv, rc, err
}

// uniqueIDs re-draws message IDs so that they are unique on the connection.
func uniqueIDs(r *Rand, specs []*ReqSpec, used map[int64]bool) {
	for _, q := range specs {
		for used[q.ID] {
			q.ID = genID(r)
		}
		used[q.ID] = true
	}
}

func c01Raw(c *Ctx, useTLS bool) {
	conns := c.N(600, 8000)
	if c01DebugLog {
		conns = c.N(120, 1500)
		c.Count("connections_served_with_a_debug_level_logger", int64(conns))
	}
	if useTLS {
		conns = c.N(60, 1500)
	}
	workers := 16
	var pki *PKI
	if useTLS {
		pki = newPKI()
	}
	var wg sync.WaitGroup
	for w := 0; w < workers; w++ {
		wg.Add(1)
		go func(w int) {
			defer wg.Done()
			r := c.Rng.Sub(fmt.Sprintf("w%d", w))
			var stc, ctc *tls.Config
			if useTLS {
				stc, ctc = pki.ServerOnly, pki.ClientPlain
			}
			srv, rc, err := c01Server(stc)
			if err != nil {
				c.Inconclusive("server start: " + err.Error())
				return
			}
			for i := w; i < conns; i += workers {
				rc.Reset()
				n := 1 + r.Intn(24)
				var specs []*ReqSpec
				for k := 0; k < n; k++ {
					specs = append(specs, genReq(r, pick(r, reqKinds)))
				}
				endUnbind := r.Chance(50)
				if endUnbind {
					specs = append(specs, genReq(r, "unbind"))
				}
				uniqueIDs(r, specs, map[int64]bool{})
				cl, err := dialRaw(srv.Addr, ctc)
				if err != nil {
					c.Inconclusive("dial: " + err.Error())
					continue
				}
				// write: one buffer, or frame by frame, or dribbled
				var all []byte
				for _, q := range specs {
					all = append(all, q.Encode()...)
				}
				var chunks [][]byte
				switch r.Intn(3) {
				case 0:
					chunks = [][]byte{all}
				case 1:
					for _, q := range specs {
						chunks = append(chunks, q.Encode())
					}
				default:
					for off := 0; off < len(all); {
						step := 1 + r.Intn(700)
						if off+step > len(all) {
							step = len(all) - off
						}
						chunks = append(chunks, all[off:off+step])
						off += step
					}
				}
				go func() {
					for _, ch := range chunks {
						if cl.Send(ch) != nil {
							return
						}
					}
				}()
				// read one response per non-unbind request
				want := map[int64]int{}
				for _, q := range specs {
					if q.Kind != "unbind" {
						want[q.ID]++
					}
				}
				got := 0
				ok := true
				for got < n {
					m, err := cl.ReadMsg(patience)
					if err != nil {
						c.Violate("response missing or malformed on a recording connection", fmt.Sprintf("after %d of %d responses: %v", got, n, err), map[string]any{"specs": sigs(specs)})
						ok = false
						break
					}
					got++
					want[m.ID]--
				}
				if ok {
					for id, k := range want {
						if k != 0 {
							c.Violate("response message IDs do not match the requests", fmt.Sprintf("id %d off by %d", id, k), nil)
						}
					}
				}
				expObs := int64(len(specs))
				if !rc.WaitCount(expObs, patience) && ok {
					c.Logf("only %d of %d observations", rc.count.Load(), expObs)
				}
				if endUnbind {
					if _, err := cl.ReadToEOF(patience); err != nil && isTimeout(err) {
						c.Inconclusive("no EOF after unbind")
					}
				}
				cl.Close()
				c01CheckConn(c, "sber", specs, rc.All(), nil)
				c.Count("connections", 1)
				if i < 2 {
					c.Sample(map[string]any{"encoder": "sber", "request": specs[0], "hex": hx(trunc(specs[0].Encode(), 256))})
				}
			}
			if n := srv.Log.PanicCount(); n > 0 {
				c.Note("recovered_panics_in_server_log", n)
			}
			srv.StopWithin(patience)
		}(w)
	}
	wg.Wait()
	filterStats.Lock()
	c.Count("filters_generated", filterStats.generated)
	c.Count("filters_skipped_rejected_by_goldap", filterStats.rejected)
	c.Count("filters_skipped_not_roundtripping", filterStats.unstable)
	filterStats.Unlock()
}

func sigs(specs []*ReqSpec) []string {
	var out []string
	for _, q := range specs {
		out = append(out, q.Sig())
	}
	return out
}

// ---- negative frames: unsupported protocolOps and bind versions != 3

func c01Negative(c *Ctx) {
	r := c.Rng
	srv, rc, err := c01Server(nil)
	if err != nil {
		c.Inconclusive("server start: " + err.Error())
		return
	}
	type neg struct {
		why   string
		frame func(id int64) []byte
	}
	var negs []neg
	body := func() []*sber.Node {
		return []*sber.Node{sber.Str("cn=neg,dc=example"), sber.Str("x")}
	}
	supported := map[int]bool{0: true, 2: true, 3: true, 6: true, 8: true, 10: true, 23: true}
	for tag := 0; tag <= 30; tag++ {
		if supported[tag] {
			continue
		}
		t := tag
		negs = append(negs, neg{fmt.Sprintf("protocolOp [APPLICATION %d] constructed", t), func(id int64) []byte {
			return sber.Message(id, sber.Cons(sber.Application, t, body()...), nil).Encode()
		}})
		negs = append(negs, neg{fmt.Sprintf("protocolOp [APPLICATION %d] primitive", t), func(id int64) []byte {
			return sber.Message(id, sber.Prim(sber.Application, t, []byte("cn=neg")), nil).Encode()
		}})
	}
	// application tags in the high-tag-number form (31 and above): every one of them is an operation gldap does not
	// support, whatever its low bits look like; bodies shaped like the supported operations whose tags they alias
	for _, tag := range []int{31, 32, 34, 35, 38, 40, 42, 55, 64, 66, 67, 96, 98, 127, 128, 130, 256, 258, 1 << 14, 1<<14 + 2, 1 << 21, 1<<31 - 1, 1 << 32, 1<<32 + 3} {
		t := tag
		negs = append(negs, neg{fmt.Sprintf("bind-shaped body under [APPLICATION %d] (high-tag form)", t), func(id int64) []byte {
			op := sber.BindRequest(int64(2+id%2), []byte("cn=a"), []byte("p"))
			op.Tag = t
			return sber.Message(id, op, nil).Encode()
		}})
		negs = append(negs, neg{fmt.Sprintf("empty primitive [APPLICATION %d] (high-tag form)", t), func(id int64) []byte {
			return sber.Message(id, sber.Prim(sber.Application, t, nil), nil).Encode()
		}})
		negs = append(negs, neg{fmt.Sprintf("request-shaped body under [APPLICATION %d] (high-tag form)", t), func(id int64) []byte {
			q := genReq(NewRand(uint64(id)), pick(NewRand(uint64(id)+7), []string{"search", "modify", "add", "delete"}))
			op := q.Op()
			op.Tag = t
			return sber.Message(id, op, nil).Encode()
		}})
	}
	// realistic compare / modifyDN / abandon, and a search-shaped body under the compare tag
	negs = append(negs,
		neg{"compare request", func(id int64) []byte {
			return sber.Message(id, sber.Cons(sber.Application, sber.AppCompareRequest, sber.Str("cn=a"), sber.Seq(sber.Str("cn"), sber.Str("a"))), nil).Encode()
		}},
		neg{"modifyDN request", func(id int64) []byte {
			return sber.Message(id, sber.Cons(sber.Application, sber.AppModifyDNRequest, sber.Str("cn=a"), sber.Str("cn=b"), sber.Bool(true)), nil).Encode()
		}},
		neg{"abandon request", func(id int64) []byte {
			return sber.Message(id, sber.Prim(sber.Application, sber.AppAbandonRequest, sber.IntBytes(1)), nil).Encode()
		}},
	)
	for _, tag := range []int{1, 4, 5, 7, 9, 11, 12, 14, 24} {
		t := tag
		negs = append(negs, neg{fmt.Sprintf("search-shaped body under [APPLICATION %d]", t), func(id int64) []byte {
			q := genReq(NewRand(uint64(id)), "search")
			op := q.Op()
			op.Tag = t
			return sber.Message(id, op, nil).Encode()
		}})
		negs = append(negs, neg{fmt.Sprintf("bind-shaped body under [APPLICATION %d]", t), func(id int64) []byte {
			op := sber.BindRequest(3, []byte("cn=a"), []byte("p"))
			op.Tag = t
			return sber.Message(id, op, nil).Encode()
		}})
	}
	for _, v := range []int64{0, 1, 2, 4, 127, 128, 255, 1<<31 - 1, -1} {
		ver := v
		negs = append(negs, neg{fmt.Sprintf("bind with version %d", ver), func(id int64) []byte {
			return sber.Message(id, sber.BindRequest(ver, []byte("cn=neg"), []byte("pw")), nil).Encode()
		}})
	}
	reps := c.N(3, 20)
	for rep := 0; rep < reps; rep++ {
		for _, ng := range negs {
			rc.Reset()
			n := r.Intn(4)
			var specs []*ReqSpec
			for k := 0; k < n; k++ {
				specs = append(specs, genReq(r, pick(r, reqKinds)))
			}
			used := map[int64]bool{}
			uniqueIDs(r, specs, used)
			negID := genID(r)
			for used[negID] {
				negID = genID(r)
			}
			frame := ng.frame(negID)
			cl, err := dialRaw(srv.Addr, nil)
			if err != nil {
				c.Inconclusive("dial: " + err.Error())
				continue
			}
			before := srv.closeCnt.Load()
			var all []byte
			for _, q := range specs {
				all = append(all, q.Encode()...)
			}
			all = append(all, frame...)
			cl.Send(all)
			if t, ok := cl.C.(*net.TCPConn); ok {
				t.CloseWrite()
			}
			// the server ends the connection (error path or EOF); wait for OnClose so that
			// every handler of this connection has finished before observations are judged
			rest, _ := cl.ReadToEOF(patience)
			if !srv.WaitCloses(before+1, patience) {
				c.Inconclusive("no OnClose after negative frame: " + ng.why)
			}
			cl.Close()
			c.Count("negative_frames", 1)
			c.Distinct("negative_kinds", ng.why)
			// a response carrying the negative frame's message ID with a *different operation's* final-response tag is not asserted here (C03 covers responses)
			_ = rest
			c01CheckConn(c, "sber", specs, rc.All(), map[int64]string{negID: ng.why})
			if rep == 0 && len(specs) == 0 {
				c.Sample(map[string]any{"negative_frame": ng.why, "hex": hx(frame)})
			}
		}
	}
	if n := srv.Log.PanicCount(); n > 0 {
		c.Note("recovered_panics_in_server_log", n)
	}
	srv.StopWithin(patience)
	c01StalledFrames(c)
}

// c01StalledFrames: a server with a read timeout and a client that stalls in the MIDDLE of a frame for longer than
// that timeout, then sends the rest. The tail of the frame is chosen so that it would parse as a request of its own
// (a delete whose DN bytes are an encoded bind). Whatever the server does about the stall - the only requests it may
// ever hand to a handler are the ones the client sent, whole.
func c01StalledFrames(c *Ctx) {
	for round := 0; round < c.N(4, 40); round++ {
		rc := &Recorder{}
		srv, err := startSrv(SrvCfg{ReadTimeout: 250 * time.Millisecond}, func(m *gldap.Mux) { rc.RegisterAll(m, c01ExtNames) })
		if err != nil {
			c.Inconclusive("server start: " + err.Error())
			return
		}
		cl, err := dialRaw(srv.Addr, nil)
		if err != nil {
			c.Inconclusive("dial: " + err.Error())
			srv.StopWithin(patience)
			return
		}
		cl.Send(sber.Message(1, sber.BindRequest(3, []byte("cn=first"), []byte("p")), nil).Encode())
		cl.ReadMsg(patience)
		inner := sber.Message(7, sber.BindRequest(3, []byte("cn=never-sent"), []byte("p")), nil).Encode()
		if round%2 == 1 {
			inner = sber.Message(7, sber.DelRequest([]byte("cn=never-sent")), nil).Encode()
		}
		frame := sber.Message(2, sber.DelRequest(inner), nil).Encode()
		cut := len(frame) - len(inner) // the head: envelope, message id, delete tag and length
		cl.Send(frame[:cut])
		time.Sleep(time.Duration(450+100*(round%3)) * time.Millisecond)
		cl.Send(frame[cut:])
		cl.C.SetReadDeadline(time.Now().Add(time.Second))
		for {
			if _, err := sber.ReadFrame(cl.br); err != nil {
				break
			}
		}
		cl.Close()
		time.Sleep(5 * time.Millisecond)
		for _, o := range rc.All() {
			switch {
			case o.Kind == "bind" && o.ID == 1 && string(o.Name) == "cn=first":
			case o.Kind == "delete" && o.ID == 2 && bytes.Equal(o.DN, inner):
			default:
				c.Violate("handler ran for a request the client did not send", fmt.Sprintf("read timeout 250ms, the client stalled in the middle of a frame: a %s request (message id %d, name %q, dn %q) reached route %s", o.Kind, o.ID, o.Name, trunc(o.DN, 40), o.Route), map[string]any{"observed": o, "round": round})
			}
		}
		c.Count("frames_stalled_midway_beyond_the_read_timeout", 1)
		srv.StopWithin(patience)
	}
}

// ---- go-ldap client as the second, independent encoder

func goldapControls(cs []CtlSpec) []ldap.Control {
	var out []ldap.Control
	for _, c := range cs {
		out = append(out, c.GoLDAP())
	}
	return out
}

func goldapEncodable(cs []CtlSpec) bool {
	for _, c := range cs {
		if c.GoLDAP() == nil {
			return false
		}
	}
	return true
}

func bytesToStrs(bs [][]byte) []string {
	out := make([]string, 0, len(bs))
	for _, b := range bs {
		out = append(out, string(b))
	}
	return out
}

func c01GoLDAP(c *Ctx) {
	conns := c.N(200, 3000)
	workers := 8
	var wg sync.WaitGroup
	for w := 0; w < workers; w++ {
		wg.Add(1)
		go func(w int) {
			defer wg.Done()
			r := c.Rng.Sub(fmt.Sprintf("g%d", w))
			srv, rc, err := c01Server(nil)
			if err != nil {
				c.Inconclusive("server start: " + err.Error())
				return
			}
			for i := w; i < conns; i += workers {
				rc.Reset()
				lc, err := ldap.DialURL("ldap://" + srv.Addr)
				if err != nil {
					c.Inconclusive("go-ldap dial: " + err.Error())
					continue
				}
				lc.SetTimeout(patience)
				n := 1 + r.Intn(12)
				var specs []*ReqSpec
				for k := 0; k < n; k++ {
					kind := pick(r, reqKinds)
					var q *ReqSpec
					for {
						q = genReq(r, kind)
						if goldapEncodable(q.Controls) {
							break
						}
					}
					q.HasCtls = false
					q.ID = int64(k + 1) // go-ldap numbers its messages 1,2,3.. per connection
					var err error
					switch kind {
					case "bind":
						_, err = lc.SimpleBind(&ldap.SimpleBindRequest{Username: string(q.Name), Password: string(q.Password), Controls: goldapControls(q.Controls), AllowEmptyPassword: true})
					case "search":
						_, err = lc.Search(ldap.NewSearchRequest(string(q.DN), int(q.Scope), int(q.Deref), int(q.Size), int(q.Time), q.Types, q.Filter, bytesToStrs(q.Attrs), goldapControls(q.Controls)))
					case "modify":
						mr := ldap.NewModifyRequest(string(q.DN), goldapControls(q.Controls))
						for ci := range q.Changes {
							ch := &q.Changes[ci]
							switch ch.Op {
							case 0:
								mr.Add(string(ch.Attr.Type), bytesToStrs(ch.Attr.Vals))
							case 1:
								mr.Delete(string(ch.Attr.Type), bytesToStrs(ch.Attr.Vals))
							case 2:
								mr.Replace(string(ch.Attr.Type), bytesToStrs(ch.Attr.Vals))
							case 3:
								if len(ch.Attr.Vals) == 0 {
									ch.Attr.Vals = [][]byte{[]byte("1")}
								}
								ch.Attr.Vals = ch.Attr.Vals[:1]
								mr.Increment(string(ch.Attr.Type), string(ch.Attr.Vals[0]))
							}
						}
						err = lc.Modify(mr)
					case "add":
						ar := ldap.NewAddRequest(string(q.DN), goldapControls(q.Controls))
						for _, a := range q.AddAttrs {
							ar.Attribute(string(a.Type), bytesToStrs(a.Vals))
						}
						err = lc.Add(ar)
					case "delete":
						err = lc.Del(ldap.NewDelRequest(string(q.DN), goldapControls(q.Controls)))
					case "extended":
						if r.Bool() {
							q.Name = []byte(sber.OIDWhoAmI)
							_, err = lc.WhoAmI(nil)
						} else {
							q.Name = []byte(sber.OIDPasswordModify)
							_, err = lc.PasswordModify(ldap.NewPasswordModifyRequest("u", "old", "new"))
						}
						q.Controls = nil
					}
					if err != nil {
						c.Violate("go-ldap client operation failed against a recording handler", fmt.Sprintf("%s: %v", kind, err), map[string]any{"sent": q})
					}
					specs = append(specs, q)
					c.Count("goldap_requests", 1)
				}
				rc.WaitCount(int64(len(specs)), patience)
				lc.Close()
				c01CheckConn(c, "goldap", specs, rc.All(), nil)
				if i < 1 {
					c.Sample(map[string]any{"encoder": "go-ldap", "request": specs[0]})
				}
			}
			srv.StopWithin(patience)
		}(w)
	}
	wg.Wait()
	_ = time.Now
}
