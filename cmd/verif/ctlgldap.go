package main

import (
	"bytes"
	"fmt"
	"strconv"
	"sync/atomic"

	"github.com/jimlambrt/gldap"

	"verif/internal/sber"
)

// genGldapCtl draws a control value expressible with gldap's exported control
// types and constructors (the quantifier of C14 / the response side of C04).
func genGldapCtl(r *Rand, kind string) CtlSpec {
	c := CtlSpec{Kind: kind, OID: typedOIDs[kind], Expire: -1, Grace: -1, Err: -1, Warn: -1}
	ints := []int64{0, 1, 127, 128, 255, 256, 32767, 32768, 65535, 65536, 1<<31 - 1}
	switch kind {
	case "paging":
		c.HasValue = true
		c.Size = pick(r, append(ints, 1<<31, 1<<32-1))
		if r.Chance(40) {
			c.Size = int64(r.U64() % (1 << 32))
		}
		switch r.Intn(5) {
		case 0:
			c.Cookie = nil
		case 1:
			c.Cookie = r.Bytes(70000)
		default:
			c.Cookie = advBytes(r)
		}
	case "behera":
		switch r.Intn(4) {
		case 0:
		case 1:
			c.Expire = pick(r, ints)
			if r.Chance(40) {
				c.Expire = int64(r.U64() % (1 << 31))
			}
		case 2:
			c.Grace = pick(r, ints)
			if r.Chance(40) {
				c.Grace = int64(r.U64() % (1 << 31))
			}
		case 3:
			c.Err = int64(r.Intn(9))
		}
		c.HasValue = c.Expire >= 0 || c.Grace >= 0 || c.Err >= 0
	case "vchu-warn":
		c.HasValue = true
		c.Warn = pick(r, append(ints, 1<<62, -1, -5, 1<<63-1, -1<<63))
		if r.Chance(40) {
			c.Warn = int64(r.U64())
		}
	case "dsait":
		c.Crit = r.Bool()
		c.HasCrit = c.Crit
	case "generic":
		c.OID = genOID(r)
		c.Crit = r.Bool()
		c.HasCrit = c.Crit
		if r.Chance(70) {
			c.Value = advBytes(r)
			if r.Chance(10) {
				c.Value = r.Bytes(70000)
			}
		}
		c.HasValue = len(c.Value) > 0
	}
	return c
}

var longCtlLists atomic.Int64

func genGldapCtls(r *Rand, max int) []CtlSpec {
	n := r.Intn(max + 1)
	if r.Chance(2) {
		n = pick(r, []int{16, 17, 24, 40}) // "any number of controls on one message"
		longCtlLists.Add(1)
	}
	out := make([]CtlSpec, 0, n)
	for i := 0; i < n; i++ {
		out = append(out, genGldapCtl(r, pick(r, ctlKinds)))
	}
	return out
}

// toGldap builds the gldap control value through the public API.
func toGldap(c CtlSpec) (gldap.Control, error) {
	switch c.Kind {
	case "paging":
		p, err := gldap.NewControlPaging(uint32(c.Size))
		if err != nil {
			return nil, err
		}
		p.SetCookie(c.Cookie)
		return p, nil
	case "behera":
		var opts []gldap.Option
		if c.Expire >= 0 {
			opts = append(opts, gldap.WithSecondsBeforeExpiration(uint(c.Expire)))
		}
		if c.Grace >= 0 {
			opts = append(opts, gldap.WithGraceAuthNsRemaining(uint(c.Grace)))
		}
		if c.Err >= 0 {
			opts = append(opts, gldap.WithErrorCode(uint(c.Err)))
		}
		return gldap.NewControlBeheraPasswordPolicy(opts...)
	case "vchu-must":
		return &gldap.ControlVChuPasswordMustChange{MustChange: true}, nil
	case "vchu-warn":
		return &gldap.ControlVChuPasswordWarning{Expire: c.Warn}, nil
	case "dsait":
		return gldap.NewControlManageDsaIT(gldap.WithCriticality(c.Crit))
	case "ms-notif":
		return gldap.NewControlMicrosoftNotification()
	case "ms-del":
		return gldap.NewControlMicrosoftShowDeleted()
	case "ms-ttl":
		return gldap.NewControlMicrosoftServerLinkTTL()
	case "generic":
		return gldap.NewControlString(c.OID, gldap.WithCriticality(c.Crit), gldap.WithControlValue(string(c.Value)))
	}
	return nil, fmt.Errorf("unknown kind %s", c.Kind)
}

func toGldapAll(cs []CtlSpec) ([]gldap.Control, error) {
	var out []gldap.Control
	for _, c := range cs {
		g, err := toGldap(c)
		if err != nil {
			return nil, err
		}
		out = append(out, g)
	}
	return out, nil
}

// checkWireControl compares a strictly parsed on-the-wire control with the
// control value the handler (or client) set.
func checkWireControl(s CtlSpec, w sber.Control) []string {
	var d []string
	if w.OID != s.OID {
		return []string{fmt.Sprintf("control type %q != %q", w.OID, s.OID)}
	}
	wantCrit := s.Crit && (s.Kind == "dsait" || s.Kind == "generic")
	if w.Crit != wantCrit {
		d = append(d, fmt.Sprintf("%s: criticality %v != %v", s.Kind, w.Crit, wantCrit))
	}
	switch s.Kind {
	case "paging":
		if !w.HasValue {
			return append(d, "paging: value missing")
		}
		size, cookie, err := sber.DecodePaging(w.Value)
		if err != nil {
			return append(d, "paging: "+err.Error())
		}
		if size != s.Size || !bytes.Equal(cookie, s.Cookie) {
			d = append(d, fmt.Sprintf("paging: size %d cookie %x(%d) != size %d cookie %x(%d)", size, trunc(cookie, 12), len(cookie), s.Size, trunc(s.Cookie, 12), len(s.Cookie)))
		}
	case "behera":
		e, g, ec := int64(-1), int64(-1), int64(-1)
		if w.HasValue {
			var err error
			e, g, ec, err = sber.DecodeBehera(w.Value)
			if err != nil {
				return append(d, "behera: "+err.Error())
			}
		}
		if e != s.Expire || g != s.Grace || ec != s.Err {
			d = append(d, fmt.Sprintf("behera: expire/grace/error %d/%d/%d != %d/%d/%d", e, g, ec, s.Expire, s.Grace, s.Err))
		}
	case "vchu-warn":
		if !w.HasValue {
			return append(d, "vchu-warn: value missing")
		}
		v, err := strconv.ParseInt(string(w.Value), 10, 64)
		if err != nil || v != s.Warn {
			d = append(d, fmt.Sprintf("vchu-warn: value %q != %d", w.Value, s.Warn))
		}
	case "generic":
		if !bytes.Equal(w.Value, s.Value) {
			d = append(d, fmt.Sprintf("generic: value %x(%d) != %x(%d)", trunc(w.Value, 12), len(w.Value), trunc(s.Value, 12), len(s.Value)))
		}
	default:
		if w.HasValue && len(w.Value) > 0 {
			d = append(d, s.Kind+": unexpected value")
		}
	}
	return d
}

func checkWireControls(spec []CtlSpec, wire []sber.Control) []string {
	if len(spec) != len(wire) {
		return []string{fmt.Sprintf("%d controls on the wire, %d set", len(wire), len(spec))}
	}
	var d []string
	for i := range spec {
		for _, x := range checkWireControl(spec[i], wire[i]) {
			d = append(d, fmt.Sprintf("control %d: %s", i, x))
		}
	}
	return d
}
