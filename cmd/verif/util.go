package main

import (
	"fmt"
	"regexp"
	"runtime/debug"
	"strings"
)

// catch runs f and reports a panic (message + stack) instead of propagating it.
func catch(f func()) (msg string, stack string) {
	defer func() {
		if r := recover(); r != nil {
			msg = fmt.Sprint(r)
			if msg == "" {
				msg = "panic with empty message"
			}
			stack = string(debug.Stack())
		}
	}()
	f()
	return "", ""
}

var reDigits = regexp.MustCompile(`\d+`)

// normPanic strips concrete numbers and addresses from a panic message so that
// one defect has one key.
func normPanic(m string) string {
	m = reHex.ReplaceAllString(m, "0x?")
	m = reDigits.ReplaceAllString(m, "N")
	if len(m) > 140 {
		m = m[:140]
	}
	return m
}

// innermostGldap returns the innermost gldap function in a debug.Stack() dump.
func innermostGldap(stack string) string {
	for _, l := range strings.Split(stack, "\n") {
		l = strings.TrimSpace(l)
		if strings.HasPrefix(l, "github.com/jimlambrt/gldap") && !strings.Contains(l, "VerifReadRequest") {
			fn := l
			if p := strings.LastIndex(fn, "("); p > 0 {
				fn = fn[:p]
			}
			return strings.TrimPrefix(fn, "github.com/jimlambrt/")
		}
	}
	return "?"
}

func stackHead(stack string, lines int) string {
	ls := strings.Split(stack, "\n")
	if len(ls) > lines {
		ls = ls[:lines]
	}
	return strings.Join(ls, "\n")
}

func lenClass(n int) string {
	switch {
	case n == 0:
		return "0"
	case n < 128:
		return "s"
	case n < 256:
		return "m"
	case n < 65536:
		return "l"
	default:
		return "xl"
	}
}

func idClass(id int64) string {
	switch {
	case id == 0:
		return "0"
	case id < 128:
		return "1b"
	case id < 32768:
		return "2b"
	case id < 8388608:
		return "3b"
	default:
		return "4b"
	}
}
