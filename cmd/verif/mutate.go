package main

import (
	"fmt"
	"sort"
	"strings"

	"verif/internal/sber"
)

// ---------------------------------------------------------------- canonical requests

// ctlTree renders a control as a node tree in which nested BER payloads
// (paging / behera values) are first-class sub-trees, so that the mutation
// engine can reach inside them.
func ctlTree(kind string, crit int) *sber.Node {
	n := sber.Seq(sber.Str(typedOIDs[kind]))
	if kind == "generic" {
		n = sber.Seq(sber.Str("1.2.3.4.5"))
	}
	switch crit {
	case 1:
		n.Children = append(n.Children, sber.Bool(true))
	case 2:
		n.Children = append(n.Children, sber.Bool(false))
	}
	switch kind {
	case "paging":
		n.Children = append(n.Children, sber.Wrap(sber.Seq(sber.Int(500), sber.Octet([]byte("cookie")))))
	case "behera":
		n.Children = append(n.Children, sber.Wrap(sber.Seq(
			sber.Cons(sber.Context, 0, sber.Prim(sber.Context, 0, sber.IntBytes(3600))),
			sber.Prim(sber.Context, 1, []byte{2}))))
	case "behera-grace":
		n.Children[0] = sber.Str(sber.OIDBehera)
		n.Children = append(n.Children, sber.Wrap(sber.Seq(
			sber.Cons(sber.Context, 0, sber.Prim(sber.Context, 1, sber.IntBytes(5))))))
	case "vchu-warn":
		n.Children = append(n.Children, sber.Str("86400"))
	case "generic":
		n.Children = append(n.Children, sber.Str("generic-value"))
	default:
		// "oid:<dotted oid>/<shape>": a control carrying an OID that LDAP libraries commonly special-case
		if strings.HasPrefix(kind, "oid:") {
			parts := strings.SplitN(strings.TrimPrefix(kind, "oid:"), "/", 2)
			n.Children[0] = sber.Str(parts[0])
			switch parts[1] {
			case "novalue":
			case "string":
				n.Children = append(n.Children, sber.Str("v"))
			case "seq":
				n.Children = append(n.Children, sber.Wrap(sber.Seq(sber.Int(1), sber.Int(2), sber.Octet([]byte("c")))))
			case "seq3str":
				n.Children = append(n.Children, sber.Wrap(sber.Seq(sber.Str("a"), sber.Str("b"), sber.Str("c"))))
			}
		}
	}
	return n
}

// wellKnownControlOIDs are control OIDs that LDAP libraries (go-ldap among them) treat specially; a decoder that
// delegates to such a library inherits its assumptions about their values.
var wellKnownControlOIDs = []string{
	"1.2.840.113556.1.4.841",    // DirSync
	"1.2.840.113556.1.4.473",    // server side sorting request
	"1.2.840.113556.1.4.474",    // server side sorting response
	"1.2.840.113556.1.4.805",    // subtree delete
	"1.3.6.1.4.1.4203.1.9.1.1",  // sync request
	"1.3.6.1.4.1.4203.1.9.1.2",  // sync state
	"1.3.6.1.4.1.4203.1.9.1.3",  // sync done
	"1.3.6.1.4.1.4203.1.9.1.4",  // sync info
	"1.3.6.1.4.1.4203.1.11.3",   // who am i
	"2.16.840.1.113730.3.4.9",   // virtual list view request
	"2.16.840.1.113730.3.4.18",  // proxied authorization
	"1.3.6.1.1.12",              // assertion
	"1.3.6.1.1.13.1",            // pre-read
	"1.3.6.1.1.13.2",            // post-read
	"1.2.840.113556.1.4.1413",   // permissive modify
	"1.2.840.113556.1.4.1339",   // domain scope
	"1.2.840.113556.1.4.801",    // SD flags
	"1.3.6.1.4.1.42.2.27.8.5.1", // behera (again, as a generic shape)
}

type canonical struct {
	Name  string
	Tree  *sber.Node
	Scope []int // when set, only nodes under this path are mutated (the rest of the tree is covered by other canonicals)
}

// canonicals returns every operation x every control variant.
func canonicals() []canonical {
	ops := map[string]func() *sber.Node{
		"bind":   func() *sber.Node { return sber.BindRequest(3, []byte("cn=alice,dc=example"), []byte("secret")) },
		"unbind": func() *sber.Node { return sber.UnbindRequest() },
		"search": func() *sber.Node {
			return sber.Search{Base: []byte("dc=example"), Scope: 2, Deref: 1, SizeLimit: 10, TimeLimit: 20, TypesOnly: false,
				Filter: sber.Cons(sber.Context, 0, sber.EqFilter("cn", "alice"), sber.PresentFilter("objectClass"),
					sber.Cons(sber.Context, 4, sber.Str("sn"), sber.Seq(sber.Prim(sber.Context, 0, []byte("a")), sber.Prim(sber.Context, 2, []byte("z"))))),
				Attrs: [][]byte{[]byte("cn"), []byte("mail")}}.Node()
		},
		"modify": func() *sber.Node {
			return sber.ModifyRequest([]byte("cn=alice,dc=example"), []sber.Change{
				{Op: 0, Attr: sber.Attr{Type: []byte("mail"), Vals: [][]byte{[]byte("a@x"), []byte("b@x")}}},
				{Op: 1, Attr: sber.Attr{Type: []byte("sn"), Vals: [][]byte{}}}})
		},
		"add": func() *sber.Node {
			return sber.AddRequest([]byte("cn=bob,dc=example"), []sber.Attr{{Type: []byte("cn"), Vals: [][]byte{[]byte("bob")}}, {Type: []byte("mail"), Vals: [][]byte{[]byte("b@x"), []byte("c@x")}}})
		},
		"delete":   func() *sber.Node { return sber.DelRequest([]byte("cn=bob,dc=example")) },
		"extended": func() *sber.Node { return sber.ExtendedRequest([]byte(sber.OIDWhoAmI), []byte("v"), true) },
	}
	opNames := []string{"bind", "search", "modify", "add", "delete", "extended", "unbind"}
	ctlVariants := []string{"none", "paging", "behera", "behera-grace", "vchu-must", "vchu-warn", "dsait", "ms-notif", "ms-del", "ms-ttl", "generic", "multi"}
	var out []canonical
	// well-known control OIDs in four value shapes, on the two operations clients attach controls to most
	for _, on := range []string{"search"} {
		for oi, oid := range wellKnownControlOIDs {
			for si, shape := range []string{"novalue", "string", "seq", "seq3str"} {
				msg := sber.Seq(sber.Int(int64(40+oi)), ops[on](), sber.Cons(sber.Context, 0, ctlTree("oid:"+oid+"/"+shape, (oi+si)%3)))
				out = append(out, canonical{Name: on + "+oid:" + oid + "/" + shape, Tree: msg, Scope: []int{2}})
			}
		}
	}
	// extended requests under the names of well-known extended operations (a server that knows an operation tends to look
	// inside its value), each with a value that is absent, empty, not BER at all, a truncated or a complete sequence
	for oi, oid := range []string{"1.3.6.1.4.1.4203.1.11.1", "1.3.6.1.1.8", "1.3.6.1.4.1.1466.20037", "1.3.6.1.4.1.4203.1.11.3", "1.3.6.1.1.21.1", "1.3.6.1.1.21.3", "1.3.6.1.4.1.1466.101.119.1", "1.3.6.1.1.17.1", "1.2.840.113556.1.4.1781"} {
		for _, sv := range []struct {
			shape string
			val   []byte
		}{{"novalue", nil}, {"empty", []byte{}}, {"garbage", []byte{0x1f}}, {"truncated-seq", []byte{0x30, 0x05, 0x04, 0x01}},
			{"seq", sber.Seq(sber.Prim(sber.Context, 0, []byte("uid=x")), sber.Prim(sber.Context, 1, []byte("old"))).Encode()}, {"int", sber.Int(5).Encode()}} {
			shape, val := sv.shape, sv.val
			op := sber.ExtendedRequest([]byte(oid), val, val != nil)
			msg := sber.Seq(sber.Int(int64(60+oi)), op)
			out = append(out, canonical{Name: "extended+name:" + oid + "/" + shape, Tree: msg, Scope: []int{1}})
		}
	}
	// modify requests with every operation code incl. increment (3) and unassigned ones, each with an empty, a
	// one-element and a two-element value set
	for opc := int64(0); opc <= 5; opc++ {
		var changes []sber.Change
		for _, vals := range [][][]byte{{}, {[]byte("5")}, {[]byte("1"), []byte("x")}} {
			changes = append(changes, sber.Change{Op: opc, Attr: sber.Attr{Type: []byte("uidNumber"), Vals: vals}})
		}
		msg := sber.Seq(sber.Int(80+opc), sber.ModifyRequest([]byte("cn=alice,dc=example"), changes))
		out = append(out, canonical{Name: fmt.Sprintf("modify+op%d-with-0-1-2-values", opc), Tree: msg, Scope: []int{1, 1}})
	}
	// long lists (well-formed): element counts around 8, 16 and 32 in every client-sized list. Only the message ID
	// subtree is mutated (the shapes are covered by the short canonicals); what matters here is the count.
	for _, n := range []int{8, 9, 16, 17, 33} {
		var names, vals [][]byte
		var attrs []sber.Attr
		var changes []sber.Change
		var ctls []*sber.Node
		for i := 0; i < n; i++ {
			names = append(names, []byte(fmt.Sprintf("attr%d", i)))
			vals = append(vals, []byte(fmt.Sprintf("value-%d", i)))
		}
		for i := 0; i < n; i++ {
			attrs = append(attrs, sber.Attr{Type: names[i], Vals: vals})
			changes = append(changes, sber.Change{Op: int64(i % 3), Attr: sber.Attr{Type: names[i], Vals: vals}})
			ctls = append(ctls, ctlTree("generic", i%3))
		}
		long := map[string]*sber.Node{
			"search": sber.Search{Base: []byte("dc=example"), Scope: 2, Filter: sber.PresentFilter("objectClass"), Attrs: names}.Node(),
			"add":    sber.AddRequest([]byte("cn=long,dc=example"), attrs),
			"modify": sber.ModifyRequest([]byte("cn=long,dc=example"), changes),
			"bind":   sber.BindRequest(3, []byte("cn=alice,dc=example"), []byte("secret")),
		}
		for _, on := range []string{"search", "add", "modify", "bind"} {
			msg := sber.Seq(sber.Int(int64(100+n)), long[on])
			if on == "bind" || on == "search" {
				msg.Children = append(msg.Children, sber.Cons(sber.Context, 0, ctls...))
			}
			out = append(out, canonical{Name: fmt.Sprintf("%s+lists-of-%d", on, n), Tree: msg, Scope: []int{0}})
		}
	}
	// lists whose members repeat or have a meaning of their own (the "no attributes" selector 1.1, all user / all
	// operational attributes, the empty string, case variants), as search selections and as the attribute types of
	// add and modify requests
	for li, list := range [][]string{{"1.1"}, {"1.1", "1.1"}, {"1.1", "cn", "1.1"}, {"cn", "1.1", "1.1", "1.1"}, {"*", "+", "*"}, {"cn", "cn", "CN"}, {"", "", ""}, {"+", "1.1", "*", "1.1"}} {
		var names [][]byte
		var attrs []sber.Attr
		var changes []sber.Change
		for i, n := range list {
			names = append(names, []byte(n))
			attrs = append(attrs, sber.Attr{Type: []byte(n), Vals: [][]byte{[]byte("v")}})
			changes = append(changes, sber.Change{Op: int64(i % 3), Attr: sber.Attr{Type: []byte(n), Vals: [][]byte{[]byte("v")}}})
		}
		for oi, op := range []*sber.Node{
			sber.Search{Base: []byte("dc=example"), Scope: 2, Filter: sber.PresentFilter("objectClass"), Attrs: names}.Node(),
			sber.AddRequest([]byte("cn=sel,dc=example"), attrs),
			sber.ModifyRequest([]byte("cn=sel,dc=example"), changes),
		} {
			on := []string{"search", "add", "modify"}[oi]
			out = append(out, canonical{Name: fmt.Sprintf("%s+special-list-%d", on, li), Tree: sber.Seq(sber.Int(int64(200+li)), op), Scope: []int{1}})
		}
	}
	for _, on := range opNames {
		for ci, cv := range ctlVariants {
			msg := sber.Seq(sber.Int(int64(7+ci)), ops[on]())
			switch cv {
			case "none":
			case "multi":
				msg.Children = append(msg.Children, sber.Cons(sber.Context, 0, ctlTree("dsait", 1), ctlTree("paging", 2), ctlTree("generic", 0)))
			default:
				msg.Children = append(msg.Children, sber.Cons(sber.Context, 0, ctlTree(cv, ci%3)))
			}
			out = append(out, canonical{Name: on + "+" + cv, Tree: msg})
		}
	}
	return out
}

// ---------------------------------------------------------------- mutations

// replacements are the node kinds every node is replaced by.
func replacements() []*sber.Node {
	seqInner := sber.Seq(sber.Int(1), sber.Str("x"))
	return []*sber.Node{
		sber.Int(5), sber.Prim(sber.Universal, sber.TagInteger, nil), sber.Prim(sber.Universal, sber.TagInteger, []byte{1, 2, 3, 4, 5, 6, 7, 8, 9}), sber.Int(-1), sber.Int(3),
		sber.Bool(true), sber.Bool(false), sber.Prim(sber.Universal, sber.TagBoolean, nil), sber.Prim(sber.Universal, sber.TagBoolean, []byte{1, 2}),
		sber.Str("x"), sber.Str(""), sber.Null(), sber.Enum(1), sber.Enum(7), sber.Prim(sber.Universal, sber.TagEnumerated, nil),
		sber.Seq(), seqInner, sber.Seq(sber.Seq()), sber.Set(), sber.Set(sber.Str("v")),
		sber.Prim(sber.Context, 0, []byte("x")), sber.Prim(sber.Context, 0, nil), sber.Cons(sber.Context, 0), sber.Cons(sber.Context, 0, sber.Prim(sber.Context, 0, []byte{1})),
		sber.Cons(sber.Context, 0, sber.Seq()), sber.Cons(sber.Context, 0, sber.Seq(sber.Int(1))), sber.Cons(sber.Context, 0, sber.Seq(sber.Str("1.2"), sber.Int(1), sber.Int(2))),
		sber.Prim(sber.Context, 1, []byte{1}), sber.Cons(sber.Context, 1, sber.Int(1)), sber.Prim(sber.Context, 7, []byte("cn")), sber.Cons(sber.Context, 3, sber.Str("a"), sber.Str("b")),
		sber.Prim(sber.Context, 9, []byte("x")), sber.Cons(sber.Context, 9, sber.Cons(sber.Context, 9)),
		sber.Cons(sber.Application, 0), sber.Cons(sber.Application, 3), sber.Prim(sber.Application, 2, nil), sber.Prim(sber.Application, 10, []byte("cn=x")), sber.Cons(sber.Application, 10, sber.Str("cn=x")),
		sber.Cons(sber.Application, 23, sber.Prim(sber.Context, 0, []byte("1.2"))), sber.Prim(sber.Application, 23, []byte("1.2")), sber.Cons(sber.Application, 6), sber.Cons(sber.Application, 8, sber.Str("d")),
		sber.Prim(sber.Application, 0, []byte{2, 1, 3}), sber.Cons(sber.Application, 14, sber.Str("d")), sber.Cons(sber.Application, 30), sber.Prim(sber.Private, 0, []byte("p")), sber.Cons(sber.Private, 1),
		sber.Prim(sber.Universal, 9, []byte{0x40}), sber.Prim(sber.Universal, 9, []byte{0xff, 0xff}), // REAL
		sber.Prim(sber.Universal, 24, []byte("notatime")), sber.Prim(sber.Universal, 24, []byte("20240101000000Z")), // GeneralizedTime
		sber.Prim(sber.Universal, 12, []byte{0xff, 0xfe}), sber.Prim(sber.Universal, 12, []byte("utf8")), // UTF8String
		sber.Prim(sber.Universal, 22, []byte{0xff}), sber.Prim(sber.Universal, 19, []byte("*")), sber.Prim(sber.Universal, 27, []byte("general")),
		sber.Prim(sber.Universal, 6, []byte{0x2a, 3}), sber.Prim(sber.Universal, 3, []byte{0, 1}), sber.Prim(sber.Universal, 0, nil), sber.Prim(sber.Universal, 0, []byte{0}),
		sber.Prim(sber.Context, 200, []byte("hi-tag")), sber.Cons(sber.Universal, 4, sber.Str("constructed-octets")),
		// nested-payload shapes aimed at control values
		sber.Wrap(), sber.Wrap(sber.Seq()), sber.Wrap(sber.Seq(sber.Int(1))), sber.Wrap(sber.Seq(sber.Str("s"), sber.Str("c"))), sber.Wrap(sber.Int(1)),
		sber.Wrap(sber.Seq(sber.Cons(sber.Context, 0))), sber.Wrap(sber.Seq(sber.Prim(sber.Context, 0, []byte{1}))), sber.Wrap(sber.Seq(sber.Cons(sber.Context, 0, sber.Seq()))),
		sber.Wrap(sber.Seq(sber.Prim(sber.Context, 1, []byte{9}))), sber.Wrap(sber.Seq(sber.Prim(sber.Context, 1, nil))), sber.Wrap(sber.Seq(sber.Cons(sber.Context, 1))),
		sber.Wrap(sber.Seq(sber.Cons(sber.Context, 0, sber.Prim(sber.Context, 0, nil)))), sber.Wrap(sber.Seq(sber.Cons(sber.Context, 0, sber.Prim(sber.Context, 0, []byte{1, 2, 3, 4, 5, 6, 7, 8, 9})))),
		sber.Octet([]byte{0x30, 0x80}), sber.Octet([]byte{0x30, 0x05, 0x02}), sber.Octet([]byte("abc")), sber.Octet([]byte("12x")), sber.Octet([]byte("99999999999999999999")),
	}
}

// Mut is one shape/type mutation at a node path.
type Mut struct {
	Path []int
	Kind string
	Arg  int
}

func (m Mut) String() string { return fmt.Sprintf("%v:%s/%d", m.Path, m.Kind, m.Arg) }

func kidsOf(n *sber.Node) *[]*sber.Node {
	if n.Constructed {
		return &n.Children
	}
	if n.Inner != nil {
		return &n.Inner
	}
	return nil
}

func nodeAt(root *sber.Node, path []int) (parent *sber.Node, n *sber.Node) {
	n = root
	for _, i := range path {
		k := kidsOf(n)
		if k == nil || i >= len(*k) {
			return nil, nil
		}
		parent = n
		n = (*k)[i]
	}
	return parent, n
}

func allPaths(n *sber.Node, prefix []int, out *[][]int) {
	*out = append(*out, append([]int{}, prefix...))
	if k := kidsOf(n); k != nil {
		for i, c := range *k {
			allPaths(c, append(prefix, i), out)
		}
	}
}

var lenCorruptions = 14

// lenVariant returns corrupted length octets for a body of n bytes.
func lenVariant(n, v int) (lo []byte, trailer []byte) {
	switch v {
	case 0:
		return sber.EncodeLength(n + 1), nil
	case 1:
		if n > 0 {
			return sber.EncodeLength(n - 1), nil
		}
		return []byte{0x01}, nil
	case 2:
		return []byte{0x00}, nil
	case 3:
		return []byte{0x80}, nil // indefinite without EOC
	case 4:
		return []byte{0x80}, []byte{0, 0} // indefinite with EOC
	case 5:
		return []byte{0x81, byte(n)}, nil // non-minimal long form (correct value for n < 256)
	case 6:
		return []byte{0x82, byte(n >> 8), byte(n)}, nil
	case 7:
		return []byte{0x84, 0x00, 0xff, 0xff, 0xff}, nil // 16 MiB - 1 (capped)
	case 8:
		return []byte{0xff}, nil
	case 9:
		return []byte{0x88, 0, 0, 0, 0, 0, 0, 0, byte(n)}, nil
	case 10:
		return []byte{0x89, 0, 0, 0, 0, 0, 0, 0, 0, byte(n)}, nil
	case 11:
		return []byte{0x88, 0x7f, 0xff, 0xff, 0xff, 0xff, 0xff, 0xff, 0xff}, nil
	case 12:
		return []byte{0x84, 0xff, 0xff, 0xff, 0xff}, nil
	default:
		return []byte{0x81}, nil // truncated long form (next byte is taken from the content)
	}
}

// mutationsFor enumerates the complete single-point set for a tree.
func mutationsFor(root *sber.Node, nrep int) []Mut {
	var paths [][]int
	allPaths(root, nil, &paths)
	var out []Mut
	for _, p := range paths {
		_, n := nodeAt(root, p)
		for r := 0; r < nrep; r++ {
			out = append(out, Mut{p, "replace", r})
		}
		for v := 0; v < lenCorruptions; v++ {
			out = append(out, Mut{p, "len", v})
		}
		out = append(out, Mut{p, "flipcons", 0}, Mut{p, "class", 1}, Mut{p, "class", 2}, Mut{p, "class", 3}, Mut{p, "tag", 1}, Mut{p, "tag", 30}, Mut{p, "emptycontent", 0})
		if len(p) > 0 {
			out = append(out, Mut{p, "delete", 0}, Mut{p, "dup", 0}, Mut{p, "swapnext", 0})
		}
		if n != nil && !n.Constructed && n.Inner == nil && n.Raw == nil {
			// the constructed (segmented) form BER allows for string types: one segment, two segments, a nested
			// constructed segment, an empty constructed segment
			for v := 0; v < 4; v++ {
				out = append(out, Mut{p, "segmented", v})
			}
		}
		if k := kidsOf(n); k != nil {
			for t := 1; t <= len(*k); t++ {
				out = append(out, Mut{p, "truncate", t})
			}
			for e := 0; e < 6; e++ {
				out = append(out, Mut{p, "extend", e})
			}
			out = append(out, Mut{p, "reverse", 0})
		}
	}
	return out
}

// applyMut mutates the tree in place; false = not applicable.
func applyMut(root **sber.Node, m Mut, reps []*sber.Node) bool {
	parent, n := nodeAt(*root, m.Path)
	if n == nil {
		return false
	}
	idx := -1
	if len(m.Path) > 0 {
		idx = m.Path[len(m.Path)-1]
	}
	setNode := func(nn *sber.Node) {
		if parent == nil {
			*root = nn
			return
		}
		(*kidsOf(parent))[idx] = nn
	}
	switch m.Kind {
	case "replace":
		setNode(reps[m.Arg%len(reps)].Clone())
	case "len":
		body := len(n.Encode()) - len(encodeHeaderLen(n))
		n.LenOverride, n.Trailer = lenVariant(body, m.Arg)
	case "flipcons":
		if n.Constructed {
			// keep the same bytes, declare primitive
			var content []byte
			for _, c := range n.Children {
				content = append(content, c.Encode()...)
			}
			n.Constructed, n.Children, n.Content = false, nil, content
		} else if n.Inner != nil {
			n.Constructed, n.Children, n.Inner = true, n.Inner, nil
		} else {
			// primitive content declared constructed: the content bytes are
			// parsed by the server as child TLVs
			raw := n.Content
			if raw == nil {
				raw = []byte{}
			}
			n.Constructed, n.Content = true, nil
			n.Children = []*sber.Node{{Raw: raw}}
		}
	case "segmented":
		if n.Constructed || n.Inner != nil || n.Raw != nil {
			return false
		}
		raw := n.Content
		seg := func(b []byte) *sber.Node {
			return &sber.Node{Class: sber.Universal, Tag: sber.TagOctetString, Content: append([]byte{}, b...)}
		}
		var kids []*sber.Node
		switch m.Arg {
		case 0:
			kids = []*sber.Node{seg(raw)}
		case 1:
			kids = []*sber.Node{seg(raw[:len(raw)/2]), seg(raw[len(raw)/2:])}
		case 2:
			kids = []*sber.Node{{Class: sber.Universal, Tag: sber.TagOctetString, Constructed: true, Children: []*sber.Node{seg(raw)}}}
		default:
			kids = []*sber.Node{{Class: sber.Universal, Tag: sber.TagOctetString, Constructed: true, Children: []*sber.Node{}}}
		}
		n.Constructed, n.Content, n.Children = true, nil, kids
	case "class":
		n.Class = (n.Class + m.Arg) % 4
	case "tag":
		n.Tag = (n.Tag + m.Arg) % 31
	case "emptycontent":
		if k := kidsOf(n); k != nil {
			*k = []*sber.Node{}
			if !n.Constructed {
				n.Inner = nil
				n.Content = []byte{}
			}
		} else {
			n.Content = []byte{}
		}
	case "delete":
		k := kidsOf(parent)
		*k = append(append([]*sber.Node{}, (*k)[:idx]...), (*k)[idx+1:]...)
	case "dup":
		k := kidsOf(parent)
		nk := append([]*sber.Node{}, (*k)[:idx+1]...)
		nk = append(nk, n.Clone())
		*k = append(nk, (*k)[idx+1:]...)
	case "swapnext":
		k := kidsOf(parent)
		if idx+1 >= len(*k) {
			return false
		}
		(*k)[idx], (*k)[idx+1] = (*k)[idx+1], (*k)[idx]
	case "truncate":
		k := kidsOf(n)
		if k == nil || m.Arg > len(*k) {
			return false
		}
		*k = (*k)[:len(*k)-m.Arg]
	case "extend":
		k := kidsOf(n)
		if k == nil {
			return false
		}
		extra := []*sber.Node{sber.Int(1), sber.Str("extra"), sber.Seq(), sber.Bool(true), sber.Cons(sber.Context, 0), sber.Null()}
		*k = append(*k, extra[m.Arg%len(extra)].Clone())
		if m.Arg >= 3 && len(*k) > 0 { // also as the first child
			*k = append([]*sber.Node{extra[m.Arg%len(extra)].Clone()}, *k...)
		}
	case "reverse":
		k := kidsOf(n)
		if k == nil || len(*k) < 2 {
			return false
		}
		for i, j := 0, len(*k)-1; i < j; i, j = i+1, j-1 {
			(*k)[i], (*k)[j] = (*k)[j], (*k)[i]
		}
	default:
		return false
	}
	return true
}

// encodeHeaderLen returns the identifier+length octets of n's correct encoding.
func encodeHeaderLen(n *sber.Node) []byte {
	c := *n
	c.LenOverride, c.Trailer = nil, nil
	full := c.Encode()
	var body int
	switch {
	case c.Constructed:
		for _, ch := range c.Children {
			body += len(ch.Encode())
		}
	case c.Inner != nil:
		for _, ch := range c.Inner {
			body += len(ch.Encode())
		}
	default:
		body = len(c.Content)
	}
	return full[:len(full)-body]
}

// pathLess orders paths so that applying mutations in descending order never
// invalidates a later path (deeper / later siblings first).
func pathGreater(a, b []int) bool {
	for i := 0; i < len(a) && i < len(b); i++ {
		if a[i] != b[i] {
			return a[i] > b[i]
		}
	}
	return len(a) > len(b)
}

// mutate applies a set of mutations to a clone of the canonical tree.
func mutate(tree *sber.Node, reps []*sber.Node, ms ...Mut) ([]byte, bool) {
	root := tree.Clone()
	sort.SliceStable(ms, func(i, j int) bool { return pathGreater(ms[i].Path, ms[j].Path) })
	applied := false
	for _, m := range ms {
		if applyMut(&root, m, reps) {
			applied = true
		}
	}
	if !applied {
		return nil, false
	}
	return root.Encode(), true
}
