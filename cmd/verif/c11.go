package main

import (
	"crypto/tls"
	"fmt"
	"io"

	"github.com/hashicorp/go-hclog"
	"net"
	"strings"
	"sync"
	"sync/atomic"
	"time"

	"github.com/jimlambrt/gldap"

	"verif/internal/sber"
)

func init() {
	register(&Check{
		ID: "C11", Level: "exploration", Primary: "states", EvalCount: "stops",
		Rule: "liveness restated as bounded progress: Stop must return within B=10s (an order of magnitude above what a correct implementation needs) WITHOUT any client action, and Run must then return nil. " +
			"One evaluation = a fresh server brought into a connection state (none; 1/8/64 idle; half a frame sent; TLS listener with no / partial ClientHello; StartTLS-upgraded idle; StartTLS answered but handshake never started; busy pipelining; clients not reading " +
			"large responses so that handlers block in Write (60KB frames that block in the write, 300-byte frames from two handlers that block in the flush, a server configured with a 10-minute write timeout, a client that keeps reading an endless response at a steady moderate pace, and an ldaps session whose client does not read - own bound 25s, crypto/tls spends 5s on the close_notify) - alone and combined ON THE SAME CONNECTION with an Unbind, a half-close, a pending StartTLS handshake or half a frame; all of them together) x optional concurrent second Stop, then Stop is called; plus Stop racing Run's start-up with no client at all (Run parked at its own log statements through the user-supplied logger, and random microsecond offsets), a connection with a history of 150 recovered handler panics, idle connections left over by a PRNG-chosen history of 4..20 connections coming and going, 33/40/100 idle connections, a silent peer accepted at the moment Stop is called on a TLS listener with read and write timeouts configured (60 runs; 1500 in thorough), and clients that keep connecting (and then sit idle) while Stop runs on a server with a 10-minute read timeout. If B expires the harness dumps goroutines and lets the clients go: a Stop goroutine parked (in any wait state) " +
			"with a gldap connection goroutine parked in network I/O, released only when the clients close, is a violation; so is a Stop that is parked while every handler still running sits inside gldap's own ResponseWriter.Write; and so is a Stop call whose goroutine is found parked at the same place in a second dump taken 30s after every client closed its socket while no handler is running (e.g. one of two concurrent Stop calls that is never woken); anything else is inconclusive. Stop is also called while the accept loop is failing for lack of descriptors (plain and TLS listeners; 250..1150ms into a 1.5s outage): Stop returns and Run returns nil. " +
			"distinct_nontrivial = distinct (state, #connections, second-Stop) triples with at least one connection open at Stop time",
		Assume: []string{"handlers that block in application code (not in gldap's Write) are outside the statement: the workload's handlers only ever block inside ResponseWriter.Write"},
		Phases: func(tier string, seed int64) []Phase {
			return []Phase{{Name: "stop-states", Run: c11Run, Timeout: 40 * time.Minute}}
		},
		MinObserved: []string{"stops_while_accept_was_failing", "stops", "stops_with_open_connections", "stops_with_handlers_blocked_in_write", "stops_racing_run_startup", "stops_after_connection_churn", "stops_with_clients_connecting_meanwhile", "stops_of_servers_logging_at_debug_level", "stops_while_a_client_steadily_reads_an_endless_response", "stops_right_after_a_silent_tls_peer_connected_with_timeouts_configured"},
	})
}

const c11Bound = 10 * time.Second

type c11State struct {
	Name   string
	Conns  int
	Second bool
	Debug  bool // the server logs at Debug level (its debug statements look at connection state, too)
}

// c11Startup: Stop racing Run's start-up (no client involved). Run is parked at one of its own log statements
// (through the user-supplied logger) or Stop is fired after a random tiny delay; Stop must return within B and Run
// must return too.
func c11Startup(c *Ctx, pki *PKI, pattern string, useTLS bool, round int, r *Rand) {
	sink := &logSink{}
	inner := hclog.New(&hclog.LoggerOptions{Name: "sut", Level: hclog.Debug, Output: sink, JSONFormat: true})
	gl := newGateLogger(inner, pattern)
	srvS, err := gldap.NewServer(gldap.WithLogger(gl))
	if err != nil {
		c.Inconclusive(err.Error())
		return
	}
	addr := fmt.Sprintf("127.0.0.1:%d", freePort())
	var ropts []gldap.Option
	if useTLS {
		ropts = append(ropts, gldap.WithTLSConfig(pki.ServerOnly))
	}
	runRet := make(chan error, 1)
	go func() { runRet <- srvS.Run(addr, ropts...) }()
	sig := fmt.Sprintf("startup/%s/tls=%v", pattern, useTLS)
	if pattern != "" {
		select {
		case <-gl.Reached:
		case <-time.After(5 * time.Second):
			// this build never logs that line on this path: nothing to gate
			close(gl.Release)
			srvS.Stop()
			return
		}
	} else {
		for i, n := 0, r.Intn(3000); i < n; i++ {
			_ = i * i // a spin of up to a few microseconds
		}
	}
	stopRet := make(chan error, 1)
	go func() { stopRet <- srvS.Stop() }()
	if pattern != "" {
		time.Sleep(30 * time.Millisecond) // Stop runs into whatever it runs into while Run is parked
		close(gl.Release)
	}
	c.Count("stops", 1)
	c.Count("stops_racing_run_startup", 1)
	c.Distinct("states", sig)
	select {
	case err := <-stopRet:
		if err != nil {
			c.Violate("Stop returned an error", err.Error(), map[string]any{"state": sig})
		}
	case <-time.After(c11Bound):
		dump := gldapGoroutines()
		stopParked, runParked := false, false
		for _, g := range dump {
			if goroutineParkedUnder(g, "(*Server).Stop") {
				stopParked = true
			}
			if strings.Contains(g, "(*Server).Run(") && strings.Contains(g, "sync.(*RWMutex).Lock") {
				runParked = true
			}
		}
		det := map[string]any{"state": sig, "round": round, "stop_parked": stopParked, "run_parked_in_RWMutex_Lock": runParked, "goroutines": trimDump(dump, 4)}
		if stopParked && runParked {
			c.Violate("Stop deadlocks with Run's start-up", fmt.Sprintf("%s: Stop had not returned after %s with no client connected; Stop and Run wait for each other", sig, c11Bound), det)
		} else {
			// second look after a long while: nobody ever connected and no handler exists, so a Stop goroutine that is
			// parked at the same place in both dumps waits for something that gldap itself has to provide
			returned := false
			select {
			case <-stopRet:
				returned = true
			case <-time.After(patience):
			}
			still := parkedIDs(gldapGoroutines(), "(*Server).Stop", parkedIDs(dump, "(*Server).Stop", nil))
			if !returned && len(still) > 0 {
				det["stop_goroutines_parked_in_both_dumps"] = len(still)
				c.Violate("Stop does not return although no client ever connected", fmt.Sprintf("%s: Stop had not returned after %s + %s; its goroutine is parked at the same place in two dumps", sig, c11Bound, patience), det)
			} else {
				c.Inconclusive(fmt.Sprintf("%s: Stop exceeded %s but the dump does not show the Stop/Run deadlock shape", sig, c11Bound))
			}
		}
		return
	}
	select {
	case err := <-runRet:
		if err != nil && !strings.Contains(err.Error(), "address already in use") {
			c.Violate("Run returned an error after Stop", err.Error(), map[string]any{"state": sig})
		}
	case <-time.After(c11Bound):
		c.Violate("Run did not return after Stop returned", sig, map[string]any{"state": sig})
	}
}

// c11StopDuringAcceptOutage: Stop is called while the accept loop is failing (the process is out of descriptors, a peer
// is queued) - in the middle of whatever the loop does between two attempts. Stop returns, Run returns nil.
func c11StopDuringAcceptOutage(c *Ctx, pki *PKI, i int) {
	var stc *tls.Config
	if i%3 == 2 {
		stc = pki.ServerOnly
	}
	srv, err := startSrv(SrvCfg{TLS: stc}, nil)
	if err != nil {
		c.Inconclusive("server start: " + err.Error())
		return
	}
	epDone := make(chan error, 1)
	go func() {
		_, err := emfileEpisode(srv.Addr, i, 1500*time.Millisecond)
		epDone <- err
	}()
	// (the episode needs a moment to fill the descriptor table; the accept loop's pauses grow from 5ms to 1s)
	time.Sleep(time.Duration(250+(i*137)%900) * time.Millisecond)
	t0 := time.Now()
	stopRet := make(chan error, 1)
	go func() { stopRet <- srv.S.Stop() }()
	sig := fmt.Sprintf("stop-during-accept-outage/tls=%v", stc != nil)
	select {
	case err := <-stopRet:
		if err != nil {
			c.Violate("Stop returned an error", err.Error(), map[string]any{"state": sig})
		}
		c.Max("max/stop_latency_ms", time.Since(t0).Milliseconds())
		select {
		case <-srv.runDone:
			if srv.runErr != nil {
				c.Violate("Run returned an error after Stop", fmt.Sprint(srv.runErr), map[string]any{"state": sig})
			}
		case <-time.After(c11Bound):
			c.Violate("Run did not return after Stop returned", "", map[string]any{"state": sig})
		}
	case <-time.After(c11Bound + patience):
		// (the outage itself is over after 1.5s and its clients have gone)
		c.Violate("Stop blocks while a client holds a connection: "+sig, fmt.Sprintf("Stop called while accept was failing for lack of descriptors has not returned after %s", c11Bound+patience), map[string]any{"state": sig})
	}
	if err := <-epDone; err != nil {
		c.Inconclusive("emfile episode: " + err.Error())
		return
	}
	c.Count("stops", 1)
	c.Count("stops_while_accept_was_failing", 1)
	c.Distinct("states", sig)
}

func c11Run(c *Ctx) {
	pki := newPKI()
	for i := 0; i < c.N(4, 40); i++ {
		c11StopDuringAcceptOutage(c, pki, i)
	}
	for rep := 0; rep < c.N(2, 20); rep++ {
		for _, tlsOn := range []bool{false, true} {
			for _, pat := range []string{"setting up TLS listener", "listening"} {
				if pat == "setting up TLS listener" && !tlsOn {
					continue // only logged when a TLS configuration is given
				}
				c11Startup(c, pki, pat, tlsOn, rep, c.Rng)
			}
		}
	}
	for i := 0; i < c.N(400, 20000); i++ {
		c11Startup(c, pki, "", i%2 == 0, i, c.Rng.Sub(fmt.Sprintf("su%d", i)))
	}
	states := []string{"none", "idle", "half-frame", "tls-no-hello", "tls-partial-hello", "tls-not-reading", "starttls-idle", "starttls-pending", "busy-pipelining", "not-reading",
		"not-reading+unbind", "not-reading+half-close", "not-reading+starttls-pending", "not-reading+half-frame", "not-reading+long-write-timeout", "not-reading+small-frames-two-handlers", "steady-reader", "after-panic-storm", "mixed"}
	counts := []int{1, 8}
	reps := 1
	if !c.Quick() {
		counts = []int{1, 8, 64}
		reps = 20
	}
	for i := 0; i < c.N(15, 400); i++ {
		c11One(c, pki, c11State{Name: "idle-after-churn", Conns: i, Second: i%3 == 0})
	}
	// the cheap states once more with a Debug-level logger
	for _, st := range []string{"idle", "half-frame", "tls-no-hello", "tls-partial-hello", "starttls-idle", "starttls-pending", "after-panic-storm"} {
		c11One(c, pki, c11State{Name: st, Conns: 2, Debug: true})
	}
	// a connection that is being accepted at the very moment Stop is called, on a TLS listener with timeouts configured
	for i := 0; i < c.N(60, 1500); i++ {
		c11One(c, pki, c11State{Name: "tls-no-hello+timeouts", Conns: 1 + i%3, Second: i%5 == 4})
	}
	// more connections than any small internal queue holds
	for _, n := range []int{33, 40, 100} {
		c11One(c, pki, c11State{Name: "idle", Conns: n, Second: n == 40})
		if c.Quick() {
			break
		}
	}
	c11One(c, pki, c11State{Name: "idle", Conns: 40})
	// clients that keep connecting (and then sit idle) while Stop runs, on a server with a ten-minute read timeout
	for i := 0; i < c.N(80, 1500); i++ {
		c11One(c, pki, c11State{Name: "connecting-while-stopping", Conns: 4 + i%8, Second: i%4 == 3})
	}
	for rep := 0; rep < reps; rep++ {
		for _, st := range states {
			for _, n := range counts {
				if st == "none" && n != counts[0] {
					continue
				}
				second := (rep+n)%2 == 1 || st == "mixed"
				c11One(c, pki, c11State{Name: st, Conns: n, Second: second})
			}
		}
	}
}

func c11One(c *Ctx, pki *PKI, st c11State) {
	var blockedWrites atomic.Int64
	var inHandlers atomic.Int64
	var streamed atomic.Int64
	useTLS := strings.HasPrefix(st.Name, "tls-")
	var stc *tls.Config
	if useTLS {
		stc = pki.ServerOnly
	}
	blob := strings.Repeat("y", 60000)
	lvl := hclog.NoLevel
	if st.Debug {
		lvl = hclog.Debug
		c.Count("stops_of_servers_logging_at_debug_level", 1)
	}
	var rt time.Duration
	if st.Name == "connecting-while-stopping" {
		rt = 10 * time.Minute
	}
	if st.Name == "tls-no-hello+timeouts" {
		rt = 2 * time.Hour // read and write timeouts configured (far away), a silent peer on the TLS port, Stop right away
	}
	var wt time.Duration
	if st.Name == "not-reading+long-write-timeout" {
		wt = 10 * time.Minute // a configured write timeout far beyond any bound Stop could have
	}
	if st.Name == "tls-no-hello+timeouts" {
		wt = 2 * time.Hour
	}
	small := strings.Repeat("s", 300)
	srv, err := startSrv(SrvCfg{TLS: stc, WriteTimeout: wt, ReadTimeout: rt, LogLevel: lvl}, func(m *gldap.Mux) {
		m.Search(func(w *gldap.ResponseWriter, r *gldap.Request) {
			inHandlers.Add(1)
			defer inHandlers.Add(-1)
			s, _ := r.GetSearchMessage()
			if s.BaseDN == "panic" {
				panic("injected handler panic (C11)")
			}
			if s.BaseDN == "small" {
				// frames far below the buffered writer's size: they block in the flush, not in the write
				for i := 0; i < 400000; i++ {
					e := r.NewSearchResponseEntry("cn=e")
					e.AddAttribute("b", []string{small})
					blockedWrites.Add(1)
					err := w.Write(e)
					blockedWrites.Add(-1)
					if err != nil {
						return
					}
				}
			}
			if s.BaseDN == "endless" {
				// a response that goes on for as long as the client takes it
				for {
					e := r.NewSearchResponseEntry("cn=e")
					e.AddAttribute("b", []string{blob})
					if w.Write(e) != nil {
						return
					}
					streamed.Add(1)
				}
			}
			if s.BaseDN == "big" {
				for i := 0; i < 400; i++ {
					e := r.NewSearchResponseEntry("cn=e")
					e.AddAttribute("b", []string{blob})
					blockedWrites.Add(1)
					err := w.Write(e)
					blockedWrites.Add(-1)
					if err != nil {
						return
					}
				}
			}
			w.Write(r.NewSearchDoneResponse(gldap.WithResponseCode(0)))
		})
		m.ExtendedOperation(func(w *gldap.ResponseWriter, r *gldap.Request) {
			w.Write(r.NewExtendedResponse(gldap.WithResponseCode(0)))
			r.StartTLS(pki.ServerOnly)
		}, gldap.ExtendedOperationStartTLS)
	})
	if err != nil {
		c.Inconclusive("server start: " + err.Error())
		return
	}
	var conns []net.Conn
	var stormMu sync.Mutex // guards conns: in one state other goroutines add connections while this one does
	var stopClients atomic.Bool
	var cwg sync.WaitGroup
	closeAll := func() {
		stopClients.Store(true)
		stormMu.Lock()
		l := append([]net.Conn{}, conns...)
		stormMu.Unlock()
		for _, cn := range l {
			if cn != nil {
				cn.Close()
			}
		}
	}
	search := func(id int64, base string) []byte {
		return sber.Message(id, sber.Search{Base: []byte(base), Scope: 2, Filter: sber.PresentFilter("cn"), Attrs: [][]byte{}}.Node(), nil).Encode()
	}
	open := func(kind string) {
		cn, err := net.Dial("tcp", srv.Addr)
		if err != nil {
			c.Inconclusive("dial: " + err.Error())
			return
		}
		stormMu.Lock()
		conns = append(conns, cn)
		stormMu.Unlock()
		switch kind {
		case "idle":
			// one verified round trip, then silence
			cn.Write(search(1, "x"))
			wrapClient(cn).ReadMsg(patience)
		case "half-frame":
			f := search(1, "x")
			cn.Write(f[:len(f)/2])
		case "tls-not-reading":
			// an ldaps session whose client asked for a large response and does not read it: when Stop's write grace is
			// over the handler's write fails, and closing such a session fails as well (the close_notify cannot be sent)
			tc := tls.Client(cn, pki.ClientPlain)
			cn.SetDeadline(time.Now().Add(patience))
			if err := tc.Handshake(); err != nil {
				c.Inconclusive("tls handshake: " + err.Error())
			}
			cn.SetDeadline(time.Time{})
			tc.Write(search(1, "big"))
		case "tls-no-hello", "tls-no-hello+timeouts":
		case "tls-partial-hello":
			cn.Write([]byte{0x16, 0x03, 0x01, 0x02, 0x00, 0x01, 0x00})
		case "starttls-idle":
			cn.Write(sber.Message(1, sber.ExtendedRequest([]byte(sber.OIDStartTLS), nil, false), nil).Encode())
			wrapClient(cn).ReadMsg(patience)
			tc := tls.Client(cn, pki.ClientPlain)
			cn.SetDeadline(time.Now().Add(patience))
			if err := tc.Handshake(); err != nil {
				c.Inconclusive("starttls handshake: " + err.Error())
			}
			cn.SetDeadline(time.Time{})
			tc.Write(search(2, "x"))
			wrapClient(tc).ReadMsg(patience)
		case "busy-pipelining":
			cwg.Add(2)
			go func() {
				defer cwg.Done()
				for id := int64(1); !stopClients.Load(); id++ {
					if _, err := cn.Write(search(id, "x")); err != nil {
						return
					}
				}
			}()
			go func() {
				defer cwg.Done()
				buf := make([]byte, 32<<10)
				for {
					if _, err := cn.Read(buf); err != nil {
						return
					}
				}
			}()
		case "steady-reader":
			// the client keeps reading an endless response at a steady, moderate pace (a small receive buffer, 64 KiB
			// every 5ms): it never stalls and never catches up
			cn.(*net.TCPConn).SetReadBuffer(32 << 10)
			cn.Write(search(1, "endless"))
			cwg.Add(1)
			go func() {
				defer cwg.Done()
				buf := make([]byte, 64<<10)
				for !stopClients.Load() {
					if _, err := io.ReadFull(cn, buf); err != nil {
						return
					}
					time.Sleep(5 * time.Millisecond)
				}
			}()
			for dl := time.Now().Add(patience); streamed.Load() < 20 && time.Now().Before(dl); time.Sleep(time.Millisecond) {
			}
		case "not-reading", "not-reading+long-write-timeout":
			cn.Write(search(1, "big"))
		case "not-reading+small-frames-two-handlers":
			cn.Write(append(search(1, "small"), search(2, "small")...))
		case "after-panic-storm":
			// a history of many recovered handler panics on this connection, then an ordinary request, then idle
			var buf []byte
			for i := 0; i < 150; i++ {
				buf = append(buf, search(int64(10+i), "panic")...)
			}
			buf = append(buf, search(500, "x")...)
			cn.Write(buf)
			cl := wrapClient(cn)
			cn.SetReadDeadline(time.Now().Add(300 * time.Millisecond))
			for {
				if _, err := sber.ReadFrame(cl.br); err != nil {
					break
				}
			}
			cn.SetReadDeadline(time.Time{})
		case "starttls-pending":
			// StartTLS requested and answered, the client never starts the handshake
			cn.Write(sber.Message(1, sber.ExtendedRequest([]byte(sber.OIDStartTLS), nil, false), nil).Encode())
			wrapClient(cn).ReadMsg(patience)
		case "not-reading+unbind":
			// a handler blocked in Write, then the read loop ends (Unbind) while the client keeps the socket open
			cn.Write(append(search(1, "big"), sber.Message(2, sber.UnbindRequest(), nil).Encode()...))
		case "not-reading+half-close":
			cn.Write(search(1, "big"))
			cn.(*net.TCPConn).CloseWrite()
		case "not-reading+starttls-pending":
			cn.Write(append(search(1, "big"), sber.Message(2, sber.ExtendedRequest([]byte(sber.OIDStartTLS), nil, false), nil).Encode()...))
		case "not-reading+half-frame":
			f := search(2, "x")
			cn.Write(append(search(1, "big"), f[:len(f)/2]...))
		}
	}
	kinds := []string{st.Name}
	if st.Name == "mixed" {
		kinds = []string{"idle", "half-frame", "starttls-idle", "busy-pipelining", "not-reading", "starttls-pending", "not-reading+unbind", "not-reading+half-close", "not-reading+starttls-pending"}
	}
	var storm sync.WaitGroup
	stopStorm := make(chan struct{})
	if st.Name == "connecting-while-stopping" {
		// st.Conns goroutines dial in a loop; whatever connects stays connected and silent. The storm goes on for a
		// moment after Stop has been called, so that accepts fall into every phase of Stop.
		for g := 0; g < st.Conns; g++ {
			storm.Add(1)
			go func() {
				defer storm.Done()
				for {
					select {
					case <-stopStorm:
						return
					default:
					}
					cn, err := net.DialTimeout("tcp", srv.Addr, time.Second)
					if err != nil {
						return
					}
					stormMu.Lock()
					conns = append(conns, cn)
					stormMu.Unlock()
				}
			}()
		}
		time.Sleep(2 * time.Millisecond)
		c.Count("stops_with_clients_connecting_meanwhile", 1)
	}
	if st.Name == "idle-after-churn" {
		// a history of connections that come and go (each close is seen by the server before the next step), at the end
		// of which some connections are simply idle: how the set of connections came about is none of Stop's business
		r := c.Rng.Sub(fmt.Sprintf("churn%d", st.Conns))
		for step, n := 0, 4+r.Intn(16); step < n; step++ {
			if len(conns) > 0 && r.Chance(45) {
				i := r.Intn(len(conns))
				before := srv.closeCnt.Load()
				conns[i].Close()
				conns = append(conns[:i], conns[i+1:]...)
				srv.WaitCloses(before+1, 2*time.Second)
			} else {
				open("idle")
			}
		}
		if len(conns) == 0 {
			open("idle")
		}
		c.Count("stops_after_connection_churn", 1)
	} else if st.Name != "none" {
		for i := 0; i < st.Conns; i++ {
			open(kinds[i%len(kinds)])
		}
	}
	if strings.HasPrefix(st.Name, "not-reading") || st.Name == "mixed" {
		// wait until handlers are really blocked inside Write (socket buffers full)
		for dl := time.Now().Add(5 * time.Second); time.Now().Before(dl); time.Sleep(20 * time.Millisecond) {
			if blockedWrites.Load() > 0 {
				time.Sleep(150 * time.Millisecond)
				break
			}
		}
	}
	if st.Name == "busy-pipelining" {
		time.Sleep(30 * time.Millisecond)
	}
	blocked := blockedWrites.Load()
	sig := fmt.Sprintf("%s/n%d/second=%v", st.Name, st.Conns, st.Second)
	if st.Debug {
		sig += "/debug-log"
	}
	if st.Name == "idle-after-churn" {
		sig = fmt.Sprintf("%s/open%d/second=%v", st.Name, len(conns), st.Second)
	}
	// ---- Stop
	t0 := time.Now()
	stopRet := make(chan error, 2)
	go func() { stopRet <- srv.S.Stop() }()
	if st.Second {
		go func() { stopRet <- srv.S.Stop() }()
	}
	if st.Name == "connecting-while-stopping" {
		time.Sleep(3 * time.Millisecond)
		close(stopStorm)
		storm.Wait()
	}
	nStops := 1
	if st.Second {
		nStops = 2
	}
	returned := 0
	bound := c11Bound
	if st.Name == "tls-not-reading" {
		// crypto/tls itself spends up to 5s trying to send a close_notify to a peer that does not read (on top of gldap's
		// 1s write grace): this state's own bound is 25s
		bound = 25 * time.Second
	}
	timeout := time.After(bound)
	var late bool
wait:
	for returned < nStops {
		select {
		case err := <-stopRet:
			returned++
			if err != nil {
				c.Violate("Stop returned an error", err.Error(), map[string]any{"state": sig})
			}
		case <-timeout:
			late = true
			break wait
		}
	}
	c.Count("stops", 1)
	if len(conns) > 0 {
		c.Count("stops_with_open_connections", 1)
		c.Distinct("states", sig)
	}
	if blocked > 0 {
		c.Count("stops_with_handlers_blocked_in_write", 1)
	}
	if st.Name == "tls-no-hello+timeouts" {
		c.Count("stops_right_after_a_silent_tls_peer_connected_with_timeouts_configured", 1)
	}
	if st.Name == "steady-reader" && streamed.Load() >= 20 {
		c.Count("stops_while_a_client_steadily_reads_an_endless_response", 1)
	}
	if !late {
		lat := time.Since(t0)
		c.Max("max/stop_latency_ms", lat.Milliseconds())
		select {
		case <-srv.runDone:
			if srv.runErr != nil {
				c.Violate("Run returned an error after Stop", fmt.Sprint(srv.runErr), map[string]any{"state": sig})
			}
		case <-time.After(c11Bound):
			c.Violate("Run did not return after Stop returned", "", map[string]any{"state": sig})
		}
		closeAll()
		cwg.Wait()
		if st.Name == "idle" && st.Conns == 8 {
			c.Sample(map[string]any{"state": sig, "stop_latency_ms": lat.Milliseconds()})
		}
		return
	}
	// ---- B expired without any client action: logical confirmation
	dump := gldapGoroutines()
	stopParked, connParked := false, false
	for _, g := range dump {
		if goroutineParkedUnder(g, "(*Server).Stop") {
			stopParked = true
		}
		if (strings.Contains(g, "(*conn).serveRequests") || strings.Contains(g, "(*ResponseWriter).Write") || strings.Contains(g, "(*conn).close")) &&
			(strings.Contains(g, "internal/poll.runtime_pollWait") || strings.Contains(g, "sync.(*WaitGroup).Wait")) {
			connParked = true
		}
	}
	tRelease := time.Now()
	closeAll()
	released := false
	for returned < nStops {
		select {
		case <-stopRet:
			returned++
			continue
		case <-time.After(patience):
		}
		break
	}
	released = returned == nStops
	cwg.Wait()
	det := map[string]any{"state": sig, "bound_s": bound.Seconds(), "stop_goroutine_parked": stopParked, "connection_goroutine_parked_in_io": connParked,
		"released_after_clients_closed": released, "release_latency_ms": time.Since(tRelease).Milliseconds(), "goroutines": trimDump(dump, 3)}
	connGoroutine := false
	for _, g := range dump {
		if strings.Contains(g, "(*conn).serveRequests") || strings.Contains(g, "(*conn).close") || strings.Contains(g, "(*Server).Run.func") {
			connGoroutine = true
		}
	}
	det["harness_handlers_running_at_expiry"] = inHandlers.Load()
	if stopParked && connParked && released {
		c.Violate("Stop blocks while a client holds a connection: "+st.Name,
			fmt.Sprintf("state %s: Stop had not returned after %s without any client action; it returned %d ms after the clients closed their sockets", sig, bound, time.Since(tRelease).Milliseconds()), det)
	} else if stopParked && connGoroutine && inHandlers.Load() == 0 {
		// no application handler is running, so nothing outside gldap can be what Stop is waiting for
		c.Violate("Stop blocks although no handler is running: "+st.Name,
			fmt.Sprintf("state %s: Stop had not returned after %s; its goroutine is parked, a gldap connection goroutine is still parked and no handler is running (released after the clients closed: %v)", sig, bound, released), det)
	} else if inWrite := countGoroutines(dump, "(*ResponseWriter).Write"); stopParked && inHandlers.Load() > 0 && int64(inWrite) >= inHandlers.Load() {
		// every handler that is still running sits inside gldap's own Write (the workload's handlers block nowhere
		// else): whatever Write is parked on - the network, or gldap's writer lock - Stop has to get it out of there
		det["handlers_parked_inside_ResponseWriter_Write"] = inWrite
		c.Violate("Stop blocks while handlers are parked inside ResponseWriter.Write: "+st.Name,
			fmt.Sprintf("state %s: Stop had not returned after %s; %d handlers are still running and all of them are parked inside gldap's ResponseWriter.Write (released after the clients closed: %v)", sig, bound, inHandlers.Load(), released), det)
	} else if still := parkedIDs(gldapGoroutines(), "(*Server).Stop", parkedIDs(dump, "(*Server).Stop", nil)); !released && len(still) > 0 && inHandlers.Load() == 0 {
		// second look, patience after every client closed its socket: no handler is running and a Stop goroutine is
		// parked where it was parked before - it waits for something that only gldap itself can provide
		det["stop_goroutines_parked_in_both_dumps"] = len(still)
		c.Violate("Stop does not return although every client has gone and no handler is running: "+st.Name,
			fmt.Sprintf("state %s: %d of %d Stop calls had not returned %s after the clients closed their sockets (and %s before that without client action)", sig, nStops-returned, nStops, patience, bound), det)
	} else {
		c.Inconclusive(fmt.Sprintf("state %s: Stop exceeded %s but the goroutine dump does not show the client-held shape (stopParked=%v connParked=%v released=%v)", sig, bound, stopParked, connParked, released))
	}
}

// goroutineParkedUnder: the goroutine has the frame and is in a wait state (anything but running/runnable/syscall).
func goroutineParkedUnder(g, frame string) bool {
	if !strings.Contains(g, frame) {
		return false
	}
	i := strings.Index(g, "[")
	j := strings.Index(g, "]")
	if i < 0 || j < i {
		return false
	}
	st := g[i+1 : j]
	return !strings.HasPrefix(st, "running") && !strings.HasPrefix(st, "runnable") && !strings.HasPrefix(st, "syscall")
}

// parkedIDs: "goroutine N" headers of the goroutines parked under frame; with among != nil only those in it.
func parkedIDs(dump []string, frame string, among map[string]bool) map[string]bool {
	out := map[string]bool{}
	for _, g := range dump {
		if !goroutineParkedUnder(g, frame) {
			continue
		}
		g = strings.TrimLeft(g, "\n")
		id := g
		if k := strings.Index(g, " ["); k > 0 {
			id = g[:k]
		}
		if among == nil || among[id] {
			out[id] = true
		}
	}
	return out
}

func countGoroutines(dump []string, frame string) int {
	n := 0
	for _, g := range dump {
		if strings.Contains(g, frame) {
			n++
		}
	}
	return n
}

func trimDump(d []string, n int) []string {
	var out []string
	for i, g := range d {
		if i >= n {
			break
		}
		if len(g) > 1500 {
			g = g[:1500]
		}
		out = append(out, g)
	}
	return out
}
