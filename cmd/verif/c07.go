package main

import (
	"bytes"
	"crypto/tls"
	"encoding/json"
	"fmt"
	"net"
	"os"
	"path/filepath"
	"strconv"
	"strings"
	"sync"
	"sync/atomic"
	"syscall"
	"time"

	"github.com/hashicorp/go-hclog"
	"github.com/jimlambrt/gldap"

	"verif/internal/sber"
)

func init() {
	register(&Check{
		ID: "C07", Level: "fault_enumeration", Primary: "fault_placements", EvalCount: "faults_injected",
		Rule: "faults = handler panic (the panic value cycles through string, error, int, struct, pointer, byte slice and two runtime errors) in every operation kind (concurrently dispatched bind/search/modify/add/delete/extended; inline StartTLS; inline unbind; default route), each alone, after earlier requests, and " +
			"while sibling handlers of the same connection are still running; connection reset mid-frame; truncated frame + FIN; malformed / undecodable frames (incl. inputs that used to panic the decoder); a client that stops " +
			"reading a large response and resets (failed write) or is held; storms of hundreds of recovered panics; 24 clients whose connections fail at the same moment, 25 times over; a StartTLS upgrade while an earlier request of the connection is still in its handler; the structural mutations (children dropped/doubled/swapped/truncated, tag/class/length corruptions) of the canonical requests; established ldaps sessions that vanish (reset, mid-frame reset, bare FIN, reset with a request unanswered); TLS handshakes stalled and held on a TLS listener; the panic faults again on a server whose logger is switched off; descriptor exhaustion at accept (RLIMIT_NOFILE lowered until accept4 returns EMFILE; on a plain server and on one with a write timeout); 300 (thorough 3000) abruptly ended connections in a row under a descriptor limit with room for 40; a phase in which the client whose request made a handler panic stays connected and silent (loggers of hclog's text format and of the JSON format, at trace/debug/info/error/off): a connection opened before and one opened after the fault must be served while it stays. Each fault is placed within continuous verified traffic on bystander " +
			"connections and followed by a fresh-connection probe. distinct_nontrivial = distinct (fault kind, placement) pairs injected while at least one bystander operation overlapped or followed",
		Assume: []string{"the server runs in a child process; its death, or Run returning while not stopped, is observed by the supervisor / the harness",
			"the faulted connection itself may die; only bystanders, new connections and the process are asserted"},
		Phases: func(tier string, seed int64) []Phase {
			return []Phase{{Name: "faults", Run: c07Faults, Crash: c07Crash}, {Name: "emfile", Run: c07Emfile}, {Name: "tls-stalled-handshakes", Run: c07TLSStalled},
				// the panic faults once more on a server whose logger is switched off (what gldap does about a panic must
				// not depend on whether anybody listens to its log)
				{Name: "faults-silent-logger", Run: func(c *Ctx) { c07Silent = true; c07Faults(c) }, Crash: c07Crash},
				{Name: "panic-then-silent", Run: c07PanicThenSilent}}
		},
		MinObserved: []string{"faults_injected", "descriptor_shortage_episodes_on_a_server_with_a_write_timeout", "bystanders_served_while_the_faulty_client_stays_connected_and_silent", "bystander_ops_verified", "bystander_ops_overlapping_or_after_a_fault", "new_connection_probes", "emfile_accept_failures_provoked", "probes_served_while_a_handshake_is_stalled", "mutated_frames_fed", "handler_panics_with_a_value_that_is_neither_string_nor_error", "abruptly_ended_connections_under_a_tight_descriptor_limit", "connections_upgraded_while_a_request_was_in_flight", "panic_faults_injected_on_a_server_whose_logger_is_off", "connections_failing_at_the_same_moment"},
	})
}

var c07Kinds = []string{
	"panic-bind", "panic-search", "panic-modify", "panic-add", "panic-delete", "panic-extended",
	"panic-starttls", "panic-unbind", "panic-default",
	"reset-midframe", "truncated-fin", "malformed", "former-decode-panic", "stop-reading-then-reset", "stalled-reader-held", "storm-of-panics", "mutated-frames", "abandon-flood", "inflight-across-starttls", "simultaneous-faults",
}

var (
	c07MutOnce sync.Once
	c07Mut     [][]byte
	c07MutNext atomic.Int64
)

var c07Placements = []string{"alone", "after-requests", "siblings-running", "double", "pipelined-after"}

type c07Case struct {
	Kind, Place string
}

var c07Silent bool

// c07LogLevel, when set, is the level of the logger the next c07Server gets.
var c07LogLevel hclog.Level
var c07LogText bool

// c07PanicThenSilent: the client whose request made a handler panic neither hangs up nor says anything more - it just
// stays there. Whatever the server's logger is set to (trace, debug, info, error, off), a connection that was open
// before and a connection opened afterwards are served; the faulty client leaves only after they have been.
func c07PanicThenSilent(c *Ctx) {
	kinds := []string{"panic-bind", "panic-search", "panic-modify", "panic-add", "panic-delete", "panic-extended", "panic-default"}
	levels := []hclog.Level{hclog.Debug, hclog.Trace, hclog.Info, hclog.Error, hclog.Off}
	reps := c.N(1, 6)
	levels = append(levels, levels...) // once with hclog's text format, once with JSON lines
	for li, lvl := range levels {
		c07LogLevel, c07LogText = lvl, li < len(levels)/2
		srv, _, err := c07Server()
		c07LogLevel = hclog.NoLevel
		if err != nil {
			c.Inconclusive("server start: " + err.Error())
			return
		}
		failed := false
		for rep := 0; rep < reps && !failed; rep++ {
			for ki, kind := range kinds {
				cs := map[string]any{"kind": kind, "placement": "faulty-client-stays-connected-and-silent", "logger_level": lvl.String(), "logger_text_format": c07LogText}
				before, err := dialRaw(srv.Addr, nil)
				if err != nil {
					c.Violate("server stopped accepting connections", "dial: "+err.Error(), cs)
					failed = true
					break
				}
				before.Send(c07Search(1, "tag=1"))
				before.ReadMsg(patience)
				before.ReadMsg(patience)
				faulty, err := dialRaw(srv.Addr, nil)
				if err != nil {
					before.Close()
					c.Violate("server stopped accepting connections", "dial: "+err.Error(), cs)
					failed = true
					break
				}
				if (li+rep+ki)%2 == 1 {
					faulty.Send(c07Search(50, "tag=2"))
					faulty.ReadMsg(patience)
					faulty.ReadMsg(patience)
				}
				faulty.Send(c07FaultFrame(kind, 100))
				c.Count("faults_injected", 1)
				c.Distinct("fault_placements", kind+"/faulty-client-stays-connected-and-silent/"+lvl.String())
				time.Sleep(time.Duration(20+10*((rep+ki)%8)) * time.Millisecond)
				// (the faulty client does not read, does not write, does not close)
				ok := true
				probe := func(cl *Client, what string, id int64) {
					tag := int64(1000 + ki)
					if err := cl.Send(c07Search(id, fmt.Sprintf("tag=%d", tag))); err != nil {
						c.Violate("bystander operation failed", fmt.Sprintf("%s, while the client whose %s request made its handler panic stays connected and silent (logger level %s): send: %v", what, kind, lvl, err), cs)
						ok = false
						return
					}
					m, err := cl.ReadMsg(patience)
					if err == nil {
						var e *sber.Entry
						if e, err = sber.AsEntry(m.Op); err == nil && (m.ID != id || len(e.Attrs) != 1 || string(e.Attrs[0].Vals[0]) != c07Payload(tag)) {
							err = fmt.Errorf("wrong entry")
						}
					}
					if err == nil {
						_, err = cl.ReadMsg(patience)
					}
					if err != nil {
						c.Violate("bystander operation failed", fmt.Sprintf("%s, while the client whose %s request made its handler panic stays connected and silent (logger level %s): %v", what, kind, lvl, err), cs)
						ok = false
						return
					}
					c.Count("bystander_ops_verified", 1)
					c.Count("bystanders_served_while_the_faulty_client_stays_connected_and_silent", 1)
				}
				probe(before, "a connection opened before the fault", 2)
				if ok {
					after, err := dialRaw(srv.Addr, nil)
					if err != nil {
						c.Violate("server stopped accepting connections", fmt.Sprintf("dial while the faulty client stays connected (logger level %s): %v", lvl, err), cs)
						ok = false
					} else {
						probe(after, "a connection opened after the fault", 1)
						c.Count("new_connection_probes", 1)
						after.Close()
					}
				}
				before.Close()
				faulty.Close()
				if !ok {
					failed = true
					break
				}
			}
		}
		srv.StopWithin(patience)
	}
}

func c07Cases(c *Ctx) []c07Case {
	var out []c07Case
	reps := c.N(3, 40)
	if c07Silent {
		reps = c.N(1, 4)
	}
	for rep := 0; rep < reps; rep++ {
		for _, k := range c07Kinds {
			if c07Silent && !strings.HasPrefix(k, "panic-") && k != "storm-of-panics" {
				continue
			}
			for _, p := range c07Placements {
				out = append(out, c07Case{k, p})
			}
		}
	}
	return out
}

func c07Payload(tag int64) string {
	return fmt.Sprintf("payload-%d-%x", tag, uint64(tag)*0x9E3779B97F4A7C15)
}

// c07Server builds the server under test: every handler answers correctly,
// and panics when the request is marked.
func c07Server() (*Srv, *sync.WaitGroup, error) {
	var park sync.WaitGroup // released by the injector: siblings parked while a panic happens
	release := make(chan struct{})
	_ = release
	mark := func(s string) bool { return strings.Contains(s, "PANIC-NOW") }
	scfg := SrvCfg{}
	if c07Silent {
		scfg.LogLevel = hclog.Off
	}
	if c07LogLevel != hclog.NoLevel {
		scfg.LogLevel, scfg.LogText = c07LogLevel, c07LogText
	}
	if c07WriteTimeout != 0 {
		scfg.WriteTimeout = c07WriteTimeout
	}
	srv, err := startSrv(scfg, func(m *gldap.Mux) {
		m.Bind(func(w *gldap.ResponseWriter, r *gldap.Request) {
			b, _ := r.GetSimpleBindMessage()
			if mark(b.UserName) {
				c07Throw("bind")
			}
			w.Write(r.NewBindResponse(gldap.WithResponseCode(0)))
		})
		m.Search(func(w *gldap.ResponseWriter, r *gldap.Request) {
			s, _ := r.GetSearchMessage()
			switch {
			case mark(s.BaseDN):
				c07Throw("search")
			case strings.HasPrefix(s.BaseDN, "slow="):
				d, _ := strconv.Atoi(strings.TrimPrefix(s.BaseDN, "slow="))
				time.Sleep(time.Duration(d) * time.Millisecond)
			case s.BaseDN == "big":
				blob := strings.Repeat("x", 70000)
				for i := 0; i < 300; i++ {
					e := r.NewSearchResponseEntry(fmt.Sprintf("cn=%d", i))
					e.AddAttribute("blob", []string{blob})
					if w.Write(e) != nil {
						break
					}
				}
			case strings.HasPrefix(s.BaseDN, "tag="):
				tag, _ := strconv.ParseInt(strings.TrimPrefix(s.BaseDN, "tag="), 10, 64)
				e := r.NewSearchResponseEntry(s.BaseDN)
				e.AddAttribute("p", []string{c07Payload(tag)})
				w.Write(e)
			}
			w.Write(r.NewSearchDoneResponse(gldap.WithResponseCode(0)))
		})
		m.Modify(func(w *gldap.ResponseWriter, r *gldap.Request) {
			mm, _ := r.GetModifyMessage()
			if mark(mm.DN) {
				c07Throw("modify")
			}
			w.Write(r.NewModifyResponse(gldap.WithResponseCode(0)))
		})
		m.Add(func(w *gldap.ResponseWriter, r *gldap.Request) {
			a, _ := r.GetAddMessage()
			if mark(a.DN) {
				c07Throw("add")
			}
			w.Write(r.NewResponse(gldap.WithApplicationCode(gldap.ApplicationAddResponse), gldap.WithResponseCode(0)))
		})
		m.Delete(func(w *gldap.ResponseWriter, r *gldap.Request) {
			d, _ := r.GetDeleteMessage()
			if mark(d.DN) {
				c07Throw("delete")
			}
			w.Write(r.NewResponse(gldap.WithApplicationCode(gldap.ApplicationDelResponse), gldap.WithResponseCode(0)))
		})
		m.ExtendedOperation(func(w *gldap.ResponseWriter, r *gldap.Request) {
			c07Throw("extended")
		}, "1.9.9.1")
		m.ExtendedOperation(func(w *gldap.ResponseWriter, r *gldap.Request) {
			w.Write(r.NewExtendedResponse(gldap.WithResponseCode(0)))
		}, "1.9.9.2")
		m.ExtendedOperation(func(w *gldap.ResponseWriter, r *gldap.Request) {
			if c07RealUpgrade.CompareAndSwap(true, false) {
				// this once the route does what it is there for
				c07PKIOnce.Do(func() { c07PKI = newPKI() })
				w.Write(r.NewExtendedResponse(gldap.WithResponseCode(0)))
				r.StartTLS(c07PKI.ServerOnly)
				return
			}
			c07Throw("StartTLS")
		}, gldap.ExtendedOperationStartTLS)
		m.Unbind(func(w *gldap.ResponseWriter, r *gldap.Request) {
			if c07PanicUnbind.CompareAndSwap(true, false) {
				c07Throw("unbind")
			}
		})
		m.DefaultRoute(func(w *gldap.ResponseWriter, r *gldap.Request) {
			c07Throw("default-route")
		})
	})
	return srv, &park, err
}

var c07PanicUnbind, c07RealUpgrade atomic.Bool

var (
	c07PKIOnce sync.Once
	c07PKI     *PKI
)

// c07Throw panics with a value whose kind changes from call to call: what a handler panics WITH is the application's
// business - a string, an error, a number, a struct, a runtime error.
var c07ThrowCtr, c07ThrownOdd atomic.Int64

type c07PanicStruct struct {
	Site string
	N    int
}

func c07Throw(site string) {
	msg := "injected panic in " + site + " handler"
	k := c07ThrowCtr.Add(1) % 8
	if k >= 2 && k <= 5 {
		c07ThrownOdd.Add(1)
	}
	switch k {
	case 0:
		panic(msg)
	case 1:
		panic(fmt.Errorf("%s", msg))
	case 2:
		panic(42)
	case 3:
		panic(c07PanicStruct{Site: site, N: 7})
	case 4:
		panic(&c07PanicStruct{Site: site, N: 8})
	case 5:
		panic([]byte(msg))
	case 6:
		var m map[string]int
		m[msg] = 1 // runtime error: assignment to entry in nil map
	default:
		var p *c07PanicStruct
		_ = p.N // runtime error: nil pointer dereference
	}
	panic(msg)
}

func c07Search(id int64, base string) []byte {
	return sber.Message(id, sber.Search{Base: []byte(base), Scope: 2, Filter: sber.PresentFilter("cn"), Attrs: [][]byte{}}.Node(), nil).Encode()
}

// c07FaultFrame builds the request that triggers the fault.
func c07FaultFrame(kind string, id int64) []byte {
	switch kind {
	case "panic-bind":
		return sber.Message(id, sber.BindRequest(3, []byte("PANIC-NOW"), []byte("p")), nil).Encode()
	case "panic-search":
		// (with the limits a real client sets: size, time, deref, typesOnly)
		return sber.Message(id, sber.Search{Base: []byte("PANIC-NOW"), Scope: id % 3, Deref: id % 4, SizeLimit: id % 7, TimeLimit: 30 * (id % 2), TypesOnly: id%5 == 0, Filter: sber.PresentFilter("cn"), Attrs: [][]byte{}}.Node(), nil).Encode()
	case "panic-modify":
		return sber.Message(id, sber.ModifyRequest([]byte("PANIC-NOW"), nil), nil).Encode()
	case "panic-add":
		return sber.Message(id, sber.AddRequest([]byte("PANIC-NOW"), nil), nil).Encode()
	case "panic-delete":
		return sber.Message(id, sber.DelRequest([]byte("PANIC-NOW")), nil).Encode()
	case "panic-extended":
		return sber.Message(id, sber.ExtendedRequest([]byte("1.9.9.1"), nil, false), nil).Encode()
	case "panic-starttls":
		return sber.Message(id, sber.ExtendedRequest([]byte(sber.OIDStartTLS), nil, false), nil).Encode()
	case "panic-unbind":
		return sber.Message(id, sber.UnbindRequest(), nil).Encode()
	case "panic-default":
		return sber.Message(id, sber.ExtendedRequest([]byte("1.9.9.404"), nil, false), nil).Encode()
	}
	return nil
}

// c07Inject performs one fault on its own connection.
func c07Inject(c *Ctx, srv *Srv, cs c07Case, r *Rand) {
	cl, err := dialRaw(srv.Addr, nil)
	if err != nil {
		c.Violate("server stopped accepting connections", "dial for fault injection failed: "+err.Error(), cs)
		return
	}
	defer cl.Close()
	id := int64(100)
	pre := func() {
		switch cs.Place {
		case "after-requests":
			for i := 0; i < 3; i++ {
				cl.Send(c07Search(id, "tag=1"))
				id++
				cl.ReadMsg(patience)
				cl.ReadMsg(patience)
			}
		case "siblings-running":
			// siblings still inside their handlers (slow) and writing (big) when the fault hits
			cl.Send(c07Search(id, "slow=150"))
			cl.Send(c07Search(id+1, "slow=300"))
			cl.Send(c07Search(id+2, "tag=7"))
			id += 3
		}
	}
	pre()
	switch {
	case strings.HasPrefix(cs.Kind, "panic-"):
		if cs.Kind == "panic-unbind" {
			c07PanicUnbind.Store(true)
		}
		f := c07FaultFrame(cs.Kind, id)
		switch cs.Place {
		case "double":
			if cs.Kind == "panic-unbind" {
				cl.Send(f)
			} else {
				cl.Send(append(append([]byte{}, f...), c07FaultFrame(cs.Kind, id+1)...))
			}
		case "pipelined-after":
			cl.Send(append(append([]byte{}, f...), c07Search(id+1, "tag=3")...))
		default:
			cl.Send(f)
		}
		// drain whatever comes back for a moment (the faulted connection may die or live on)
		cl.C.SetReadDeadline(time.Now().Add(400 * time.Millisecond))
		for {
			if _, err := sber.ReadFrame(cl.br); err != nil {
				break
			}
		}
		c07PanicUnbind.Store(false)
	case cs.Kind == "inflight-across-starttls":
		// an ordinary request is still in its handler while a StartTLS request pipelined behind it upgrades the
		// connection; the handler finishes (and answers) afterwards. Odd for a client to do, fatal for nobody.
		c07PKIOnce.Do(func() { c07PKI = newPKI() })
		c07RealUpgrade.Store(true)
		cl.Send(append(c07Search(id, "slow=250"), sber.Message(id+1, sber.ExtendedRequest([]byte(sber.OIDStartTLS), nil, false), nil).Encode()...))
		upgraded := false
		for k := 0; k < 8; k++ {
			m, err := cl.ReadMsg(3 * time.Second)
			if err != nil {
				break
			}
			if m.ID == id+1 {
				tc := tls.Client(cl.C, c07PKI.ClientPlain)
				cl.C.SetDeadline(time.Now().Add(5 * time.Second))
				if tc.Handshake() == nil {
					upgraded = true
					tcl := wrapClient(tc)
					tcl.ReadMsg(2 * time.Second) // the slow handler's answer, written after the upgrade
					tcl.Send(c07Search(id+2, "tag=9"))
					tcl.ReadMsg(2 * time.Second)
				}
				break
			}
		}
		c07RealUpgrade.Store(false)
		if upgraded {
			c.Count("connections_upgraded_while_a_request_was_in_flight", 1)
		}
	case cs.Kind == "simultaneous-faults":
		// many connections ending in an error at the same moment (malformed frames, resets in the middle of a frame,
		// half frames + FIN): whatever the server keeps about failing connections, it keeps it safely
		var fw sync.WaitGroup
		for g := 0; g < 24; g++ {
			fw.Add(1)
			go func(g int) {
				defer fw.Done()
				for k := 0; k < 25; k++ {
					cn, err := net.DialTimeout("tcp", srv.Addr, 2*time.Second)
					if err != nil {
						return
					}
					switch (g + k) % 3 {
					case 0:
						cn.Write([]byte{0x30, 0x03, 0x02, 0x01, 0x01})
					case 1:
						f := c07Search(7, "tag=5")
						cn.Write(f[:len(f)/2])
						cn.(*net.TCPConn).SetLinger(0)
					default:
						cn.Write([]byte{0x30, 0x84, 0x00, 0xff, 0xff, 0xff, 0x02})
					}
					cn.SetReadDeadline(time.Now().Add(20 * time.Millisecond))
					cn.Read(make([]byte, 64))
					cn.Close()
				}
			}(g)
		}
		fw.Wait()
		c.Count("connections_failing_at_the_same_moment", 24*25)
	case cs.Kind == "reset-midframe":
		f := c07Search(id, "tag=5")
		cl.Send(f[:len(f)/2])
		time.Sleep(time.Duration(r.Intn(3)) * time.Millisecond)
		cl.Reset()
	case cs.Kind == "truncated-fin":
		f := c07Search(id, "tag=5")
		cl.Send(f[:1+r.Intn(len(f)-1)])
		cl.C.(*net.TCPConn).CloseWrite()
		cl.ReadToEOF(2 * time.Second)
	case cs.Kind == "malformed":
		junk := [][]byte{{0xff, 0xff, 0xff}, {0x30, 0x84, 0x00, 0xff, 0xff, 0xff, 0x02}, []byte("GET / HTTP/1.0\r\n\r\n"), {0x30, 0x03, 0x02, 0x01, 0x01}, {0x16, 0x03, 0x01, 0x00, 0x05, 1, 2, 3, 4, 5},
			sber.Message(id, sber.Cons(sber.Application, 14, sber.Str("cn=a")), nil).Encode()}
		cl.Send(pick(r, junk))
		cl.C.(*net.TCPConn).CloseWrite()
		cl.ReadToEOF(2 * time.Second)
	case cs.Kind == "former-decode-panic":
		inputs := [][]byte{
			sber.Message(id, sber.BindRequest(2, []byte("cn=a"), []byte("p")), nil).Encode(),
			sber.Seq(sber.Int(id), sber.BindRequest(3, []byte("cn=a"), []byte("p")), sber.Cons(sber.Context, 0, sber.Seq(sber.Int(5)))).Encode(),
			sber.Seq(sber.Int(id), sber.DelRequest([]byte("cn=a")), sber.Cons(sber.Context, 0, sber.Seq(sber.Str(sber.OIDPaging), sber.Wrap(sber.Seq(sber.Int(1)))))).Encode(),
			sber.Seq(sber.Int(id), sber.DelRequest([]byte("cn=a")), sber.Cons(sber.Context, 0, sber.Seq(sber.Str(sber.OIDBehera), sber.Wrap(sber.Seq(sber.Cons(sber.Context, 0)))))).Encode(),
		}
		cl.Send(pick(r, inputs))
		cl.C.SetReadDeadline(time.Now().Add(300 * time.Millisecond))
		sber.ReadFrame(cl.br)
	case cs.Kind == "abandon-flood":
		// nothing but Abandon requests, as many as the server will take (up to 5 million): whatever it does with an
		// operation it does not support, doing it over and over costs this connection at most
		frame := sber.Message(2, sber.Prim(sber.Application, sber.AppAbandonRequest, sber.IntBytes(1)), nil).Encode()
		chunk := bytes.Repeat(frame, 8192)
		sent := 0
		cl.C.SetWriteDeadline(time.Now().Add(60 * time.Second))
		for sent < 5000000 {
			if _, err := cl.C.Write(chunk); err != nil {
				break
			}
			sent += 8192
		}
		c.Count("abandon_frames_sent", int64(sent))
	case cs.Kind == "mutated-frames":
		// a slice of the single-point shape/type mutations of every canonical request (the C02 corpus): should any of
		// them make gldap's own code panic, that must stay this connection's problem
		c07MutOnce.Do(func() {
			// structural mutations (children dropped, doubled, swapped, truncated, extended, emptied; tag, class and
			// length corruptions) of the canonical requests without controls and of the long-list ones
			for _, cn := range canonicals() {
				if !strings.HasSuffix(cn.Name, "+none") && !strings.Contains(cn.Name, "+lists-of-9") {
					continue
				}
				for _, m := range mutationsFor(cn.Tree, 0) {
					if b, ok := mutate(cn.Tree, nil, m); ok && c02Feedable(b) {
						c07Mut = append(c07Mut, b)
					}
				}
			}
		})
		cl.Send(c07Mut[int(c07MutNext.Add(1))%len(c07Mut)])
		cl.C.(*net.TCPConn).CloseWrite()
		cl.ReadToEOF(2 * time.Second)
		for k := 0; k < 300; k++ {
			if mc, err := dialRaw(srv.Addr, nil); err == nil {
				mc.Send(c07Mut[int(c07MutNext.Add(1))%len(c07Mut)])
				mc.C.(*net.TCPConn).CloseWrite()
				mc.ReadToEOF(2 * time.Second)
				mc.Close()
				c.Count("mutated_frames_fed", 1)
			}
		}
		c.Max("max/mutated_frame_corpus", int64(len(c07Mut)))
	case cs.Kind == "storm-of-panics":
		// hundreds of recovered handler panics, on this connection and on others: whatever a panic leaks must not add up
		n := 80
		if cs.Place == "alone" {
			n = 450
		}
		for i := 0; i < n; i++ {
			if cl.Send(c07FaultFrame(pick(r, []string{"panic-search", "panic-bind", "panic-delete", "panic-extended"}), id+int64(i))) != nil {
				break
			}
			if i%50 == 49 {
				time.Sleep(2 * time.Millisecond)
			}
		}
		for k := 0; k < 4; k++ {
			if o, err := dialRaw(srv.Addr, nil); err == nil {
				for i := 0; i < 10; i++ {
					o.Send(c07FaultFrame("panic-modify", int64(i+1)))
				}
				o.C.SetReadDeadline(time.Now().Add(50 * time.Millisecond))
				sber.ReadFrame(o.br)
				o.Close()
			}
		}
		cl.C.SetReadDeadline(time.Now().Add(300 * time.Millisecond))
		for {
			if _, err := sber.ReadFrame(cl.br); err != nil {
				break
			}
		}
	case cs.Kind == "stalled-reader-held":
		// the client keeps the connection open but never reads: its handlers block in Write for as long as the harness
		// holds it. While it is held, a fresh connection must be served (bounded progress, B = 10s, no timing verdict
		// beyond that bound) - only then is the stalled client let go.
		n := 3
		if cs.Place == "double" || cs.Place == "siblings-running" {
			n = 40
		}
		for i := 0; i < n; i++ {
			cl.Send(c07Search(id+int64(i), "big"))
		}
		time.Sleep(150 * time.Millisecond)
		done := make(chan error, 1)
		go func() {
			p, err := dialRaw(srv.Addr, nil)
			if err != nil {
				done <- err
				return
			}
			defer p.Close()
			p.Send(c07Search(9, "tag=4242"))
			m, err := p.ReadMsg(patience)
			if err == nil {
				if e, perr := sber.AsEntry(m.Op); perr != nil || len(e.Attrs) != 1 || string(e.Attrs[0].Vals[0]) != c07Payload(4242) {
					err = fmt.Errorf("wrong answer")
				}
			}
			done <- err
		}()
		select {
		case err := <-done:
			if err != nil {
				c.Violate("a connection opened while another client does not read its responses is not served", fmt.Sprintf("%s/%s: %v", cs.Kind, cs.Place, err), cs)
			} else {
				c.Count("probes_served_while_a_reader_is_stalled", 1)
			}
		case <-time.After(10 * time.Second):
			c.Violate("a connection opened while another client does not read its responses is not served", fmt.Sprintf("%s/%s: no answer within 10s while the stalled client was held; it is served only after the stalled client lets go", cs.Kind, cs.Place), cs)
		}
		cl.Reset()
	case cs.Kind == "stop-reading-then-reset":
		cl.Send(c07Search(id, "big"))
		time.Sleep(time.Duration(50+r.Intn(200)) * time.Millisecond)
		cl.Reset()
	}
}

type c07Op struct {
	Start, End int64
	OK         bool
	Err        string
	Conn       int
}

func c07Faults(c *Ctx) {
	start := 0
	if v, err := strconv.Atoi(os.Getenv("VERIF_ARG")); err == nil {
		start = v
	}
	cases := c07Cases(c)
	progress := filepath.Join(os.Getenv("VERIF_SCRATCH_DIR"), "c07-progress")
	srv, _, err := c07Server()
	if err != nil {
		c.Inconclusive("server start: " + err.Error())
		return
	}
	// bystanders
	var stop atomic.Bool
	var opsMu sync.Mutex
	var ops []c07Op
	var bwg sync.WaitGroup
	var tagCtr atomic.Int64
	nBy := 4
	for b := 0; b < nBy; b++ {
		bwg.Add(1)
		go func(b int) {
			defer bwg.Done()
			cl, err := dialRaw(srv.Addr, nil)
			if err != nil {
				opsMu.Lock()
				ops = append(ops, c07Op{Start: nextSeq(), End: nextSeq(), Err: "dial: " + err.Error(), Conn: b})
				opsMu.Unlock()
				return
			}
			defer cl.Close()
			id := int64(1)
			for !stop.Load() {
				tag := tagCtr.Add(1)
				op := c07Op{Start: nextSeq(), Conn: b}
				err := func() error {
					if err := cl.Send(c07Search(id, fmt.Sprintf("tag=%d", tag))); err != nil {
						return err
					}
					m, err := cl.ReadMsg(patience)
					if err != nil {
						return err
					}
					e, err := sber.AsEntry(m.Op)
					if err != nil || m.ID != id || len(e.Attrs) != 1 || string(e.Attrs[0].Vals[0]) != c07Payload(tag) {
						return fmt.Errorf("wrong answer for tag %d: %v", tag, err)
					}
					m, err = cl.ReadMsg(patience)
					if err != nil {
						return err
					}
					if res, err := sber.AsResult(m.Op); err != nil || res.Code != 0 || m.ID != id || m.Op.Tag != sber.AppSearchResultDone {
						return fmt.Errorf("wrong SearchDone for tag %d", tag)
					}
					return nil
				}()
				op.End = nextSeq()
				op.OK = err == nil
				if err != nil {
					op.Err = err.Error()
				}
				opsMu.Lock()
				ops = append(ops, op)
				opsMu.Unlock()
				if err != nil {
					return // this bystander is dead: that is the observation
				}
				id++
				time.Sleep(300 * time.Microsecond)
			}
		}(b)
	}
	type faultEv struct {
		Case       c07Case
		Start, End int64
	}
	var faults []faultEv
	r := c.Rng
	for i := start; i < len(cases); i++ {
		cs := cases[i]
		b, _ := json.Marshal(map[string]any{"index": i, "kind": cs.Kind, "place": cs.Place})
		os.WriteFile(progress, b, 0o644)
		fe := faultEv{Case: cs, Start: nextSeq()}
		c07Inject(c, srv, cs, r)
		fe.End = nextSeq()
		faults = append(faults, fe)
		c.Count("faults_injected", 1)
		if c07Silent {
			c.Count("panic_faults_injected_on_a_server_whose_logger_is_off", 1)
		}
		c.Count("faults/"+cs.Kind, 1)
		c.Distinct("fault_placements", cs.Kind+"/"+cs.Place)
		// the process must still be serving: Run not returned, a fresh connection is served
		select {
		case <-srv.runDone:
			c.Violate("Run returned after a fault although the server was not stopped", fmt.Sprintf("%s/%s: Run returned %v", cs.Kind, cs.Place, srv.runErr), cs)
			i = len(cases)
			continue
		default:
		}
		if cl, err := dialRaw(srv.Addr, nil); err != nil {
			c.Violate("server stopped accepting connections", fmt.Sprintf("after %s/%s: %v", cs.Kind, cs.Place, err), cs)
		} else {
			tag := tagCtr.Add(1)
			cl.Send(c07Search(9, fmt.Sprintf("tag=%d", tag)))
			m, err := cl.ReadMsg(patience)
			ok := false
			if err == nil {
				if e, err := sber.AsEntry(m.Op); err == nil && len(e.Attrs) == 1 && string(e.Attrs[0].Vals[0]) == c07Payload(tag) {
					ok = true
				}
			}
			if !ok {
				c.Violate("a connection opened after a fault is not served", fmt.Sprintf("after %s/%s: %v", cs.Kind, cs.Place, err), cs)
			}
			cl.Close()
			c.Count("new_connection_probes", 1)
		}
		if i == start {
			c.Sample(map[string]any{"fault": cs, "bystander_connections": nBy})
		}
	}
	time.Sleep(20 * time.Millisecond) // let bystanders complete operations that follow the last fault
	stop.Store(true)
	bwg.Wait()
	// oracle over the recorded intervals
	opsMu.Lock()
	defer opsMu.Unlock()
	firstFault := int64(1 << 62)
	if len(faults) > 0 {
		firstFault = faults[0].Start
	}
	for _, op := range ops {
		if op.OK {
			c.Count("bystander_ops_verified", 1)
			if op.End > firstFault {
				c.Count("bystander_ops_overlapping_or_after_a_fault", 1)
			}
			continue
		}
		// attribute to the latest fault that started before the operation ended
		var culprit *faultEv
		for k := range faults {
			if faults[k].Start < op.End {
				culprit = &faults[k]
			}
		}
		what := "before any fault"
		key := "bystander connection failed"
		if culprit != nil {
			what = culprit.Case.Kind + "/" + culprit.Case.Place
			key = "bystander connection affected by a fault on another connection"
		}
		c.Violate(key, fmt.Sprintf("bystander %d: %s (latest fault: %s)", op.Conn, op.Err, what), map[string]any{"fault": what, "error": op.Err})
	}
	if n := srv.Log.PanicCount(); n > 0 {
		c.Count("panics_caught_and_logged_by_gldap", int64(n))
	}
	c.Count("handler_panics_with_a_value_that_is_neither_string_nor_error", c07ThrownOdd.Swap(0))
	srv.StopWithin(patience)
}

// c07Crash: the process hosting the server died during fault injection.
func c07Crash(s *Super, ph Phase, stderr string, partial *PhaseResult) []Phase {
	var pr struct {
		Index int    `json:"index"`
		Kind  string `json:"kind"`
		Place string `json:"place"`
	}
	pr.Index = -1
	if b, err := os.ReadFile(filepath.Join(s.Scratch, "c07-progress")); err == nil {
		json.Unmarshal(b, &pr)
	}
	_, msg, _ := classifyCrash(stderr)
	if !strings.Contains(stderr, "injected panic") && !strings.Contains(stderr, "github.com/jimlambrt/gldap") {
		s.infra = append(s.infra, fmt.Sprintf("phase %s: child died for a reason unrelated to the server under test: %s\n%s", ph.Name, msg, tail(stderr, 2000)))
		return nil
	}
	s.merged.Counts["server_process_deaths"]++
	s.merged.Violations = append(s.merged.Violations, Violation{
		Key:    "server process died: " + pr.Kind,
		What:   fmt.Sprintf("fault %s/%s took the whole server process down: %s", pr.Kind, pr.Place, msg),
		Detail: map[string]any{"phase": ph.Name, "fault_index": pr.Index, "kind": pr.Kind, "place": pr.Place, "stderr_tail": tail(stderr, 3000)},
	})
	if pr.Index < 0 || s.merged.Counts["server_process_deaths"] >= 100 {
		return nil
	}
	np := ph
	np.Name = fmt.Sprintf("%s@%d", strings.SplitN(ph.Name, "@", 2)[0], pr.Index+1)
	np.Arg = strconv.Itoa(pr.Index + 1)
	return []Phase{np}
}

// c07TLSStalled: on a TLS listener, clients that connect and never (or only partly) send a ClientHello are HELD by the
// harness; while they are held a fresh, conforming TLS connection must be accepted and served (B = 10s).
func c07TLSStalled(c *Ctx) {
	pki := newPKI()
	srv, err := startSrv(SrvCfg{TLS: pki.ServerOnly}, func(m *gldap.Mux) {
		m.Search(func(w *gldap.ResponseWriter, r *gldap.Request) {
			s, _ := r.GetSearchMessage()
			if strings.HasPrefix(s.BaseDN, "tag=") {
				tag, _ := strconv.ParseInt(strings.TrimPrefix(s.BaseDN, "tag="), 10, 64)
				e := r.NewSearchResponseEntry(s.BaseDN)
				e.AddAttribute("p", []string{c07Payload(tag)})
				w.Write(e)
			}
			w.Write(r.NewSearchDoneResponse(gldap.WithResponseCode(0)))
		})
	})
	if err != nil {
		c.Inconclusive("server start: " + err.Error())
		return
	}
	defer srv.StopWithin(patience)
	probe := func(what string) {
		done := make(chan error, 1)
		go func() {
			cl, err := dialRaw(srv.Addr, pki.ClientPlain)
			if err != nil {
				done <- err
				return
			}
			defer cl.Close()
			cl.Send(c07Search(9, "tag=31"))
			m, err := cl.ReadMsg(patience)
			if err == nil {
				if e, perr := sber.AsEntry(m.Op); perr != nil || string(e.Attrs[0].Vals[0]) != c07Payload(31) {
					err = fmt.Errorf("wrong answer")
				}
			}
			done <- err
		}()
		select {
		case err := <-done:
			if err != nil {
				c.Violate("a connection opened while another client stalls its TLS handshake is not served", what+": "+err.Error(), nil)
			} else {
				c.Count("new_connection_probes", 1)
				c.Count("probes_served_while_a_handshake_is_stalled", 1)
			}
		case <-time.After(10 * time.Second):
			c.Violate("a connection opened while another client stalls its TLS handshake is not served", what+": no answer within 10s while the stalled client was held", nil)
		}
	}
	hellos := [][]byte{nil, {0x16}, {0x16, 0x03, 0x01, 0x00, 0xc8, 0x01, 0x00, 0x00, 0xc4, 0x03, 0x03}, {0x16, 0x03, 0x01}}
	for rep := 0; rep < c.N(3, 40); rep++ {
		for hi, h := range hellos {
			var held []net.Conn
			for k := 0; k < 1+rep%3; k++ {
				cn, err := net.Dial("tcp", srv.Addr)
				if err != nil {
					c.Violate("server stopped accepting connections", err.Error(), nil)
					return
				}
				if h != nil {
					cn.Write(h)
				}
				held = append(held, cn)
			}
			time.Sleep(20 * time.Millisecond)
			c.Count("faults_injected", 1)
			c.Count("faults/tls-handshake-stalled-and-held", 1)
			c.Distinct("fault_placements", fmt.Sprintf("tls-handshake-stalled-and-held/hello%d/n%d", hi, len(held)))
			probe(fmt.Sprintf("%d clients holding a stalled handshake (hello prefix %x)", len(held), h))
			for _, cn := range held {
				cn.Close()
			}
		}
	}
	// established ldaps sessions that vanish: reset after a request, reset in the middle of a frame, bare FIN without
	// close_notify, reset with a request still unanswered - on the TLS transport the teardown path differs (the
	// close_notify cannot be delivered any more)
	for rep := 0; rep < c.N(12, 200); rep++ {
		cl, err := dialRaw(srv.Addr, pki.ClientPlain)
		if err != nil {
			c.Violate("server stopped accepting connections", err.Error(), nil)
			return
		}
		cl.Send(c07Search(2, "tag=7"))
		cl.ReadMsg(patience)
		kind := []string{"reset-after-request", "reset-midframe", "fin-without-close-notify", "reset-with-request-unanswered"}[rep%4]
		switch kind {
		case "reset-after-request":
			cl.Reset()
		case "reset-midframe":
			f := c07Search(3, "tag=8")
			cl.Send(f[:len(f)/2])
			cl.Reset()
		case "fin-without-close-notify":
			cl.Drop()
		default:
			cl.Send(c07Search(3, "tag=9"))
			cl.Reset()
		}
		c.Count("faults_injected", 1)
		c.Count("faults/tls-session-vanishes", 1)
		c.Distinct("fault_placements", "tls-session-vanishes/"+kind)
		if rep%4 == 3 {
			time.Sleep(5 * time.Millisecond)
			probe("after ldaps sessions ended by " + kind)
		}
	}
}

// c07Emfile provokes descriptor exhaustion at accept time.
// c07Emfile runs the descriptor-shortage episodes on a server as it comes and once more on a server that bounds its writes.
func c07Emfile(c *Ctx) {
	c07EmfileWith(c, 0)
	c07EmfileWith(c, 30*time.Second)
}

var c07WriteTimeout time.Duration

func c07EmfileWith(c *Ctx, wt time.Duration) {
	c07WriteTimeout = wt
	srv, _, err := c07Server()
	c07WriteTimeout = 0
	if wt != 0 {
		c.Count("descriptor_shortage_episodes_on_a_server_with_a_write_timeout", 1)
	}
	if err != nil {
		c.Inconclusive("server start: " + err.Error())
		return
	}
	probe := func(why string) bool {
		cl, err := dialRaw(srv.Addr, nil)
		if err != nil {
			c.Violate("server stopped accepting connections", why+": "+err.Error(), nil)
			return false
		}
		defer cl.Close()
		cl.Send(c07Search(9, "tag=77"))
		m, err := cl.ReadMsg(patience)
		if err != nil {
			c.Violate("a connection opened after a fault is not served", why+": "+err.Error(), nil)
			return false
		}
		e, err := sber.AsEntry(m.Op)
		if err != nil || string(e.Attrs[0].Vals[0]) != c07Payload(77) {
			c.Violate("a connection opened after a fault is not served", why+": wrong answer", nil)
			return false
		}
		c.Count("new_connection_probes", 1)
		return true
	}
	if !probe("before the fault") {
		return
	}
	// a bystander that stays connected across the episode
	by, err := dialRaw(srv.Addr, nil)
	if err != nil {
		c.Inconclusive("bystander dial: " + err.Error())
		return
	}
	defer by.Close()
	var old syscall.Rlimit
	syscall.Getrlimit(syscall.RLIMIT_NOFILE, &old)
	episodes := c.N(3, 30)
	for ep := 0; ep < episodes; ep++ {
		spare, _ := os.Open("/dev/null") // one descriptor we can give back to flip the parity
		nfd := countFDs()
		lim := syscall.Rlimit{Cur: uint64(nfd + 10 + ep%2), Max: old.Max}
		if err := syscall.Setrlimit(syscall.RLIMIT_NOFILE, &lim); err != nil {
			c.Inconclusive("setrlimit: " + err.Error())
			return
		}
		var held []net.Conn
		for {
			cn, err := net.DialTimeout("tcp", srv.Addr, 2*time.Second)
			if err != nil {
				break
			}
			held = append(held, cn)
			if len(held) > 200 {
				break
			}
		}
		// give one descriptor back and take it with a client socket: now the server's accept4 must fail with EMFILE
		spare.Close()
		if cn, err := net.DialTimeout("tcp", srv.Addr, 2*time.Second); err == nil {
			held = append(held, cn)
		}
		time.Sleep(30 * time.Millisecond)
		runReturned := false
		select {
		case <-srv.runDone:
			runReturned = true
		default:
		}
		for _, cn := range held {
			cn.Close()
		}
		syscall.Setrlimit(syscall.RLIMIT_NOFILE, &old)
		c.Count("faults_injected", 1)
		c.Count("faults/emfile-at-accept", 1)
		c.Count("emfile_accept_failures_provoked", 1)
		c.Count("emfile_connections_held", int64(len(held)))
		c.Distinct("fault_placements", fmt.Sprintf("emfile-at-accept/parity%d", ep%2))
		if runReturned {
			c.Violate("accept error EMFILE ends Run", fmt.Sprintf("descriptor exhaustion at accept time made Run return (%v): the server stopped accepting for good", srv.runErr), map[string]any{"episode": ep, "held": len(held)})
			return
		}
		// wait (patience) until service resumes, then verify
		ok := false
		for dl := time.Now().Add(patience); time.Now().Before(dl); time.Sleep(50 * time.Millisecond) {
			select {
			case <-srv.runDone:
				c.Violate("accept error EMFILE ends Run", fmt.Sprintf("Run returned %v", srv.runErr), map[string]any{"episode": ep})
				return
			default:
			}
			cl, err := dialRaw(srv.Addr, nil)
			if err != nil {
				continue
			}
			cl.Send(c07Search(9, "tag=77"))
			_, err = cl.ReadMsg(3 * time.Second)
			cl.Close()
			if err == nil {
				ok = true
				break
			}
		}
		if !ok {
			c.Violate("server stopped accepting connections", "no new connection was served after descriptors became available again", map[string]any{"episode": ep})
			return
		}
		c.Count("new_connection_probes", 1)
		// the bystander connection still works
		by.Send(c07Search(int64(ep+1), "tag=78"))
		m, err := by.ReadMsg(patience)
		if err == nil {
			_, err = by.ReadMsg(patience)
		}
		if err != nil || m == nil {
			c.Violate("bystander connection affected by a fault on another connection", "after descriptor exhaustion: "+fmt.Sprint(err), nil)
			return
		}
		c.Count("bystander_ops_verified", 1)
		c.Count("bystander_ops_overlapping_or_after_a_fault", 1)
	}
	// hundreds of connections in a row that end abruptly, under a descriptor limit that leaves room for a few dozen
	// only. Each one is over (OnClose reported) before the next begins, so none of them may cost the server anything
	// for good: the probe afterwards - still under the limit - is served.
	endings := []string{"rst", "truncated-frame-then-rst", "fin", "rst-with-a-request-unanswered"}
	room := 40
	lim := syscall.Rlimit{Cur: uint64(countFDs() + room), Max: old.Max}
	if err := syscall.Setrlimit(syscall.RLIMIT_NOFILE, &lim); err != nil {
		c.Inconclusive("setrlimit: " + err.Error())
		return
	}
	ended := 0
	for k := 0; k < c.N(300, 3000); k++ {
		before := srv.closeCnt.Load()
		cn, err := net.DialTimeout("tcp", srv.Addr, 2*time.Second)
		if err != nil {
			break
		}
		end := endings[k%len(endings)]
		switch end {
		case "truncated-frame-then-rst":
			cn.Write(c07Search(5, "tag=5")[:9])
		case "rst-with-a-request-unanswered":
			cn.Write(c07Search(5, "slow=20"))
		}
		if end != "fin" {
			cn.(*net.TCPConn).SetLinger(0)
		}
		cn.Close()
		if !srv.WaitCloses(before+1, 3*time.Second) {
			break
		}
		ended++
		c.Distinct("fault_placements", "abrupt-endings-under-a-descriptor-limit/"+end)
	}
	c.Count("faults_injected", int64(ended))
	c.Count("abruptly_ended_connections_under_a_tight_descriptor_limit", int64(ended))
	ok := probe(fmt.Sprintf("after %d connections that ended abruptly (reset, truncated frame + reset, FIN, reset with a request unanswered), each one over before the next began, under a descriptor limit with room for %d", ended, room))
	syscall.Setrlimit(syscall.RLIMIT_NOFILE, &old)
	if !ok {
		return
	}
	by.Close()
	srv.StopWithin(patience)
}

// emfileEpisode fills the descriptor table so that the server's next accept4 fails with EMFILE, holds that
// state briefly, then releases everything and restores the limit. Returns how many client sockets were held.
// hold: how long the shortage lasts (default 40ms).
func emfileEpisode(addr string, parity int, hold ...time.Duration) (int, error) {
	var old syscall.Rlimit
	if err := syscall.Getrlimit(syscall.RLIMIT_NOFILE, &old); err != nil {
		return 0, err
	}
	spare, _ := os.Open("/dev/null")
	lim := syscall.Rlimit{Cur: uint64(countFDs() + 10 + parity%2), Max: old.Max}
	if err := syscall.Setrlimit(syscall.RLIMIT_NOFILE, &lim); err != nil {
		return 0, err
	}
	var held []net.Conn
	for len(held) < 200 {
		cn, err := net.DialTimeout("tcp", addr, 2*time.Second)
		if err != nil {
			break
		}
		held = append(held, cn)
	}
	spare.Close()
	if cn, err := net.DialTimeout("tcp", addr, 2*time.Second); err == nil {
		held = append(held, cn)
	}
	d := 40 * time.Millisecond
	if len(hold) > 0 {
		d = hold[0]
	}
	time.Sleep(d)
	for _, cn := range held {
		cn.Close()
	}
	syscall.Setrlimit(syscall.RLIMIT_NOFILE, &old)
	return len(held), nil
}

func countFDs() int {
	ents, err := os.ReadDir("/proc/self/fd")
	if err != nil {
		return 64
	}
	return len(ents)
}
