//go:build verif

package main

import (
	"bytes"
	"fmt"
	"os"
	"path/filepath"
	"testing"

	"github.com/jimlambrt/gldap"
)

// FuzzReadRequest is the coverage-guided part of C02 (thorough tier). A panic
// does not fail the fuzz run (the first crasher would mask the rest): it is
// written to $VERIF_FUZZ_OUT, keyed by panic site, and the C02 driver turns
// those files into violations.
func FuzzReadRequest(f *testing.F) {
	for _, cn := range canonicals() {
		f.Add(cn.Tree.Encode())
	}
	out := os.Getenv("VERIF_FUZZ_OUT")
	f.Fuzz(func(t *testing.T, in []byte) {
		if !c02Feedable(in) {
			t.Skip()
		}
		msg, st := catch(func() { _, _ = gldap.VerifReadRequest(bytes.NewReader(in)) })
		if msg == "" {
			return
		}
		key := "decode panic in " + innermostGldap(st) + ": " + normPanic(msg)
		if out == "" {
			t.Fatalf("%s\ninput %x\n%s", key, in, st)
		}
		name := filepath.Join(out, fmt.Sprintf("%016x", hash64(key)))
		if _, err := os.Stat(name); err != nil {
			os.WriteFile(name, []byte(key+"\n"+msg+"\n"+hx(in)+"\n"+st), 0o644)
		}
	})
}
