package main

import (
	"bytes"
	"fmt"
	"strings"
	"sync"

	ber "github.com/go-asn1-ber/asn1-ber"
	"github.com/go-ldap/ldap/v3"
	"github.com/jimlambrt/gldap"

	"verif/internal/sber"
)

// ---------------------------------------------------------------- control specs

// CtlSpec is the client-side description of one control.
type CtlSpec struct {
	Kind     string `json:"kind"` // paging behera vchu-must vchu-warn dsait ms-notif ms-del ms-ttl generic
	OID      string `json:"oid"`
	Crit     bool   `json:"crit"`
	HasCrit  bool   `json:"has_crit"`
	HasValue bool   `json:"has_value"`
	Size     int64  `json:"size,omitempty"`
	Cookie   []byte `json:"cookie,omitempty"`
	Expire   int64  `json:"expire"`
	Grace    int64  `json:"grace"`
	Err      int64  `json:"err"`
	Warn     int64  `json:"warn"`
	Value    []byte `json:"value,omitempty"`
}

var typedOIDs = map[string]string{
	"paging": sber.OIDPaging, "behera": sber.OIDBehera, "vchu-must": sber.OIDVChuMustChange, "vchu-warn": sber.OIDVChuWarning,
	"dsait": sber.OIDManageDsaIT, "ms-notif": sber.OIDMSNotification, "ms-del": sber.OIDMSShowDeleted, "ms-ttl": sber.OIDMSServerLinkTTL,
}

var ctlKinds = []string{"paging", "behera", "vchu-must", "vchu-warn", "dsait", "ms-notif", "ms-del", "ms-ttl", "generic"}

func isTypedOID(oid string) bool {
	for _, o := range typedOIDs {
		if o == oid {
			return true
		}
	}
	return false
}

// SBER renders the control with the independent encoder.
func (c CtlSpec) SBER() sber.Control {
	out := sber.Control{OID: c.OID, Crit: c.Crit, HasCrit: c.HasCrit || c.Crit, HasValue: c.HasValue}
	if !c.HasValue {
		return out
	}
	switch c.Kind {
	case "paging":
		out.Value = sber.PagingValue(c.Size, c.Cookie)
	case "behera":
		out.Value = sber.BeheraValue(c.Expire, c.Grace, c.Err)
	case "vchu-warn":
		out.Value = []byte(fmt.Sprint(c.Warn))
	default:
		out.Value = c.Value
	}
	return out
}

// GoLDAP renders the control through go-ldap's own control types, or nil when
// go-ldap has no encoder producing this exact shape.
func (c CtlSpec) GoLDAP() ldap.Control {
	switch c.Kind {
	case "paging":
		if c.HasValue && !c.HasCrit && !c.Crit && c.Size >= 0 && c.Size <= 0xffffffff {
			p := ldap.NewControlPaging(uint32(c.Size))
			p.SetCookie(c.Cookie)
			return p
		}
	case "dsait":
		if !c.HasValue && (c.Crit || !c.HasCrit) {
			return ldap.NewControlManageDsaIT(c.Crit)
		}
	case "ms-notif":
		if !c.HasValue && !c.HasCrit {
			return ldap.NewControlMicrosoftNotification()
		}
	case "ms-del":
		if !c.HasValue && !c.HasCrit {
			return ldap.NewControlMicrosoftShowDeleted()
		}
	case "ms-ttl":
		if !c.HasValue && !c.HasCrit {
			return ldap.NewControlMicrosoftServerLinkTTL()
		}
	case "behera":
		if !c.HasValue && !c.HasCrit {
			return ldap.NewControlBeheraPasswordPolicy()
		}
	case "generic":
		// go-ldap omits an empty value and a false criticality
		if (c.Crit || !c.HasCrit) && (!c.HasValue || len(c.Value) > 0) {
			return ldap.NewControlString(c.OID, c.Crit, string(c.Value))
		}
	}
	return nil
}

func genCtl(r *Rand, kind string) CtlSpec {
	c := CtlSpec{Kind: kind, OID: typedOIDs[kind], Expire: -1, Grace: -1, Err: -1, Warn: -1}
	switch r.Intn(3) {
	case 0:
	case 1:
		c.HasCrit, c.Crit = true, true
	case 2:
		c.HasCrit, c.Crit = true, false
	}
	ints := []int64{0, 1, 127, 128, 255, 256, 32767, 32768, 65535, 65536, 1<<31 - 1}
	switch kind {
	case "paging":
		c.HasValue = !r.Chance(10)
		if c.HasValue {
			c.Size = pick(r, append(ints, 1<<31, 1<<32-1))
			if r.Chance(30) {
				c.Size = int64(r.U64() % (1 << 32))
			}
			c.Cookie = advBytes(r)
		}
	case "behera":
		c.HasValue = r.Chance(70)
		if c.HasValue {
			switch r.Intn(5) {
			case 0:
				c.Expire = pick(r, ints)
			case 1:
				c.Grace = pick(r, ints)
			case 2:
				c.Err = int64(r.Intn(9))
			case 3:
				c.Expire = int64(r.Intn(1 << 31))
				c.Err = int64(r.Intn(9))
			case 4:
				c.Grace = int64(r.Intn(1 << 31))
				c.Err = int64(r.Intn(9))
			}
		}
	case "vchu-warn":
		c.HasValue = !r.Chance(10)
		if c.HasValue {
			c.Warn = pick(r, append(ints, 1<<62, -1, -5, 1<<63-1, -1<<63))
			if r.Chance(30) {
				c.Warn = int64(r.U64())
			}
		}
	case "generic":
		c.OID = genOID(r)
		c.HasValue = r.Chance(60)
		if c.HasValue {
			c.Value = advBytes(r)
		}
	}
	return c
}

func genOID(r *Rand) string {
	for {
		var s string
		switch r.Intn(4) {
		case 0:
			s = pick(r, []string{sber.OIDWhoAmI, "1.2.3", "2.16.840.1.113730.3.4.18", "1.3.6.1.1.12", "1.2.840.113556.1.4.473", "1.2.840.113556.1.4.3190"})
		case 1:
			n := 2 + r.Intn(8)
			parts := make([]string, n)
			for i := range parts {
				parts[i] = fmt.Sprint(r.Intn(100000))
			}
			s = strings.Join(parts, ".")
		case 2:
			s = string(advBytes(r))
		default:
			// near misses of the typed OIDs
			s = pick(r, []string{sber.OIDPaging + "0", sber.OIDPaging[:len(sber.OIDPaging)-1], " " + sber.OIDBehera, sber.OIDManageDsaIT + ".", strings.ToUpper(sber.OIDVChuWarning) + "x"})
		}
		if s != "" && !isTypedOID(s) {
			return s
		}
	}
}

func genCtls(r *Rand) []CtlSpec {
	if r.Chance(35) {
		return nil
	}
	n := 1 + r.Intn(4)
	if r.Chance(10) {
		n = 6 + r.Intn(4)
	}
	out := make([]CtlSpec, 0, n)
	for i := 0; i < n; i++ {
		out = append(out, genCtl(r, pick(r, ctlKinds)))
	}
	return out
}

// advBytes draws from the adversarial byte-string pool.
func advBytes(r *Rand) []byte {
	switch r.Intn(14) {
	case 0:
		return []byte{}
	case 1:
		return []byte{0}
	case 2:
		return []byte{0xff, 0xfe, 0x80}
	case 3:
		return []byte("cn=alice,ou=people,dc=example,dc=org")
	case 4:
		return bytes.Repeat([]byte{'a'}, 127)
	case 5:
		return bytes.Repeat([]byte{'b'}, 128)
	case 6:
		return r.Bytes(255 + r.Intn(3))
	case 7:
		if r.Chance(8) {
			return r.Bytes(65535 + r.Intn(3))
		}
		return r.Bytes(300 + r.Intn(2000))
	case 8:
		return []byte("\x04\x01a") // looks like BER
	case 9:
		return []byte("(cn=*)\\2a")
	case 10:
		return []byte(" leading and trailing ")
	default:
		return r.Bytes(1 + r.Intn(24))
	}
}

var msgIDPool = []int64{0, 1, 2, 127, 128, 255, 256, 32767, 32768, 65535, 65536, 1<<24 - 1, 1 << 24, 1<<31 - 2, 1<<31 - 1}

// ---------------------------------------------------------------- request specs

// ReqSpec is the client-side description of one request.
type ReqSpec struct {
	Kind      string `json:"kind"` // bind search modify add delete extended unbind
	ID        int64  `json:"id"`
	Version   int64  `json:"version,omitempty"`
	Name      []byte `json:"name,omitempty"` // bind name / extended name
	Password  []byte `json:"password,omitempty"`
	DN        []byte `json:"dn,omitempty"` // search base / modify / add / delete DN
	Scope     int64  `json:"scope,omitempty"`
	Deref     int64  `json:"deref,omitempty"`
	Size      int64  `json:"size,omitempty"`
	Time      int64  `json:"time,omitempty"`
	Types     bool   `json:"types,omitempty"`
	Filter    string `json:"filter,omitempty"` // string form accepted by go-ldap
	filterBER []byte
	Attrs     [][]byte      `json:"attrs,omitempty"`
	AddAttrs  []sber.Attr   `json:"add_attrs,omitempty"`
	Changes   []sber.Change `json:"changes,omitempty"`
	ExtValue  []byte        `json:"ext_value,omitempty"`
	HasExtV   bool          `json:"has_ext_value,omitempty"`
	Controls  []CtlSpec     `json:"controls,omitempty"`
	HasCtls   bool          `json:"has_controls,omitempty"` // emit the [0] element even when empty
}

// Op renders the protocolOp.
func (q *ReqSpec) Op() *sber.Node {
	switch q.Kind {
	case "bind":
		return sber.BindRequest(q.Version, q.Name, q.Password)
	case "search":
		f, err := sber.ParseAll(q.filterBER)
		if err != nil {
			panic("harness: filter bytes from go-ldap do not parse strictly: " + err.Error())
		}
		return sber.Search{Base: q.DN, Scope: q.Scope, Deref: q.Deref, SizeLimit: q.Size, TimeLimit: q.Time, TypesOnly: q.Types, Filter: f, Attrs: q.Attrs}.Node()
	case "modify":
		return sber.ModifyRequest(q.DN, q.Changes)
	case "add":
		return sber.AddRequest(q.DN, q.AddAttrs)
	case "delete":
		return sber.DelRequest(q.DN)
	case "extended":
		return sber.ExtendedRequest(q.Name, q.ExtValue, q.HasExtV)
	case "unbind":
		return sber.UnbindRequest()
	}
	panic("unknown kind " + q.Kind)
}

// Tree renders the whole LDAPMessage as a node tree.
func (q *ReqSpec) Tree() *sber.Node {
	var cs []sber.Control
	if q.HasCtls || len(q.Controls) > 0 {
		cs = []sber.Control{}
		for _, c := range q.Controls {
			cs = append(cs, c.SBER())
		}
	}
	return sber.Message(q.ID, q.Op(), cs)
}

func (q *ReqSpec) Encode() []byte { return q.Tree().Encode() }

// Sig is the shape signature used for distinct counting.
func (q *ReqSpec) Sig() string {
	var b strings.Builder
	fmt.Fprintf(&b, "%s/id%s/", q.Kind, idClass(q.ID))
	switch q.Kind {
	case "bind":
		fmt.Fprintf(&b, "n%s/p%s", lenClass(len(q.Name)), lenClass(len(q.Password)))
	case "search":
		fmt.Fprintf(&b, "b%s/s%d/d%d/z%s/t%s/%v/f%s/a%d", lenClass(len(q.DN)), q.Scope, q.Deref, idClass(q.Size), idClass(q.Time), q.Types, lenClass(len(q.Filter)), len(q.Attrs))
	case "modify":
		fmt.Fprintf(&b, "d%s/c%d", lenClass(len(q.DN)), len(q.Changes))
		for _, ch := range q.Changes {
			fmt.Fprintf(&b, "/%d:%d", ch.Op, len(ch.Attr.Vals))
		}
	case "add":
		fmt.Fprintf(&b, "d%s/a%d", lenClass(len(q.DN)), len(q.AddAttrs))
		for _, a := range q.AddAttrs {
			fmt.Fprintf(&b, "/%d", len(a.Vals))
		}
	case "delete":
		fmt.Fprintf(&b, "d%s", lenClass(len(q.DN)))
	case "extended":
		fmt.Fprintf(&b, "n%s/%v", lenClass(len(q.Name)), q.HasExtV)
	}
	b.WriteString("/ctl")
	for _, c := range q.Controls {
		fmt.Fprintf(&b, ":%s%v%v", c.Kind, c.HasCrit, c.HasValue)
	}
	return b.String()
}

var reqKinds = []string{"bind", "search", "modify", "add", "delete", "extended"}

func genID(r *Rand) int64 {
	if r.Chance(50) {
		return pick(r, msgIDPool)
	}
	return int64(r.U64() % (1 << 31))
}

func genInt31(r *Rand) int64 {
	if r.Chance(60) {
		return pick(r, []int64{0, 1, 127, 128, 255, 256, 32767, 32768, 65535, 1<<31 - 1})
	}
	return int64(r.U64() % (1 << 31))
}

func genVals(r *Rand, min int) [][]byte {
	n := min + r.Intn(4)
	if r.Chance(5) {
		n = 20 + r.Intn(20)
	} else if r.Chance(5) {
		n = pick(r, []int{7, 8, 9, 10, 15, 16, 17, 31, 32, 33})
	}
	out := make([][]byte, 0, n)
	for i := 0; i < n; i++ {
		out = append(out, genElem(r, out))
	}
	return out
}

// genCount: a list length - mostly small, now and then around the powers of two and well beyond.
func genCount(r *Rand) int {
	if r.Chance(6) {
		return pick(r, []int{7, 8, 9, 10, 15, 16, 17, 31, 32, 33, 64, 65, 100})
	}
	return r.Intn(5)
}

// genElem: a fresh element, or - now and then - one the list already has (verbatim or with its ASCII case flipped).
func genElem(r *Rand, have [][]byte) []byte {
	if len(have) > 0 && r.Chance(20) {
		prev := append([]byte{}, have[r.Intn(len(have))]...)
		if r.Bool() {
			for i, b := range prev {
				switch {
				case b >= 'a' && b <= 'z':
					prev[i] = b - 32
				case b >= 'A' && b <= 'Z':
					prev[i] = b + 32
				}
			}
		}
		return prev
	}
	return advBytes(r)
}

// genReq draws one well-formed request of the given kind.
func genReq(r *Rand, kind string) *ReqSpec {
	q := &ReqSpec{Kind: kind, ID: genID(r), Controls: genCtls(r)}
	if len(q.Controls) == 0 && r.Chance(10) {
		q.HasCtls = true // explicit empty controls element
	}
	switch kind {
	case "bind":
		q.Version = 3
		q.Name = advBytes(r)
		q.Password = advBytes(r)
	case "search":
		q.DN = advBytes(r)
		q.Scope = int64(r.Intn(3))
		q.Deref = int64(r.Intn(4))
		q.Size = genInt31(r)
		q.Time = genInt31(r)
		q.Types = r.Bool()
		q.Filter, q.filterBER = genFilter(r)
		for i, n := 0, genCount(r); i < n; i++ {
			if r.Chance(8) {
				q.Attrs = append(q.Attrs, []byte(pick(r, []string{"*", "+", "1.1", "cn", "CN", "objectClass", "objectclass"})))
				continue
			}
			q.Attrs = append(q.Attrs, genElem(r, q.Attrs))
		}
		if q.Attrs == nil {
			q.Attrs = [][]byte{}
		}
	case "modify":
		q.DN = advBytes(r)
		n := genCount(r)
		for i := 0; i < n; i++ {
			typ := advBytes(r)
			if i > 0 && r.Chance(20) {
				typ = append([]byte{}, q.Changes[r.Intn(i)].Attr.Type...) // the same attribute changed again
			}
			q.Changes = append(q.Changes, sber.Change{Op: int64(r.Intn(4)), Attr: sber.Attr{Type: typ, Vals: genVals(r, 0)}})
		}
	case "add":
		q.DN = advBytes(r)
		n := genCount(r)
		for i := 0; i < n; i++ {
			typ := advBytes(r)
			if i > 0 && r.Chance(20) {
				typ = append([]byte{}, q.AddAttrs[r.Intn(i)].Type...) // the same attribute type once more
			}
			q.AddAttrs = append(q.AddAttrs, sber.Attr{Type: typ, Vals: genVals(r, 1)})
		}
	case "delete":
		q.DN = advBytes(r)
	case "extended":
		if r.Chance(60) {
			q.Name = []byte(pick(r, []string{sber.OIDWhoAmI, sber.OIDPasswordModify, sber.OIDStartTLS, "1.3.6.1.1.8", "1.2.3.4"}))
		} else {
			q.Name = advBytes(r)
		}
		q.HasExtV = r.Bool()
		if q.HasExtV {
			q.ExtValue = advBytes(r)
		}
		// the controls element of an extended request is the third child;
		// gldap does not expose extended controls, they are sent but not asserted
	case "unbind":
		q.Controls = nil
		q.HasCtls = false
	}
	return q
}

// ---------------------------------------------------------------- filters

type fnode struct {
	kind string
	kids []*fnode
	attr string
	val  string
}

func genFilterAST(r *Rand, depth int) *fnode {
	attrs := []string{"cn", "objectClass", "uid", "member", "sAMAccountName", "a", "userPrincipalName", "o;lang-en"}
	vals := []string{"x", "alice", "bob smith", "dc=example,dc=org", "\\2a", "\\28paren\\29", "\\5c", "\\00", "\\c3\\a9", "123", "A"}
	k := r.Intn(10)
	if depth >= 3 && k < 3 {
		k = 3 + r.Intn(7)
	}
	switch k {
	case 0, 1:
		kind := "&"
		if k == 1 {
			kind = "|"
		}
		n := &fnode{kind: kind}
		for i, m := 0, 1+r.Intn(3); i < m; i++ {
			n.kids = append(n.kids, genFilterAST(r, depth+1))
		}
		return n
	case 2:
		return &fnode{kind: "!", kids: []*fnode{genFilterAST(r, depth+1)}}
	case 3, 4:
		return &fnode{kind: "=", attr: pick(r, attrs), val: pick(r, vals)}
	case 5:
		parts := []string{}
		for i, m := 0, 1+r.Intn(3); i < m; i++ {
			parts = append(parts, pick(r, vals))
		}
		v := strings.Join(parts, "*")
		switch r.Intn(3) {
		case 0:
			v = "*" + v
		case 1:
			v = v + "*"
		default:
			v = "*" + v + "*"
		}
		return &fnode{kind: "=", attr: pick(r, attrs), val: v}
	case 6:
		return &fnode{kind: ">=", attr: pick(r, attrs), val: pick(r, vals)}
	case 7:
		return &fnode{kind: "<=", attr: pick(r, attrs), val: pick(r, vals)}
	case 8:
		return &fnode{kind: "=", attr: pick(r, attrs), val: "*"}
	default:
		if r.Bool() {
			return &fnode{kind: "~=", attr: pick(r, attrs), val: pick(r, vals)}
		}
		return &fnode{kind: ":=", attr: pick(r, []string{"cn:caseExactMatch", "cn:dn:2.5.13.5", ":2.5.13.5", "cn:dn", "cn"}), val: pick(r, vals)}
	}
}

func (f *fnode) String() string {
	switch f.kind {
	case "&", "|":
		s := "(" + f.kind
		for _, k := range f.kids {
			s += k.String()
		}
		return s + ")"
	case "!":
		return "(!" + f.kids[0].String() + ")"
	default:
		return "(" + f.attr + f.kind + f.val + ")"
	}
}

var filterStats struct {
	sync.Mutex
	generated, rejected, unstable int64
}

// genFilter returns a filter string and its BER bytes such that go-ldap
// compiles it and the compile/decompile pair round-trips (the property's own
// precondition); candidates failing that are counted and skipped.
// genBigFilter: filters with many composite nodes - wide (an OR over dozens of ANDs), deep (a chain of NOTs and
// single-child ANDs) and long flat lists.
func genBigFilter(r *Rand) *fnode {
	leaf := func(i int) *fnode { return &fnode{kind: "=", attr: "cn", val: fmt.Sprintf("v%d", i)} }
	switch r.Intn(3) {
	case 0:
		n := &fnode{kind: "|"}
		for i, m := 0, pick(r, []int{40, 63, 64, 65, 100, 200}); i < m; i++ {
			n.kids = append(n.kids, &fnode{kind: "&", kids: []*fnode{leaf(i), leaf(i + 1000)}})
		}
		return n
	case 1:
		n := leaf(0)
		for i, m := 0, pick(r, []int{20, 40, 64, 65, 90}); i < m; i++ {
			if i%2 == 0 {
				n = &fnode{kind: "!", kids: []*fnode{n}}
			} else {
				n = &fnode{kind: "&", kids: []*fnode{n}}
			}
		}
		return n
	default:
		n := &fnode{kind: "&"}
		for i, m := 0, pick(r, []int{64, 65, 300, 1000}); i < m; i++ {
			n.kids = append(n.kids, leaf(i))
		}
		return n
	}
}

func genFilter(r *Rand) (string, []byte) {
	for {
		s := genFilterAST(r, 0).String()
		if r.Chance(2) {
			s = genBigFilter(r).String()
		}
		filterStats.Lock()
		filterStats.generated++
		filterStats.Unlock()
		p1, err := ldap.CompileFilter(s)
		if err != nil {
			filterStats.Lock()
			filterStats.rejected++
			filterStats.Unlock()
			continue
		}
		// the round trip goes over the wire form (bytes -> packet), which is
		// what a server sees; go-ldap's decompiler cannot decompile e.g. a
		// wire-form extensible match with dnAttributes, such filters do not
		// round-trip and are outside the property's quantifier
		wire, derr := ber.DecodePacketErr(p1.Bytes())
		if derr != nil {
			continue
		}
		s1, err := ldap.DecompileFilter(wire)
		if err != nil {
			filterStats.Lock()
			filterStats.unstable++
			filterStats.Unlock()
			continue
		}
		p2, err := ldap.CompileFilter(s1)
		if err != nil || !bytes.Equal(p2.Bytes(), p1.Bytes()) {
			filterStats.Lock()
			filterStats.unstable++
			filterStats.Unlock()
			continue
		}
		if _, err := sber.ParseAll(p1.Bytes()); err != nil {
			continue
		}
		return s, p1.Bytes()
	}
}

// ---------------------------------------------------------------- observation

// ObsCtl is what a handler can learn about a decoded control via the public API.
type ObsCtl struct {
	GoType string `json:"go_type"`
	OID    string `json:"oid"`
	Crit   bool   `json:"crit"`
	Size   int64  `json:"size"`
	Cookie []byte `json:"cookie,omitempty"`
	Expire int64  `json:"expire"`
	Grace  int64  `json:"grace"`
	Err    int64  `json:"err"`
	Warn   int64  `json:"warn"`
	Value  []byte `json:"value,omitempty"`
}

// Obs is what a handler observed for one request, through the public API only.
type Obs struct {
	Seq      int64         `json:"seq"`
	Route    string        `json:"route"`
	Kind     string        `json:"kind"`  // by which Get*Message succeeded
	Kinds    int           `json:"kinds"` // how many Get*Message calls succeeded
	ID       int64         `json:"id"`
	ReqID    int           `json:"req_id"`
	ConnID   int           `json:"conn_id"`
	Name     []byte        `json:"name,omitempty"`
	Password []byte        `json:"password,omitempty"`
	Auth     string        `json:"auth,omitempty"`
	DN       []byte        `json:"dn,omitempty"`
	Scope    int64         `json:"scope"`
	Deref    int64         `json:"deref"`
	Size     int64         `json:"size"`
	Time     int64         `json:"time"`
	Types    bool          `json:"types"`
	Filter   string        `json:"filter,omitempty"`
	Attrs    [][]byte      `json:"attrs,omitempty"`
	AddAttrs []sber.Attr   `json:"add_attrs,omitempty"`
	Changes  []sber.Change `json:"changes,omitempty"`
	Controls []ObsCtl      `json:"controls,omitempty"`
}

func observeControls(cs []gldap.Control) []ObsCtl {
	var out []ObsCtl
	for _, c := range cs {
		o := ObsCtl{Expire: -1, Grace: -1, Err: -1, Warn: -1}
		if c == nil {
			o.GoType = "nil"
			out = append(out, o)
			continue
		}
		o.OID = c.GetControlType()
		switch v := c.(type) {
		case *gldap.ControlPaging:
			o.GoType, o.Size, o.Cookie = "paging", int64(v.PagingSize), v.Cookie
		case *gldap.ControlBeheraPasswordPolicy:
			o.GoType = "behera"
			o.Expire, o.Grace = int64(v.Expire()), int64(v.Grace())
			e, _ := v.ErrorCode()
			o.Err = int64(e)
		case *gldap.ControlVChuPasswordMustChange:
			o.GoType = "vchu-must"
		case *gldap.ControlVChuPasswordWarning:
			o.GoType, o.Warn = "vchu-warn", v.Expire
		case *gldap.ControlManageDsaIT:
			o.GoType, o.Crit = "dsait", v.Criticality
		case *gldap.ControlMicrosoftNotification:
			o.GoType = "ms-notif"
		case *gldap.ControlMicrosoftShowDeleted:
			o.GoType = "ms-del"
		case *gldap.ControlMicrosoftServerLinkTTL:
			o.GoType = "ms-ttl"
		case *gldap.ControlString:
			o.GoType, o.Crit, o.Value = "generic", v.Criticality, []byte(v.ControlValue)
		default:
			o.GoType = fmt.Sprintf("%T", c)
		}
		out = append(out, o)
	}
	return out
}

func strsToBytes(ss []string) [][]byte {
	out := make([][]byte, 0, len(ss))
	for _, s := range ss {
		out = append(out, []byte(s))
	}
	return out
}

// observe extracts everything the public API exposes about r.
func observe(route string, r *gldap.Request) *Obs {
	o := &Obs{Seq: nextSeq(), Route: route, ReqID: r.ID, ConnID: r.ConnectionID()}
	if m, err := r.GetSimpleBindMessage(); err == nil {
		o.Kind, o.Kinds = "bind", o.Kinds+1
		o.ID, o.Name, o.Password, o.Auth = m.GetID(), []byte(m.UserName), []byte(m.Password), string(m.AuthChoice)
		o.Controls = observeControls(m.Controls)
	}
	if m, err := r.GetSearchMessage(); err == nil {
		o.Kind, o.Kinds = "search", o.Kinds+1
		o.ID, o.DN, o.Scope, o.Deref, o.Size, o.Time, o.Types, o.Filter = m.GetID(), []byte(m.BaseDN), int64(m.Scope), int64(m.DerefAliases), m.SizeLimit, m.TimeLimit, m.TypesOnly, m.Filter
		o.Attrs = strsToBytes(m.Attributes)
		o.Controls = observeControls(m.Controls)
	}
	if m, err := r.GetModifyMessage(); err == nil {
		o.Kind, o.Kinds = "modify", o.Kinds+1
		o.ID, o.DN = m.GetID(), []byte(m.DN)
		for _, ch := range m.Changes {
			o.Changes = append(o.Changes, sber.Change{Op: ch.Operation, Attr: sber.Attr{Type: []byte(ch.Modification.Type), Vals: strsToBytes(ch.Modification.Vals)}})
		}
		o.Controls = observeControls(m.Controls)
	}
	if m, err := r.GetAddMessage(); err == nil {
		o.Kind, o.Kinds = "add", o.Kinds+1
		o.ID, o.DN = m.GetID(), []byte(m.DN)
		for _, a := range m.Attributes {
			o.AddAttrs = append(o.AddAttrs, sber.Attr{Type: []byte(a.Type), Vals: strsToBytes(a.Vals)})
		}
		o.Controls = observeControls(m.Controls)
	}
	if m, err := r.GetDeleteMessage(); err == nil {
		o.Kind, o.Kinds = "delete", o.Kinds+1
		o.ID, o.DN = m.GetID(), []byte(m.DN)
		o.Controls = observeControls(m.Controls)
	}
	if m, err := r.GetUnbindMessage(); err == nil {
		o.Kind, o.Kinds = "unbind", o.Kinds+1
		o.ID = m.GetID()
	}
	if o.Kinds == 0 {
		// extended is the only remaining message type; there is no exported getter
		o.Kind = "extended"
		// ExtendedOperationMessage is reachable only through a response's
		// message ID: recover ID and name via the general response below
	}
	return o
}

// ---------------------------------------------------------------- comparison

func eqBytesList(a, b [][]byte) bool {
	if len(a) != len(b) {
		return false
	}
	for i := range a {
		if !bytes.Equal(a[i], b[i]) {
			return false
		}
	}
	return true
}

// modifyValsMatch implements "one element per client value, plain or in the
// BER-wrapped form that ConvertString unwraps".
func modifyValsMatch(sent, got [][]byte) bool {
	if len(sent) != len(got) {
		return false
	}
	for i := range sent {
		if bytes.Equal(sent[i], got[i]) {
			continue
		}
		var conv []string
		var err error
		if m, _ := catch(func() { conv, err = gldap.ConvertString(string(got[i])) }); m != "" {
			return false
		}
		if err != nil || len(conv) != 1 || conv[0] != string(sent[i]) {
			return false
		}
	}
	return true
}

// compareControls checks decoded controls against the client's specs.
func compareControls(spec []CtlSpec, got []ObsCtl) []string {
	var d []string
	if len(spec) != len(got) {
		return []string{fmt.Sprintf("controls: sent %d, handler saw %d", len(spec), len(got))}
	}
	for i, s := range spec {
		g := got[i]
		if g.GoType != s.Kind {
			d = append(d, fmt.Sprintf("control %d: sent kind %s (oid %q), handler saw %s (oid %q)", i, s.Kind, s.OID, g.GoType, g.OID))
			continue
		}
		if g.OID != s.OID {
			d = append(d, fmt.Sprintf("control %d: oid %q != %q", i, g.OID, s.OID))
		}
		switch s.Kind {
		case "paging":
			wantSize := int64(0)
			var wantCookie []byte
			if s.HasValue {
				wantSize, wantCookie = s.Size, s.Cookie
			}
			if g.Size != wantSize || !bytes.Equal(g.Cookie, wantCookie) {
				d = append(d, fmt.Sprintf("control %d paging: size %d cookie %x != size %d cookie %x", i, g.Size, trunc(g.Cookie, 16), wantSize, trunc(wantCookie, 16)))
			}
		case "behera":
			if g.Expire != s.Expire || g.Grace != s.Grace || g.Err != s.Err {
				d = append(d, fmt.Sprintf("control %d behera: expire/grace/err %d/%d/%d != %d/%d/%d", i, g.Expire, g.Grace, g.Err, s.Expire, s.Grace, s.Err))
			}
		case "vchu-warn":
			want := int64(-1)
			if s.HasValue {
				want = s.Warn
			}
			if g.Warn != want {
				d = append(d, fmt.Sprintf("control %d vchu-warn: %d != %d", i, g.Warn, want))
			}
		case "dsait":
			if g.Crit != s.Crit {
				d = append(d, fmt.Sprintf("control %d dsait: criticality %v != %v", i, g.Crit, s.Crit))
			}
		case "generic":
			if g.Crit != s.Crit || !bytes.Equal(g.Value, s.Value) {
				d = append(d, fmt.Sprintf("control %d generic: crit %v value %x != crit %v value %x", i, g.Crit, trunc(g.Value, 16), s.Crit, trunc(s.Value, 16)))
			}
		}
	}
	return d
}

// compareReq returns the differences between what was sent and what the
// handler observed (empty = equal).
func compareReq(q *ReqSpec, o *Obs) []string {
	var d []string
	if o.Kinds > 1 {
		d = append(d, fmt.Sprintf("request satisfies %d message getters", o.Kinds))
	}
	if o.Kind != q.Kind {
		return append(d, fmt.Sprintf("kind: sent %s, handler saw %s", q.Kind, o.Kind))
	}
	if q.Kind != "extended" && o.ID != q.ID {
		d = append(d, fmt.Sprintf("message id %d != %d", o.ID, q.ID))
	}
	switch q.Kind {
	case "bind":
		if !bytes.Equal(o.Name, q.Name) {
			d = append(d, fmt.Sprintf("bind name %x != %x", trunc(o.Name, 24), trunc(q.Name, 24)))
		}
		if !bytes.Equal(o.Password, q.Password) {
			d = append(d, fmt.Sprintf("password %x != %x", trunc(o.Password, 24), trunc(q.Password, 24)))
		}
		if o.Auth != "simple" {
			d = append(d, "auth choice "+o.Auth)
		}
	case "search":
		if !bytes.Equal(o.DN, q.DN) {
			d = append(d, fmt.Sprintf("base dn %x != %x", trunc(o.DN, 24), trunc(q.DN, 24)))
		}
		if o.Scope != q.Scope || o.Deref != q.Deref {
			d = append(d, fmt.Sprintf("scope/deref %d/%d != %d/%d", o.Scope, o.Deref, q.Scope, q.Deref))
		}
		if o.Size != q.Size || o.Time != q.Time {
			d = append(d, fmt.Sprintf("size/time limit %d/%d != %d/%d", o.Size, o.Time, q.Size, q.Time))
		}
		if o.Types != q.Types {
			d = append(d, fmt.Sprintf("typesOnly %v != %v", o.Types, q.Types))
		}
		if p, err := ldap.CompileFilter(o.Filter); err != nil {
			d = append(d, fmt.Sprintf("observed filter %q does not compile: %v", o.Filter, err))
		} else if !bytes.Equal(p.Bytes(), q.filterBER) {
			d = append(d, fmt.Sprintf("filter %q is not semantically the sent %q", o.Filter, q.Filter))
		}
		if !eqBytesList(o.Attrs, q.Attrs) {
			d = append(d, fmt.Sprintf("requested attributes: %d seen, %d sent (or content/order differs)", len(o.Attrs), len(q.Attrs)))
		}
	case "modify":
		if !bytes.Equal(o.DN, q.DN) {
			d = append(d, fmt.Sprintf("modify dn %x != %x", trunc(o.DN, 24), trunc(q.DN, 24)))
		}
		if len(o.Changes) != len(q.Changes) {
			d = append(d, fmt.Sprintf("changes: %d seen, %d sent", len(o.Changes), len(q.Changes)))
			break
		}
		for i := range q.Changes {
			if o.Changes[i].Op != q.Changes[i].Op || !bytes.Equal(o.Changes[i].Attr.Type, q.Changes[i].Attr.Type) {
				d = append(d, fmt.Sprintf("change %d: op/type %d/%x != %d/%x", i, o.Changes[i].Op, trunc(o.Changes[i].Attr.Type, 16), q.Changes[i].Op, trunc(q.Changes[i].Attr.Type, 16)))
			}
			if !modifyValsMatch(q.Changes[i].Attr.Vals, o.Changes[i].Attr.Vals) {
				d = append(d, fmt.Sprintf("change %d values: client sent %d values, handler saw %d elements (or content differs, plain and BER-unwrapped)", i, len(q.Changes[i].Attr.Vals), len(o.Changes[i].Attr.Vals)))
			}
		}
	case "add":
		if !bytes.Equal(o.DN, q.DN) {
			d = append(d, fmt.Sprintf("add dn %x != %x", trunc(o.DN, 24), trunc(q.DN, 24)))
		}
		if len(o.AddAttrs) != len(q.AddAttrs) {
			d = append(d, fmt.Sprintf("added attributes: %d seen, %d sent", len(o.AddAttrs), len(q.AddAttrs)))
			break
		}
		for i := range q.AddAttrs {
			if !bytes.Equal(o.AddAttrs[i].Type, q.AddAttrs[i].Type) || !eqBytesList(o.AddAttrs[i].Vals, q.AddAttrs[i].Vals) {
				d = append(d, fmt.Sprintf("added attribute %d differs", i))
			}
		}
	case "delete":
		if !bytes.Equal(o.DN, q.DN) {
			d = append(d, fmt.Sprintf("delete dn %x != %x", trunc(o.DN, 24), trunc(q.DN, 24)))
		}
	case "extended":
		if !bytes.Equal(o.Name, q.Name) {
			d = append(d, fmt.Sprintf("extended name %x != %x", trunc(o.Name, 24), trunc(q.Name, 24)))
		}
	}
	if q.Kind != "extended" && q.Kind != "unbind" {
		d = append(d, compareControls(q.Controls, o.Controls)...)
	}
	return d
}

// berFilterPacket is a tiny helper for go-ldap requests that need the same filter.
func berFilterPacket(b []byte) *ber.Packet { return ber.DecodePacket(b) }
