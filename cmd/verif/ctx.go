package main

import (
	"encoding/json"
	"fmt"
	"hash/fnv"
	"os"
	"sort"
	"sync"
	"time"
)

// ---------------------------------------------------------------- PRNG

// Rand is splitmix64; deterministic, seedable, cheap, with named sub-streams.
type Rand struct{ s uint64 }

func NewRand(seed uint64) *Rand { return &Rand{s: seed*0x9E3779B97F4A7C15 + 0x1234567} }

func (r *Rand) U64() uint64 {
	r.s += 0x9E3779B97F4A7C15
	z := r.s
	z = (z ^ (z >> 30)) * 0xBF58476D1CE4E5B9
	z = (z ^ (z >> 27)) * 0x94D049BB133111EB
	return z ^ (z >> 31)
}

func (r *Rand) Intn(n int) int {
	if n <= 0 {
		return 0
	}
	return int(r.U64() % uint64(n))
}
func (r *Rand) Bool() bool        { return r.U64()&1 == 1 }
func (r *Rand) Chance(p int) bool { return r.Intn(100) < p }

// Sub derives an independent stream from a name.
func (r *Rand) Sub(name string) *Rand {
	h := fnv.New64a()
	h.Write([]byte(name))
	return NewRand(r.s ^ h.Sum64())
}

func (r *Rand) Bytes(n int) []byte {
	b := make([]byte, n)
	for i := range b {
		b[i] = byte(r.U64())
	}
	return b
}

func pick[T any](r *Rand, xs []T) T { return xs[r.Intn(len(xs))] }

func (r *Rand) Perm(n int) []int {
	p := make([]int, n)
	for i := range p {
		p[i] = i
	}
	for i := n - 1; i > 0; i-- {
		j := r.Intn(i + 1)
		p[i], p[j] = p[j], p[i]
	}
	return p
}

// ---------------------------------------------------------------- results

// Violation is one refuting observation.
type Violation struct {
	Key    string `json:"key"`  // normalised identity (call site / input class / history shape)
	What   string `json:"what"` // human readable
	Detail any    `json:"detail,omitempty"`
}

// PhaseResult is what a child writes for the supervisor.
type PhaseResult struct {
	Phase        string              `json:"phase"`
	Counts       map[string]int64    `json:"counts"`
	Sets         map[string][]uint64 `json:"sets"` // hashed distinct signatures
	Samples      []any               `json:"samples"`
	Notes        map[string]any      `json:"notes"`
	Violations   []Violation         `json:"violations"`
	Inconclusive []string            `json:"inconclusive"`
	Done         bool                `json:"done"`
	WallS        float64             `json:"wall_s"`
}

// Ctx is the per-child context handed to a phase function.
type Ctx struct {
	ID    string
	Tier  string
	Seed  int64
	Phase string
	Rng   *Rand

	mu      sync.Mutex
	counts  map[string]int64
	sets    map[string]map[uint64]struct{}
	samples []any
	notes   map[string]any
	viols   []Violation
	vkeys   map[string]int
	incon   []string
	skips   int
	out     string
	start   time.Time

	// MuteViolations makes Violate only count (used when a workload of another
	// property is reused purely as a race-detector workload).
	MuteViolations bool
}

func newCtx(id, tier, phase, out string, seed int64) *Ctx {
	base := phase // follow-up phases ("name@n") share the PRNG stream of their base phase
	for i := 0; i < len(phase); i++ {
		if phase[i] == '@' {
			base = phase[:i]
			break
		}
	}
	return &Ctx{ID: id, Tier: tier, Seed: seed, Phase: phase, out: out,
		Rng:    NewRand(uint64(seed)).Sub(id + "/" + base),
		counts: map[string]int64{}, sets: map[string]map[uint64]struct{}{},
		notes: map[string]any{}, vkeys: map[string]int{}, start: time.Now()}
}

func (c *Ctx) Quick() bool { return c.Tier != "thorough" }

// N picks a count by tier.
func (c *Ctx) N(quick, thorough int) int {
	if c.Quick() {
		return quick
	}
	return thorough
}

func (c *Ctx) Count(name string, n int64) {
	c.mu.Lock()
	c.counts[name] += n
	c.mu.Unlock()
}

func (c *Ctx) Max(name string, n int64) {
	c.mu.Lock()
	if n > c.counts[name] {
		c.counts[name] = n
	}
	c.mu.Unlock()
}

func hash64(s string) uint64 {
	h := fnv.New64a()
	h.Write([]byte(s))
	return h.Sum64()
}

// Distinct records a signature in a named set (counted distinct).
func (c *Ctx) Distinct(set, sig string) {
	h := hash64(sig)
	c.mu.Lock()
	m := c.sets[set]
	if m == nil {
		m = map[uint64]struct{}{}
		c.sets[set] = m
	}
	m[h] = struct{}{}
	c.mu.Unlock()
}

// Sample keeps up to 6 written-out cases.
func (c *Ctx) Sample(v any) {
	c.mu.Lock()
	if len(c.samples) < 6 {
		c.samples = append(c.samples, v)
	}
	c.mu.Unlock()
}

func (c *Ctx) Note(k string, v any) {
	c.mu.Lock()
	c.notes[k] = v
	c.mu.Unlock()
}

// Violate records a violation; at most 3 details are kept per key.
func (c *Ctx) Violate(key, what string, detail any) {
	if c.MuteViolations {
		c.Count("functional_violations_not_judged_here", 1)
		return
	}
	c.mu.Lock()
	c.vkeys[key]++
	if c.vkeys[key] <= 2 {
		c.viols = append(c.viols, Violation{Key: key, What: what, Detail: detail})
	}
	n := len(c.viols)
	c.mu.Unlock()
	if n%16 == 1 {
		c.flush(false)
	}
}

func (c *Ctx) Violations() int {
	c.mu.Lock()
	defer c.mu.Unlock()
	n := 0
	for _, v := range c.vkeys {
		n += v
	}
	return n
}

// Skip records one run of a workload whose harness-side precondition failed (a connection of the harness's own that
// was not established, a call that belongs to another property's oracle and did not come back): nothing was observed
// in that run and nothing is judged. Up to two such runs per phase are counted ("harness_runs_skipped") and noted;
// from the third on the phase is inconclusive.
func (c *Ctx) Skip(why string) {
	c.mu.Lock()
	c.skips++
	n := c.skips
	if n <= 2 {
		c.notes[fmt.Sprintf("harness_run_skipped/%d", n)] = why
	}
	c.mu.Unlock()
	c.Count("harness_runs_skipped", 1)
	if n > 2 {
		c.Inconclusive(fmt.Sprintf("%d runs skipped; the latest: %s", n, why))
	}
}

func (c *Ctx) Inconclusive(why string) {
	if c.MuteViolations {
		// a workload of another check reused as a race-detector workload: a step whose functional precondition did not
		// hold (e.g. a 500ms read timeout that expired before the first round trip under the race detector) is
		// counted, not judged - the reusing check has its own observation minima
		c.Count("reused_workload_steps_skipped", 1)
		return
	}
	c.mu.Lock()
	if len(c.incon) < 20 {
		c.incon = append(c.incon, why)
	}
	c.mu.Unlock()
}

func (c *Ctx) Logf(format string, a ...any) {
	fmt.Fprintf(os.Stderr, "[%s/%s %6.1fs] %s\n", c.ID, c.Phase, time.Since(c.start).Seconds(), fmt.Sprintf(format, a...))
}

func (c *Ctx) flush(done bool) {
	c.mu.Lock()
	r := PhaseResult{Phase: c.Phase, Counts: map[string]int64{}, Sets: map[string][]uint64{}, Samples: c.samples,
		Notes: c.notes, Violations: c.viols, Inconclusive: c.incon, Done: done, WallS: time.Since(c.start).Seconds()}
	for k, v := range c.counts {
		r.Counts[k] = v
	}
	for k, m := range c.sets {
		l := make([]uint64, 0, len(m))
		for h := range m {
			l = append(l, h)
		}
		sort.Slice(l, func(i, j int) bool { return l[i] < l[j] })
		r.Sets[k] = l
	}
	for k, n := range c.vkeys {
		r.Counts["violations/"+k] = int64(n)
	}
	b, err := json.Marshal(r)
	c.mu.Unlock()
	if err != nil {
		fmt.Fprintln(os.Stderr, "marshal result:", err)
		return
	}
	tmp := c.out + ".tmp"
	if err := os.WriteFile(tmp, b, 0o644); err == nil {
		os.Rename(tmp, c.out)
	}
}

// ---------------------------------------------------------------- registry

// Phase is one monitored execution of a check.
type Phase struct {
	Name     string
	Race     bool              // run under the race-detector build
	Env      map[string]string // extra environment (GOMAXPROCS, ...)
	Timeout  time.Duration     // wall-clock watchdog (firing = inconclusive)
	Run      func(*Ctx)
	MayCrash bool // a crash of this phase is itself an observation handled by Crash
	// Crash, when set, is called by the supervisor when the child died
	// abnormally; it may return follow-up phases (restart after a crash).
	Crash func(s *Super, ph Phase, stderr string, partial *PhaseResult) []Phase
	Arg   string // opaque argument passed to the child (VERIF_ARG)
	Bin   string // alternative child binary in the bin directory (optional phases: skipped when it is absent)
}

// Check is the registration of one property.
type Check struct {
	ID        string
	Level     string
	Rule      string
	Primary   string // name of the set whose size is distinct_nontrivial
	EvalCount string // name of the counter that is 'evaluations'
	Assume    []string
	Phases    func(tier string, seed int64) []Phase
	// MinObserved lists counters that must be > 0 for the run to count as
	// having observed anything (otherwise inconclusive).
	MinObserved     []string
	RaceIsViolation bool
}

var registry = map[string]*Check{}

func register(c *Check) { registry[c.ID] = c }
