package main

import (
	"crypto/tls"
	"fmt"
	"net"
	"os"
	"strings"
	"sync"
	"sync/atomic"
	"time"

	"github.com/jimlambrt/gldap"

	"verif/internal/sber"
)

func init() {
	register(&Check{
		ID: "C17", Level: "exploration", Primary: "schedules", EvalCount: "startups",
		Rule: "one evaluation = a fresh server whose Run is started while 1..8 pollers spin on Ready(); the first poller iteration that observes true immediately dials the address and performs a verified bind, and " +
			"keeps dialing at PRNG-chosen later instants until Stop is called. Addresses cover IPv4, hostname, bracketed and unbracketed IPv6 loopback and the empty-host form. Failing addresses (empty, no port, IP literals of the documentation ranges that are not assigned to the host, " +
			"bracket errors, invalid IPv4, unresolvable host, a port the harness keeps bound, a port served by another running gldap server, and a TLS configuration without certificates) must make Run return an error while Ready() - polled during the call and for a while after - never reports true. " +
			"Between Ready and Stop the harness also lets Accept fail temporarily (descriptor shortage), calls Run once more on the running server with an address that lacks a port (that call fails; the running server goes on), stops a server, lets a new server take over its address and stops the old server value once more, runs a stopped server again on a port somebody else took meanwhile, stops another server that shares the mux (and starts a new one on that mux), keeps 300/520/1100 idle connections open and parks silent peers on a TLS listener: a new connection must still be served within 10s afterwards / meanwhile. Runs under GOMAXPROCS 1, 4 and 16. A refused dial after an observed true is a logical fact, not a timing judgement. " +
			"distinct_nontrivial = distinct (address form, #pollers, GOMAXPROCS, whether a poller saw false before true) combinations",
		Assume: []string{"the address is dialled exactly as it was passed to Run (for the empty-host form, 127.0.0.1)"},
		Phases: func(tier string, seed int64) []Phase {
			var ps []Phase
			for _, p := range []string{"16", "4", "1"} {
				ps = append(ps, Phase{Name: "ready-p" + p, Run: c17Run, Env: map[string]string{"GOMAXPROCS": p}})
			}
			return ps
		},
		MinObserved: []string{"startups", "dials_after_ready_true", "failing_addresses_checked", "pollers_saw_false_before_true", "served_after_accept_failure_episodes", "served_after_the_previous_owner_of_the_address_was_stopped_again", "served_after_a_further_run_with_a_malformed_address_had_failed", "served_next_to_silent_tls_peers", "served_while_an_onclose_callback_runs", "served_after_idling_longer_than_the_read_timeout", "served_by_a_second_run_after_a_failed_one", "served_next_to_hundreds_of_idle_connections", "served_after_another_server_on_the_same_mux_was_stopped", "second_runs_of_a_stopped_server_on_a_port_taken_meanwhile"},
	})
}

func c17Bind(addr string) error { return c17BindOver(addr, nil) }

func c17BindOver(addr string, tc *tls.Config) error {
	cl, err := dialRaw(addr, tc)
	if err != nil {
		return err
	}
	defer cl.Close()
	cl.Send(sber.Message(3, sber.BindRequest(3, []byte("cn=ready"), []byte("p")), nil).Encode())
	m, err := cl.ReadMsg(patience)
	if err != nil {
		return fmt.Errorf("connected but not served: %w", err)
	}
	if res, err := sber.AsResult(m.Op); err != nil || m.ID != 3 || m.Op.Tag != sber.AppBindResponse || res.Code != 0 {
		return fmt.Errorf("connected but wrong answer")
	}
	return nil
}

func c17Run(c *Ctx) {
	procs := os.Getenv("GOMAXPROCS")
	n := c.N(100, 3500)
	r := c.Rng
	for i := 0; i < n; i++ {
		port := freePort()
		form := pick(r, []string{"127.0.0.1:%d", "localhost:%d", "[::1]:%d", "::1:%d", ":%d"})
		addr := fmt.Sprintf(form, port)
		dialAddr := addr
		switch form {
		case ":%d":
			dialAddr = fmt.Sprintf("127.0.0.1:%d", port)
		case "::1:%d":
			dialAddr = fmt.Sprintf("[::1]:%d", port)
		}
		srv, err := newSrv(SrvCfg{})
		if err != nil {
			c.Inconclusive(err.Error())
			return
		}
		srv.Mux.Bind(func(w *gldap.ResponseWriter, req *gldap.Request) {
			w.Write(req.NewBindResponse(gldap.WithResponseCode(0)))
		})
		srv.S.Router(srv.Mux)
		pollers := 1 + r.Intn(8)
		var stopCalled atomic.Bool
		var sawFalse atomic.Bool
		var wg sync.WaitGroup
		runRet := make(chan error, 1)
		det := map[string]any{"addr": addr, "pollers": pollers, "gomaxprocs": procs}
		start := make(chan struct{})
		for p := 0; p < pollers; p++ {
			wg.Add(1)
			go func(p int, rr *Rand) {
				defer wg.Done()
				<-start
				deadline := time.Now().Add(patience)
				for !srv.S.Ready() {
					sawFalse.Store(true)
					if time.Now().After(deadline) {
						return
					}
				}
				// Ready() == true was observed: from now until Stop a connection attempt must succeed and be served
				for k := 0; k < 1+rr.Intn(3); k++ {
					if stopCalled.Load() {
						return
					}
					err := c17Bind(dialAddr)
					if err != nil && !stopCalled.Load() {
						c.Violate("Ready() was true but a connection attempt failed or was not served", fmt.Sprintf("%s: %v", addr, err), det)
						return
					}
					if err == nil {
						c.Count("dials_after_ready_true", 1)
					}
					time.Sleep(time.Duration(rr.Intn(300)) * time.Microsecond)
				}
			}(p, r.Sub(fmt.Sprintf("%d/%d", i, p)))
		}
		go func() { runRet <- srv.S.Run(addr) }()
		close(start)
		wg.Wait()
		stopCalled.Store(true)
		srv.S.Stop()
		select {
		case err := <-runRet:
			if err != nil && strings.Contains(err.Error(), "address already in use") {
				c.Count("harness_port_races_skipped", 1) // the probed port was taken before Run bound it
				continue
			}
			if err != nil {
				c.Violate("Run returned an error for a valid address", fmt.Sprintf("%s: %v", addr, err), det)
			}
		case <-time.After(patience):
			c.Inconclusive("Run did not return after Stop: " + addr)
		}
		c.Count("startups", 1)
		if sawFalse.Load() {
			c.Count("pollers_saw_false_before_true", 1)
		}
		c.Distinct("schedules", fmt.Sprintf("%s/p%d/gmp%s/%v", form, pollers, procs, sawFalse.Load()))
		if i == 0 {
			c.Sample(det)
		}
	}
	c17Disturbances(c)
	// ---- addresses Run cannot listen on
	held, err := net.Listen("tcp", "127.0.0.1:0")
	if err != nil {
		c.Inconclusive(err.Error())
		return
	}
	defer held.Close()
	heldPort := held.Addr().(*net.TCPAddr).Port
	held6, _ := net.Listen("tcp", "[::1]:0")
	failing := []string{"", "localhost", "127.0.0.1", "127.0.0.1:", "[::1]", "[::1:80", "[zz::1]:389", "999.1.1.1:80", "1.2.3:80", "1.2.3.4.5:80", "no-such-host.invalid:389", ":::", "::zz:389",
		fmt.Sprintf("127.0.0.1:%d", heldPort), fmt.Sprintf(":%d", heldPort), "127.0.0.1:99999", "127.0.0.1:-1", "127.0.0.1:ldapx"}
	if held6 != nil {
		defer held6.Close()
		failing = append(failing, fmt.Sprintf("[::1]:%d", held6.Addr().(*net.TCPAddr).Port))
	}
	// odd forms around valid literals, each with a free port: whatever Run decides, Ready() may only become true
	// if the address AS PASSED can then be dialled and is served
	for _, f := range []string{"[[::1]:%d", "[::1]]:%d", "[[::1]]:%d", "[[127.0.0.1]]:%d", "[[127.0.0.1]:%d", "[127.0.0.1]]:%d", "[127.0.0.1]:%d", "[localhost]:%d",
		" 127.0.0.1:%d", "127.0.0.1 :%d", "127.0.0.1:%d ", "127.0.0.1:+%d", "tcp://127.0.0.1:%d", "127.0.0.1:%d/", "127.0.0.1::%d", "[::1%%lo]:%d", "0x7f.0.0.1:%d", "127.1:%d", "[]:%d", "*:%d"} {
		failing = append(failing, fmt.Sprintf(f, freePort()))
	}
	// ports written in other notations: a leading zero (decimal all the same for the resolver; the digits are chosen so
	// that an octal reading would give a different port), hexadecimal, octal and binary literals, digit separators
	if p := freePortWithOctalDigits(); p > 0 {
		failing = append(failing, fmt.Sprintf("127.0.0.1:0%d", p), fmt.Sprintf("localhost:00%d", p))
	}
	fp := freePort()
	failing = append(failing, fmt.Sprintf("127.0.0.1:0x%x", fp), fmt.Sprintf("127.0.0.1:0X%X", fp), fmt.Sprintf("127.0.0.1:0o%o", fp), fmt.Sprintf("127.0.0.1:0b%b", fp),
		fmt.Sprintf("127.0.0.1:%d_%d", fp/10, fp%10), fmt.Sprintf("127.0.0.1:%d.0", fp), fmt.Sprintf("127.0.0.1:%de0", fp))
	// a port that is in use by ANOTHER RUNNING gldap SERVER (not just by a plain listener)
	other, oerr := startSrv(SrvCfg{}, func(m *gldap.Mux) {
		m.Bind(func(w *gldap.ResponseWriter, req *gldap.Request) {
			w.Write(req.NewBindResponse(gldap.WithResponseCode(0)))
		})
	})
	mustFail := map[string]bool{fmt.Sprintf("127.0.0.1:%d", heldPort): true, fmt.Sprintf(":%d", heldPort): true}
	if held6 != nil {
		mustFail[fmt.Sprintf("[::1]:%d", held6.Addr().(*net.TCPAddr).Port)] = true
	}
	// the port is held on the IPv6 wildcard only (an ordinary tcp6 listener): a host-less address covers it
	if w6, err := net.Listen("tcp6", "[::]:0"); err == nil {
		defer w6.Close()
		a := fmt.Sprintf(":%d", w6.Addr().(*net.TCPAddr).Port)
		failing = append(failing, a)
		mustFail[a] = true
	}
	if oerr == nil {
		defer other.StopWithin(patience)
		failing = append(failing, other.Addr)
		mustFail[other.Addr] = true
	}
	// well-formed IP literals that are not assigned to this host (documentation ranges): either Run refuses them, or
	// what it listens on can be dialled as written
	failing = append(failing, fmt.Sprintf("192.0.2.77:%d", freePort()), fmt.Sprintf("[2001:db8::77]:%d", freePort()))
	// a valid, free address but a TLS configuration without any certificate source
	const tlsNoCert = "tls-config-without-certificates@"
	failing = append(failing, tlsNoCert+fmt.Sprintf("127.0.0.1:%d", freePort()))
	reps := c.N(2, 10)
	for rep := 0; rep < reps; rep++ {
		for _, addr := range failing {
			var ropts []gldap.Option
			caseName := addr
			if strings.HasPrefix(addr, tlsNoCert) {
				addr = strings.TrimPrefix(addr, tlsNoCert)
				ropts = append(ropts, gldap.WithTLSConfig(&tls.Config{}))
			}
			srv, err := newSrv(SrvCfg{})
			if err != nil {
				c.Inconclusive(err.Error())
				return
			}
			srv.Mux.Bind(func(w *gldap.ResponseWriter, req *gldap.Request) {
				w.Write(req.NewBindResponse(gldap.WithResponseCode(0)))
			})
			srv.S.Router(srv.Mux)
			var done atomic.Bool
			var sawTrue atomic.Bool
			var pwg sync.WaitGroup
			for p := 0; p < 2; p++ {
				pwg.Add(1)
				go func() {
					defer pwg.Done()
					for !done.Load() {
						if srv.S.Ready() {
							sawTrue.Store(true)
						}
					}
				}()
			}
			runRet := make(chan error, 1)
			go func() { runRet <- srv.S.Run(addr, ropts...) }()
			var rerr error
			returned := false
			for dl := time.Now().Add(5 * time.Second); time.Now().Before(dl) && !returned && !sawTrue.Load(); {
				select {
				case rerr = <-runRet:
					returned = true
				case <-time.After(200 * time.Microsecond):
				}
			}
			if !returned && sawTrue.Load() {
				// Run decided it can listen: then the address as passed must be dialable and served
				dialAddr := addr
				if strings.HasPrefix(addr, ":") && !strings.HasPrefix(addr, "::") {
					dialAddr = "127.0.0.1" + addr
				}
				if mustFail[caseName] {
					c.Violate("Run did not return an error for a port that is already in use", fmt.Sprintf("Run(%q): the port is held by another listener/server, yet Run keeps running and Ready() became true", addr), map[string]any{"addr": addr})
				} else if ropts != nil {
					// unusable TLS configuration: only the TCP connection attempt is asserted (the user's config cannot serve anyone)
					if cn, err := net.DialTimeout("tcp", dialAddr, 5*time.Second); err != nil {
						c.Violate("Ready() was true but a connection attempt failed or was not served", fmt.Sprintf("Run(%q, TLS config without certificates): Ready() is true but the TCP connection attempt fails: %v", addr, err), map[string]any{"addr": addr})
					} else {
						cn.Close()
						c.Count("dials_after_ready_true", 1)
					}
				} else if err := c17Bind(dialAddr); err != nil {
					c.Violate("Ready() was true but a connection attempt failed or was not served", fmt.Sprintf("Run(%q) did not return an error and Ready() became true, but the address as passed cannot be dialled/served: %v", addr, err), map[string]any{"addr": addr})
				} else {
					c.Count("dials_after_ready_true", 1)
				}
				done.Store(true)
				pwg.Wait()
				srv.S.Stop()
				c.Count("failing_addresses_checked", 1)
				c.Count("startups", 1)
				c.Distinct("schedules", "odd-but-accepted/"+caseName+"/gmp"+procs)
				continue
			}
			// keep polling for a while after Run returned
			time.Sleep(3 * time.Millisecond)
			late := srv.S.Ready()
			done.Store(true)
			pwg.Wait()
			c.Count("failing_addresses_checked", 1)
			c.Count("startups", 1)
			c.Distinct("schedules", "failing/"+addr+"/gmp"+procs)
			det := map[string]any{"addr": addr, "run_error": fmt.Sprint(rerr)}
			if !returned {
				if mustFail[caseName] {
					c.Violate("Run did not return an error for a port that is already in use", fmt.Sprintf("Run(%q): the port is held by another listener/server; after 5s Run has neither returned nor has Ready() become true", addr), det)
				}
				// Run is serving on an address we expected to fail: not a Ready() matter; make it stop and move on
				srv.S.Stop()
				c.Note("unexpectedly_listening/"+addr, true)
				continue
			}
			if rerr == nil {
				c.Violate("Run returned nil for an address it cannot listen on", addr, det)
				continue
			}
			if sawTrue.Load() || late {
				what := "malformed address"
				if strings.Contains(rerr.Error(), "address already in use") {
					what = "port already in use"
				}
				c.Violate("Ready() reported true although Run could not listen", fmt.Sprintf("%s (%s): Run returned %q, Ready()=true", addr, what, rerr), det)
			}
			srv.S.Stop()
		}
	}
}

// c17Served: a fresh connection is served within the bound (bounded-progress oracle with its own bound).
func c17Served(addr string, tc *tls.Config, bound time.Duration) error {
	res := make(chan error, 1)
	go func() {
		var err error
		for dl := time.Now().Add(bound); time.Now().Before(dl); time.Sleep(20 * time.Millisecond) {
			if err = c17BindOver(addr, tc); err == nil {
				break
			}
		}
		res <- err
	}()
	select {
	case err := <-res:
		return err
	case <-time.After(bound + time.Second):
		return fmt.Errorf("no served connection within %s", bound)
	}
}

// c17Disturbances: between an observed Ready() == true and Stop, things happen that are not the server's fault - the
// process runs out of descriptors for a moment (Accept fails temporarily), peers connect to a TLS listener and never
// say a word. While Ready() stays true and Stop has not been called, a new connection must still be served.
func c17Disturbances(c *Ctx) {
	const bound = 10 * time.Second
	pki := newPKI()
	bindOK := func(m *gldap.Mux) {
		m.Bind(func(w *gldap.ResponseWriter, req *gldap.Request) {
			w.Write(req.NewBindResponse(gldap.WithResponseCode(0)))
		})
	}
	for ep := 0; ep < c.N(3, 12); ep++ {
		srv, err := startSrv(SrvCfg{}, bindOK)
		if err != nil {
			c.Inconclusive("server start: " + err.Error())
			return
		}
		if _, err := emfileEpisode(srv.Addr, ep); err != nil {
			c.Inconclusive("emfile episode: " + err.Error())
			srv.StopWithin(patience)
			return
		}
		ready := srv.S.Ready()
		if err := c17Served(srv.Addr, nil, bound); err != nil && ready {
			returned := false
			select {
			case <-srv.runDone:
				returned = true
			default:
			}
			c.Violate("Ready() was true but a connection attempt failed or was not served", fmt.Sprintf("after Accept had failed temporarily (descriptor shortage, over now): Ready()=%v, Run returned=%v, Stop not called, yet no new connection is served within %s: %v", srv.S.Ready(), returned, bound, err), map[string]any{"episode": ep})
		} else if err == nil {
			c.Count("dials_after_ready_true", 1)
		}
		c.Count("served_after_accept_failure_episodes", 1)
		srv.StopWithin(patience)

		// somebody calls Run once more on the RUNNING server, with an address that is not one (a configuration reload gone
		// wrong): that call fails, as it must - and the server that is running goes on serving: Ready() is still true and
		// Stop has not been called
		if rs, err := startSrv(SrvCfg{}, bindOK); err == nil {
			bad := []string{"not an address", "127.0.0.1", "[::1]", "", "localhost"}[ep%5] // (every one of them lacks a port)
			ret := make(chan error, 1)
			go func() { ret <- rs.S.Run(bad) }()
			select {
			case e := <-ret:
				if e == nil {
					c.Violate("Run returned nil for an address it cannot listen on", fmt.Sprintf("Run(%q) on a server that is already running", bad), nil)
				}
				time.Sleep(time.Duration(ep%4) * time.Millisecond)
				if rs.S.Ready() {
					if err := c17Served(rs.Addr, nil, bound); err != nil {
						returned := false
						select {
						case <-rs.runDone:
							returned = true
						default:
						}
						c.Violate("Ready() was true but a connection attempt failed or was not served", fmt.Sprintf("after a further Run(%q) on the running server had failed (%v): Ready()=true, Stop not called, the first Run returned=%v, yet no new connection is served within %s: %v", bad, e, returned, bound, err), map[string]any{"episode": ep})
					} else {
						c.Count("dials_after_ready_true", 1)
						c.Count("served_after_a_further_run_with_a_malformed_address_had_failed", 1)
					}
				} else {
					c.Count("served_after_a_further_run_with_a_malformed_address_had_failed", 1) // nothing claimed
				}
			case <-time.After(bound):
				c.Inconclusive(fmt.Sprintf("Run(%q) on a running server did not return", bad))
			}
			rs.StopWithin(patience)
		}

		// a server is stopped, a NEW server takes over its address, and then the old server value is stopped once more
		// (an explicit Stop plus a deferred one): that is nothing to the new server
		if oldS, err := startSrv(SrvCfg{}, bindOK); err == nil {
			addr := oldS.Addr
			if err := c17Served(addr, nil, bound); err != nil {
				c.Inconclusive("takeover, old server: " + err.Error())
			}
			oldS.StopWithin(patience)
			if newS, err := startSrv(SrvCfg{Addr: addr}, bindOK); err == nil {
				if err := c17Served(newS.Addr, nil, bound); err != nil {
					c.Inconclusive("takeover, new server: " + err.Error())
				} else {
					for k := 0; k <= ep%2; k++ {
						oldS.S.Stop()
					}
					time.Sleep(time.Duration(ep%3) * time.Millisecond)
					if newS.S.Ready() {
						if err := c17Served(newS.Addr, nil, bound); err != nil {
							c.Violate("Ready() was true but a connection attempt failed or was not served", fmt.Sprintf("a new server runs on the address of a stopped one; after the OLD server value was stopped once more the new server's Ready() is true and its Stop was not called, yet no new connection is served within %s: %v", bound, err), map[string]any{"episode": ep})
						} else {
							c.Count("dials_after_ready_true", 1)
						}
					}
					c.Count("served_after_the_previous_owner_of_the_address_was_stopped_again", 1)
				}
				newS.StopWithin(patience)
			} else {
				c.Count("harness_port_races_skipped", 1)
			}
		}

		// two servers of one application share one mux (an ldap and an ldaps listener, or a restart on the same routes):
		// that one of them is stopped says nothing about the other, nor about a later server on the same mux
		if sm, err := gldap.NewMux(); err == nil {
			bindOK(sm)
			a, errA := startSrv(SrvCfg{}, nil)
			b, errB := startSrv(SrvCfg{}, nil)
			if errA == nil && errB == nil && a.S.Router(sm) == nil && b.S.Router(sm) == nil {
				if err := c17Served(a.Addr, nil, bound); err != nil {
					c.Inconclusive("shared mux, first server: " + err.Error())
				}
				a.StopWithin(patience)
				if err := c17Served(b.Addr, nil, bound); err != nil && b.S.Ready() {
					c.Violate("Ready() was true but a connection attempt failed or was not served", fmt.Sprintf("two servers share one mux; after the OTHER one was stopped this one - Ready()=true, never stopped - does not serve a new connection within %s: %v", bound, err), map[string]any{"episode": ep})
				} else if err == nil {
					c.Count("dials_after_ready_true", 1)
					c.Count("served_after_another_server_on_the_same_mux_was_stopped", 1)
				}
				// ... and a fresh server takes over the stopped one's address with the same mux
				if n, err := startSrv(SrvCfg{Addr: a.Addr}, nil); err == nil {
					if n.S.Router(sm) == nil {
						if err := c17Served(n.Addr, nil, bound); err != nil && n.S.Ready() {
							c.Violate("Ready() was true but a connection attempt failed or was not served", fmt.Sprintf("a new server on the mux (and address) of a stopped one: Ready()=true, yet no new connection is served within %s: %v", bound, err), map[string]any{"episode": ep})
						} else if err == nil {
							c.Count("dials_after_ready_true", 1)
						}
					}
					n.StopWithin(patience)
				}
				b.StopWithin(patience)
			} else {
				c.Inconclusive(fmt.Sprintf("shared-mux servers: %v %v", errA, errB))
			}
		}
		// hundreds of connections that are open and idle: the next client is served like the first one
		if isrv, err := startSrv(SrvCfg{}, bindOK); err == nil {
			nIdle := []int{300, 520, 1100}[ep%3]
			var idle []net.Conn
			for k := 0; k < nIdle; k++ {
				cn, err := net.DialTimeout("tcp", isrv.Addr, patience)
				if err != nil {
					break
				}
				idle = append(idle, cn)
			}
			if len(idle) == nIdle {
				if err := c17Served(isrv.Addr, nil, bound); err != nil && isrv.S.Ready() {
					c.Violate("Ready() was true but a connection attempt failed or was not served", fmt.Sprintf("with %d idle connections open: Ready()=true, Stop not called, yet a new connection is not served within %s: %v", nIdle, bound, err), map[string]any{"idle_connections": nIdle})
				} else if err == nil {
					c.Count("dials_after_ready_true", 1)
					c.Count("served_next_to_hundreds_of_idle_connections", 1)
					c.Max("max/idle_connections_open_when_a_client_was_served", int64(nIdle))
				}
			} else {
				c.Inconclusive(fmt.Sprintf("only %d of %d idle connections could be opened", len(idle), nIdle))
			}
			for _, cn := range idle {
				cn.Close()
			}
			isrv.StopWithin(patience)
		}

		// an OnClose callback of an earlier connection that takes its time (held by the harness): connections that
		// arrive meanwhile are served
		holdClose := make(chan struct{})
		var closing atomic.Int64
		osrv, err := startSrv(SrvCfg{OnClose: func(int) {
			closing.Add(1)
			select {
			case <-holdClose:
			case <-time.After(patience):
			}
		}}, bindOK)
		if err != nil {
			c.Inconclusive("server start: " + err.Error())
			return
		}
		if err := c17BindOver(osrv.Addr, nil); err != nil {
			c.Inconclusive("first connection: " + err.Error())
		} else {
			for dl := time.Now().Add(patience); closing.Load() == 0 && time.Now().Before(dl); time.Sleep(200 * time.Microsecond) {
			}
			if closing.Load() > 0 {
				if err := c17Served(osrv.Addr, nil, bound); err != nil && osrv.S.Ready() {
					c.Violate("Ready() was true but a connection attempt failed or was not served", fmt.Sprintf("while the OnClose callback of an earlier connection is still running: Ready()=true, Stop not called, yet a new connection is not served within %s: %v", bound, err), map[string]any{"episode": ep})
				} else if err == nil {
					c.Count("dials_after_ready_true", 1)
					c.Count("served_while_an_onclose_callback_runs", 1)
				}
			}
		}
		close(holdClose)
		osrv.StopWithin(patience)

		// the same Server value is run again after a Run that could not listen (a "try the next port" loop): the second
		// Run listens, Ready() becomes true - and then a connection must be served like on any other server
		if blocker, err := net.Listen("tcp", "127.0.0.1:0"); err == nil {
			again, nerr := newSrv(SrvCfg{})
			if nerr == nil {
				bindOK(again.Mux)
				again.S.Router(again.Mux)
				var firstOpts []gldap.Option
				if ep%3 == 2 {
					firstOpts = append(firstOpts, gldap.WithTLSConfig(pki.ServerOnly)) // what the failed Run was given does not stick
				}
				// (the port is held by the harness for as long as this takes: a Run that neither returns nor becomes ready
				// within the bound is not going to do either)
				firstRet := make(chan error, 1)
				go func() { firstRet <- again.S.Run(blocker.Addr().String(), firstOpts...) }()
				var first error
				select {
				case first = <-firstRet:
				case <-time.After(bound):
					c.Violate("Run did not return an error for a port that is already in use", fmt.Sprintf("Run(%q): the port is held by another listener; after %s Run has neither returned nor has Ready() become true (%v)", blocker.Addr().String(), bound, again.S.Ready()), map[string]any{"episode": ep})
					again.S.Stop()
					blocker.Close()
					continue
				}
				second := make(chan error, 1)
				addr2 := fmt.Sprintf("127.0.0.1:%d", freePort())
				if ep%2 == 1 {
					first = again.S.Run("127.0.0.1") // malformed instead of taken
				}
				go func() { second <- again.S.Run(addr2) }()
				sawReady := false
				for dl := time.Now().Add(5 * time.Second); time.Now().Before(dl) && !sawReady; time.Sleep(200 * time.Microsecond) {
					sawReady = again.S.Ready()
				}
				switch {
				case first == nil:
					c.Violate("Run returned nil for an address it cannot listen on", "first of two Run calls on one server", nil)
				case sawReady:
					if err := c17Served(addr2, nil, bound); err != nil {
						returned := false
						select {
						case e := <-second:
							returned = true
							second <- e
						default:
						}
						c.Violate("Ready() was true but a connection attempt failed or was not served", fmt.Sprintf("second Run on a server whose first Run had failed (%v): Ready()=true, Stop not called, second Run returned=%v, yet a connection to %s is not served within %s: %v", first, returned, addr2, bound, err), map[string]any{"episode": ep})
					} else {
						c.Count("dials_after_ready_true", 1)
						c.Count("served_by_a_second_run_after_a_failed_one", 1)
					}
				default:
					// the second Run did not come up: allowed only if it says so
					select {
					case e := <-second:
						if e == nil {
							c.Violate("Run returned nil for an address it cannot listen on", fmt.Sprintf("second Run (%s) on a server whose first Run had failed returned nil without Ready() ever becoming true", addr2), nil)
						} else {
							c.Count("served_by_a_second_run_after_a_failed_one", 1) // refused outright: nothing to serve, nothing claimed
						}
					case <-time.After(time.Second):
						c.Inconclusive("second Run neither became ready nor returned")
					}
				}
				again.S.Stop()
			}
			blocker.Close()
		}
		// one Server value: Run (fine), Stop, somebody else takes the port, Run again (cannot listen, says so): Ready() is
		// false afterwards - nothing of this server listens anywhere
		if once, err := startSrv(SrvCfg{}, bindOK); err == nil {
			addr := once.Addr
			if err := c17Served(addr, nil, bound); err != nil {
				c.Inconclusive("run-stop-run, first run: " + err.Error())
			}
			once.StopWithin(patience)
			if taker, err := net.Listen("tcp", addr); err == nil {
				ret := make(chan error, 1)
				go func() { ret <- once.S.Run(addr) }()
				select {
				case rerr := <-ret:
					c.Count("second_runs_of_a_stopped_server_on_a_port_taken_meanwhile", 1)
					if rerr == nil {
						c.Violate("Run returned nil for an address it cannot listen on", "Run, Stop, the port is taken by another listener, Run again: nil", nil)
					} else if once.S.Ready() {
						c.Violate("Ready() was true but a connection attempt failed or was not served", fmt.Sprintf("Run, Stop, the port is taken by another listener, Run again returns %q - and Ready() is true although this server listens nowhere (a connection to %s reaches the other listener)", rerr, addr), map[string]any{"episode": ep})
					}
				case <-time.After(bound):
					c.Violate("Run did not return an error for a port that is already in use", fmt.Sprintf("Run, Stop, the port is taken by another listener, Run again: no return within %s (Ready()=%v)", bound, once.S.Ready()), map[string]any{"episode": ep})
					once.S.Stop()
				}
				taker.Close()
			}
		}
		// a server with a read timeout that sees no connection for longer than that timeout
		rcfg := SrvCfg{ReadTimeout: 300 * time.Millisecond}
		if ep%2 == 1 {
			rcfg = SrvCfg{WriteTimeout: 300 * time.Millisecond} // or a write timeout: it does not start before there is something to write to
		}
		rsrv, err := startSrv(rcfg, bindOK)
		if err != nil {
			c.Inconclusive("server start: " + err.Error())
			return
		}
		time.Sleep(time.Duration(700+100*(ep%3)) * time.Millisecond)
		if err := c17Served(rsrv.Addr, nil, bound); err != nil && rsrv.S.Ready() {
			c.Violate("Ready() was true but a connection attempt failed or was not served", fmt.Sprintf("server with a 300ms read (or write) timeout that had been idle for longer than that: Ready()=true, Stop not called, yet a new connection is not served within %s: %v", bound, err), map[string]any{"episode": ep})
		} else if err == nil {
			c.Count("dials_after_ready_true", 1)
			c.Count("served_after_idling_longer_than_the_read_timeout", 1)
		}
		rsrv.StopWithin(patience)

		tsrv, err := startSrv(SrvCfg{TLS: pki.ServerOnly}, bindOK)
		if err != nil {
			c.Inconclusive("server start: " + err.Error())
			return
		}
		var silent []net.Conn
		for k := 0; k < 1+ep%3; k++ {
			if cn, err := net.Dial("tcp", tsrv.Addr); err == nil {
				if k%2 == 1 {
					cn.Write([]byte{0x16, 0x03, 0x01, 0x02, 0x00})
				}
				silent = append(silent, cn)
			}
		}
		time.Sleep(5 * time.Millisecond)
		if err := c17Served(tsrv.Addr, pki.ClientPlain, bound); err != nil && tsrv.S.Ready() {
			c.Violate("Ready() was true but a connection attempt failed or was not served", fmt.Sprintf("TLS listener with %d peers that connected and never completed a handshake: Ready()=true, Stop not called, yet a conforming client is not served within %s: %v", len(silent), bound, err), map[string]any{"episode": ep})
		} else if err == nil {
			c.Count("dials_after_ready_true", 1)
		}
		c.Count("served_next_to_silent_tls_peers", 1)
		for _, cn := range silent {
			cn.Close()
		}
		tsrv.StopWithin(patience)
	}
}

// freePortWithOctalDigits finds a free port whose decimal digits are all below 8 and whose octal reading is a
// different, valid port.
func freePortWithOctalDigits() int {
	for _, p := range []int{41234, 35671, 42736, 51234, 37654, 44444, 53210, 36173, 47121, 40123} {
		l, err := net.Listen("tcp", fmt.Sprintf("127.0.0.1:%d", p))
		if err != nil {
			continue
		}
		l.Close()
		return p
	}
	return 0
}
