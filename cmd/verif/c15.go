package main

import (
	"crypto/tls"
	"fmt"
	"github.com/hashicorp/go-hclog"
	"net"
	"sync"
	"sync/atomic"
	"time"

	"github.com/jimlambrt/gldap"

	"verif/internal/sber"
)

func init() {
	register(&Check{
		ID: "C15", Level: "exploration", Primary: "executions", EvalCount: "scenario_executions", RaceIsViolation: true,
		Rule: "a dedicated race-detector suite (GORACE halt_on_error=0, reports counted in the log files, de-duplicated by stack pair with line numbers stripped, attributed by the innermost non-runtime/non-stdlib frame of either access): " +
			"S1 pipelined concurrent handlers writing on one connection (plain/TLS/StartTLS, back-pressure); S2 parallel StartTLS upgrades with traffic before and after; S3 Run/Ready/Stop racing connect storms; " +
			"S4 connection teardown of every kind with handlers in flight; S5 the test directory (two of its entries nothing but a DN) served by 8 clients doing bind/search/add (with and without attributes)/modify/delete while the harness calls SetUsers/SetGroups/SetControls/SetTokenGroups/" +
			"SetAllowAnonymousBind and the getters; S6 the same without Set*; S7 StartTLS upgrades of 2..4 connections with one shared *tls.Config (in every other round one that spells out TLS 1.0/1.1 as its minimum version) followed by Stop with no traffic over the upgraded session; S8 a request pipelined ahead of StartTLS whose slow handler (60..160ms) answers after the upgrade - or, in half of the rounds, says nothing, and one more request follows inside the tunnel once it is done; S9 fresh servers whose very first requests are unrouted and arrive concurrently (one segment, several connections); S10 handlers that answer one request from several goroutines through their one ResponseWriter; S11 connections older than the server's write timeout that keep sending requests one by one while every response write fails. S5 also has a goroutine that only asks the directory for Port(), Host() and Cert() next to the Set* calls. Every third repetition of every scenario runs with Debug-level server loggers. Routes are registered before Run. Each scenario is repeated; a self-test race in harness code proves the detector is live. " +
			"distinct_nontrivial = distinct (scenario, repetition, GOMAXPROCS) executions that created concurrent gldap goroutines",
		Assume: []string{"the race detector generalises each observed execution to every execution with the same synchronisation structure, and says nothing about code the workloads did not run",
			"getter results are only len()-inspected by the harness: deep reads of shared entries after a getter are the caller's business"},
		Phases: func(tier string, seed int64) []Phase {
			ps := []Phase{{Name: "selftest", Race: true, Run: c15SelfTest}}
			procs := []string{"16"}
			if tier == "thorough" {
				procs = []string{"16", "4", "2"}
			}
			for _, p := range procs {
				for _, s := range []string{"S1-writers", "S2-starttls", "S3-stop-storms", "S4-teardown", "S5-directory-set", "S6-directory", "S7-starttls-then-stop", "S8-inflight-across-starttls", "S9-unrouted-first-requests", "S10-fan-out-handlers", "S11-requests-after-failed-writes"} {
					ps = append(ps, Phase{Name: s + "-p" + p, Race: true, Run: c15Scenario, Env: map[string]string{"GOMAXPROCS": p}, Arg: s})
				}
			}
			if tier == "thorough" {
				// the same scenarios under a second Go runtime/scheduler (built by ./check with go1.26.8 when present)
				for _, s := range []string{"S1-writers", "S2-starttls", "S3-stop-storms", "S4-teardown", "S5-directory-set", "S6-directory", "S7-starttls-then-stop", "S8-inflight-across-starttls", "S9-unrouted-first-requests", "S10-fan-out-handlers", "S11-requests-after-failed-writes"} {
					ps = append(ps, Phase{Name: s + "-go126", Race: true, Run: c15Scenario, Bin: "verif-race126", Env: map[string]string{"GOMAXPROCS": "16"}})
				}
			}
			return ps
		},
		MinObserved: []string{"scenario_executions", "S5_set_calls", "S5_address_and_certificate_accessor_calls", "S5_client_ops", "fan_out_handler_rounds", "rounds_of_requests_after_failed_writes", "fresh_servers_whose_first_requests_were_unrouted", "repetitions_with_debug_level_loggers", "starttls_upgrades_with_a_shared_config_that_sets_an_old_minimum_version", "token_group_searches_in_the_directory_scenarios", "requests_served_after_an_upgrade_that_had_a_request_in_flight"},
	})
}

var c15Racy int

// c15SelfTest races two harness goroutines on purpose: the report proves the detector is live.
func c15SelfTest(c *Ctx) {
	var wg sync.WaitGroup
	for i := 0; i < 2; i++ {
		wg.Add(1)
		go func() {
			defer wg.Done()
			for k := 0; k < 1000; k++ {
				c15Racy++
			}
		}()
	}
	wg.Wait()
	c.Count("selftest_runs", 1)
}

func c15Scenario(c *Ctx) {
	arg := c.Phase
	reps := c.N(3, 30)
	c.MuteViolations = true // functional oracles of the reused workloads are judged by their own checks
	pki := newPKI()
	for rep := 0; rep < reps; rep++ {
		r := c.Rng.Sub(fmt.Sprintf("rep%d", rep))
		// every third repetition runs with Debug-level server loggers
		harnessLogLevel = hclog.NoLevel
		if rep%3 == 2 {
			harnessLogLevel = hclog.Debug
			c.Count("repetitions_with_debug_level_loggers", 1)
		}
		switch {
		case hasPfx(arg, "S1-"):
			for _, tr := range []string{"plain", "tls", "starttls"} {
				c05One(c, pki, c05Cfg{N: 16, K: 4, Transport: tr, Slow: rep%2 == 1}, r.Sub(tr))
			}
		case hasPfx(arg, "S2-"):
			c13Timed(c, pki, c13Timing{rep % 3, (rep + 1) % 6, 0}, 8, rep)
		case hasPfx(arg, "S3-"):
			for i := 0; i < 40; i++ {
				c12One(c, r.Sub(fmt.Sprint(i)), 1000+i)
			}
			for _, f := range c12Tails {
				f()
			}
			c12Tails = nil
		case hasPfx(arg, "S4-"):
			c08RunWith(c, 10, 1)
		case hasPfx(arg, "S11-"):
			for round := 0; round < 3; round++ {
				c15AfterFailedWrites(c, round)
			}
		case hasPfx(arg, "S10-"):
			for round := 0; round < 4; round++ {
				c15FanOut(c, round)
			}
		case hasPfx(arg, "S9-"):
			for round := 0; round < 12; round++ {
				c15UnroutedFirst(c, round)
			}
		case hasPfx(arg, "S8-"):
			for round := 0; round < 6; round++ {
				c15InflightAcrossStartTLS(c, pki, round)
			}
		case hasPfx(arg, "S7-"):
			for round := 0; round < 8; round++ {
				c15StartTLSThenStop(c, pki, round)
			}
		case hasPfx(arg, "S5-"):
			c15Directory(c, r, true)
		case hasPfx(arg, "S6-"):
			c15Directory(c, r, false)
		}
		c.Count("scenario_executions", 1)
		c.Distinct("executions", fmt.Sprintf("%s/%d", arg, rep))
	}
	c.Sample(map[string]any{"scenario": arg, "repetitions": reps})
}

// c15AfterFailedWrites: a server with a write timeout and connections that are older than it: every response write
// fails (a fault the handlers see as an error), and the client goes on sending requests one after the other, with
// pauses and without reading - so that whatever a failed write leaves behind for the read loop is looked at by the
// read loop with no socket read of its own ordering the two.
func c15AfterFailedWrites(c *Ctx, round int) {
	srv, err := startSrv(SrvCfg{WriteTimeout: 150 * time.Millisecond}, func(m *gldap.Mux) {
		h := func(w *gldap.ResponseWriter, r *gldap.Request) {
			w.Write(r.NewBindResponse(gldap.WithResponseCode(0)))
		}
		m.Bind(h)
	})
	if err != nil {
		c.Inconclusive("server start: " + err.Error())
		return
	}
	var wg sync.WaitGroup
	for k := 0; k < 2+round; k++ {
		wg.Add(1)
		go func() {
			defer wg.Done()
			cn, err := net.Dial("tcp", srv.Addr)
			if err != nil {
				return
			}
			defer cn.Close()
			time.Sleep(250 * time.Millisecond) // the connection is now older than the write timeout
			for i := 0; i < 12; i++ {
				if _, err := cn.Write(sber.Message(int64(i+1), sber.BindRequest(3, []byte("cn=x"), []byte("p")), nil).Encode()); err != nil {
					return
				}
				time.Sleep(10 * time.Millisecond)
			}
		}()
	}
	wg.Wait()
	srv.StopWithin(patience)
	c.Count("rounds_of_requests_after_failed_writes", 1)
}

// c15FanOut: one handler answers its request from several goroutines through the one ResponseWriter it was given
// (a search that fans out to back ends); several such requests are pipelined on a connection, several connections run.
func c15FanOut(c *Ctx, round int) {
	srv, err := startSrv(SrvCfg{}, func(m *gldap.Mux) {
		m.Search(func(w *gldap.ResponseWriter, r *gldap.Request) {
			var wg sync.WaitGroup
			for g := 0; g < 4; g++ {
				wg.Add(1)
				go func(g int) {
					defer wg.Done()
					for i := 0; i < 6; i++ {
						e := r.NewSearchResponseEntry(fmt.Sprintf("cn=e%d-%d", g, i))
						e.AddAttribute("a", []string{"v"})
						w.Write(e)
					}
				}(g)
			}
			wg.Wait()
			w.Write(r.NewSearchDoneResponse(gldap.WithResponseCode(0)))
		})
	})
	if err != nil {
		c.Inconclusive("server start: " + err.Error())
		return
	}
	var wg sync.WaitGroup
	for k := 0; k < 2+round%2; k++ {
		wg.Add(1)
		go func() {
			defer wg.Done()
			cn, err := net.Dial("tcp", srv.Addr)
			if err != nil {
				return
			}
			defer cn.Close()
			var buf []byte
			for i := 0; i < 3; i++ {
				buf = append(buf, sber.Message(int64(i+1), sber.Search{Base: []byte("dc=x"), Scope: 2, Filter: sber.PresentFilter("cn"), Attrs: [][]byte{}}.Node(), nil).Encode()...)
			}
			cn.Write(buf)
			cl := wrapClient(cn)
			for dones := 0; dones < 3; {
				m, err := cl.ReadMsg(10 * time.Second)
				if err != nil {
					break
				}
				if m.Op.Tag == sber.AppSearchResultDone {
					dones++
				}
			}
		}()
	}
	wg.Wait()
	srv.StopWithin(patience)
	c.Count("fan_out_handler_rounds", 1)
}

// c15UnroutedFirst: the very first requests a fresh server ever sees have no route (no default route either) and are
// dispatched concurrently - several in one segment on one connection, and on several connections at once: whatever the
// mux sets up lazily for them is set up under concurrency.
func c15UnroutedFirst(c *Ctx, round int) {
	srv, err := startSrv(SrvCfg{}, func(m *gldap.Mux) {
		if round%2 == 1 {
			m.Bind(func(w *gldap.ResponseWriter, r *gldap.Request) { w.Write(r.NewBindResponse(gldap.WithResponseCode(0))) })
		}
	})
	if err != nil {
		c.Inconclusive("server start: " + err.Error())
		return
	}
	var buf []byte
	for i := 0; i < 8; i++ {
		var op *sber.Node
		switch i % 4 {
		case 0:
			op = sber.Search{Base: []byte("dc=x"), Scope: 2, Filter: sber.PresentFilter("cn"), Attrs: [][]byte{}}.Node()
		case 1:
			op = sber.DelRequest([]byte("cn=x"))
		case 2:
			op = sber.ExtendedRequest([]byte("1.2.3.4"), nil, false)
		default:
			op = sber.AddRequest([]byte("cn=x"), nil)
		}
		buf = append(buf, sber.Message(int64(i+1), op, nil).Encode()...)
	}
	var wg sync.WaitGroup
	for k := 0; k < 1+round%3; k++ {
		wg.Add(1)
		go func() {
			defer wg.Done()
			cn, err := net.Dial("tcp", srv.Addr)
			if err != nil {
				return
			}
			defer cn.Close()
			cn.Write(buf)
			cl := wrapClient(cn)
			for i := 0; i < 8; i++ {
				if _, err := cl.ReadMsg(5 * time.Second); err != nil {
					break
				}
			}
		}()
	}
	wg.Wait()
	srv.StopWithin(patience)
	c.Count("fresh_servers_whose_first_requests_were_unrouted", 1)
}

// c15StartTLSThenStop: connections are upgraded with StartTLS and then the server is stopped WITHOUT any traffic over
// the upgraded session (socket I/O after the upgrade would order the upgrade before Stop and hide a race between them).
func c15StartTLSThenStop(c *Ctx, pki *PKI, round int) {
	// the handler hands the same *tls.Config to every upgrade; in even rounds it is one that spells out an old minimum
	// protocol version (an application's business)
	shared := pki.ServerOnly
	if round%2 == 0 {
		shared = pki.ServerOnly.Clone()
		shared.MinVersion = []uint16{tls.VersionTLS10, tls.VersionTLS11}[(round/2)%2]
	}
	srv, err := startSrv(SrvCfg{}, func(m *gldap.Mux) {
		m.ExtendedOperation(func(w *gldap.ResponseWriter, r *gldap.Request) {
			w.Write(r.NewExtendedResponse(gldap.WithResponseCode(0)))
			if r.StartTLS(shared) == nil && shared != pki.ServerOnly {
				c.Count("starttls_upgrades_with_a_shared_config_that_sets_an_old_minimum_version", 1)
			}
		}, gldap.ExtendedOperationStartTLS)
	})
	if err != nil {
		c.Inconclusive("server start: " + err.Error())
		return
	}
	// all connections ask for the upgrade at the same moment (the requests go out before any answer is read): socket
	// I/O orders nothing between the upgrades of different connections then
	var conns []net.Conn
	for i := 0; i < 2+round%3; i++ {
		cn, err := net.Dial("tcp", srv.Addr)
		if err != nil {
			continue
		}
		conns = append(conns, cn)
	}
	for _, cn := range conns {
		cn.Write(sber.Message(1, sber.ExtendedRequest([]byte(sber.OIDStartTLS), nil, false), nil).Encode())
	}
	var hs sync.WaitGroup
	for _, cn := range conns {
		hs.Add(1)
		go func(cn net.Conn) {
			defer hs.Done()
			if _, err := wrapClient(cn).ReadMsg(patience); err != nil {
				return
			}
			tc := tls.Client(cn, pki.ClientPlain)
			cn.SetDeadline(time.Now().Add(patience))
			tc.Handshake()
			cn.SetDeadline(time.Time{})
		}(cn)
	}
	hs.Wait()
	if round%2 == 1 {
		time.Sleep(50 * time.Millisecond)
	}
	srv.StopWithin(patience)
	for _, cn := range conns {
		cn.Close()
	}
}

// c15InflightAcrossStartTLS: a request pipelined AHEAD of the StartTLS request is still in its (slow) handler when the
// upgrade happens and writes its response afterwards; nothing else is written in between (another response would
// order the two through the writer lock).
func c15InflightAcrossStartTLS(c *Ctx, pki *PKI, round int) {
	cfg := SrvCfg{}
	if round%2 == 1 {
		// with read and write timeouts configured (whatever the server does about them per response or per request
		// happens next to the upgrade, too)
		cfg = SrvCfg{WriteTimeout: 20 * time.Second, ReadTimeout: 20 * time.Second}
	}
	srv, err := startSrv(cfg, func(m *gldap.Mux) {
		m.Delete(func(w *gldap.ResponseWriter, r *gldap.Request) {
			dm, _ := r.GetDeleteMessage()
			if dm != nil && dm.DN == "cn=slow" {
				time.Sleep(time.Duration(60+20*round) * time.Millisecond)
				if round >= 3 {
					return // in the later rounds the slow handler says nothing (the tunnel stays usable)
				}
			}
			w.Write(r.NewResponse(gldap.WithApplicationCode(gldap.ApplicationDelResponse), gldap.WithResponseCode(0)))
		})
		m.ExtendedOperation(func(w *gldap.ResponseWriter, r *gldap.Request) {
			w.Write(r.NewExtendedResponse(gldap.WithResponseCode(0)))
			r.StartTLS(pki.ServerOnly)
		}, gldap.ExtendedOperationStartTLS)
	})
	if err != nil {
		c.Inconclusive("server start: " + err.Error())
		return
	}
	defer srv.StopWithin(patience)
	cn, err := net.Dial("tcp", srv.Addr)
	if err != nil {
		return
	}
	defer cn.Close()
	buf := sber.Message(1, sber.DelRequest([]byte("cn=slow")), nil).Encode()
	buf = append(buf, sber.Message(2, sber.ExtendedRequest([]byte(sber.OIDStartTLS), nil, false), nil).Encode()...)
	cn.Write(buf)
	if m, err := wrapClient(cn).ReadMsg(patience); err != nil || m.ID != 2 {
		return
	}
	tc := tls.Client(cn, pki.ClientPlain)
	cn.SetDeadline(time.Now().Add(5 * time.Second))
	if tc.Handshake() != nil {
		return
	}
	// in the first rounds the slow handler answers after the upgrade (through the writer it was given before it: the
	// client's view of the stream is not judged here) and the client just waits
	time.Sleep(time.Duration(150+20*round) * time.Millisecond)
	if round < 3 {
		return
	}
	// in the later rounds it has said nothing, and the session goes on: one more request, the first one the read loop
	// takes up after the earlier handler is done
	tcl := wrapClient(tc)
	tcl.Send(sber.Message(3, sber.DelRequest([]byte("cn=after-the-upgrade")), nil).Encode())
	if _, err := tcl.ReadMsg(2 * time.Second); err == nil {
		c.Count("requests_served_after_an_upgrade_that_had_a_request_in_flight", 1)
	}
}

func hasPfx(s, p string) bool { return len(s) >= len(p) && s[:len(p)] == p }

// c15Directory: the test directory under concurrent clients, with or without Set*/getters from the harness.
func c15Directory(c *Ctx, r *Rand, withSet bool) {
	td, addr, err := startDirectory("plain")
	if err != nil {
		c.Inconclusive(err.Error())
		return
	}
	defer td.Stop()
	mkUsers := func(rr *Rand) []*gldap.Entry {
		var out []*gldap.Entry
		for i := 0; i < 6; i++ {
			out = append(out, gldap.NewEntry(c20UserDN(i), map[string][]string{"cn": {fmt.Sprint(i)}, "password": {"pw"}, "mail": {fmt.Sprintf("m%d", rr.Intn(100))}}))
		}
		// ... and two entries that are nothing but a DN (no attribute list at all)
		out = append(out, &gldap.Entry{DN: c20UserDN(6)}, &gldap.Entry{DN: c20UserDN(7)})
		return out
	}
	mkGroups := func() []*gldap.Entry {
		return []*gldap.Entry{gldap.NewEntry(c20GroupDN(0), map[string][]string{"member": {c20UserDN(0)}}), gldap.NewEntry(c20GroupDN(1), map[string][]string{"member": {c20UserDN(1)}})}
	}
	td.SetUsers(mkUsers(r)...)
	td.SetGroups(mkGroups()...)
	var stop atomic.Bool
	var wg sync.WaitGroup
	for k := 0; k < 8; k++ {
		wg.Add(1)
		go func(k int, rr *Rand) {
			defer wg.Done()
			cl, err := dirDial(addr, "plain")
			if err != nil {
				return
			}
			defer cl.Close()
			kc := &c20Client{cl: cl}
			for i := 0; i < 120 && !stop.Load(); i++ {
				dn := c20UserDN(rr.Intn(8))
				var err error
				switch rr.Intn(10) {
				case 9: // a token-groups search (base <SID=...>), served from the map SetTokenGroups replaces
					_, _, err = kc.roundTrip(sber.Search{Base: []byte("<SID=S-1-1>"), Scope: 0, Filter: sber.PresentFilter("objectClass"), Attrs: [][]byte{}}.Node(), sber.AppSearchResultDone)
					c.Count("token_group_searches_in_the_directory_scenarios", 1)
				case 7: // anonymous binds: decided by the directory's flag alone
					_, _, err = kc.roundTrip(sber.BindRequest(3, nil, nil), sber.AppBindResponse)
				case 8:
					_, _, err = kc.roundTrip(sber.BindRequest(3, []byte(dn), nil), sber.AppBindResponse)
				case 0:
					_, _, err = kc.roundTrip(sber.BindRequest(3, []byte(dn), []byte("pw")), sber.AppBindResponse)
				case 1:
					_, _, err = kc.roundTrip(sber.Search{Base: []byte(c20People), Scope: 2, Filter: sber.EqFilter("cn", "u"), Attrs: [][]byte{}}.Node(), sber.AppSearchResultDone)
				case 2:
					_, _, err = kc.roundTrip(sber.Search{Base: []byte(c20Groups), Scope: 2, Filter: sber.EqFilter("cn", "g"), Attrs: [][]byte{}}.Node(), sber.AppSearchResultDone)
				case 3:
					_, _, err = kc.roundTrip(sber.Search{Base: []byte(dn), Scope: 0, Filter: sber.PresentFilter("objectClass"), Attrs: [][]byte{}}.Node(), sber.AppSearchResultDone)
				case 4:
					attrs := []sber.Attr{{Type: []byte("mail"), Vals: [][]byte{[]byte("a")}}}
					if rr.Chance(40) {
						attrs = nil // an entry without attributes
					}
					_, _, err = kc.roundTrip(sber.AddRequest([]byte(dn), attrs), sber.AppAddResponse)
				case 5:
					_, _, err = kc.roundTrip(sber.ModifyRequest([]byte(dn), []sber.Change{{Op: int64(rr.Intn(3)), Attr: sber.Attr{Type: []byte("mail"), Vals: [][]byte{[]byte("b")}}}}), sber.AppModifyResponse)
				case 6:
					_, _, err = kc.roundTrip(sber.DelRequest([]byte(dn)), sber.AppDelResponse)
				}
				if err != nil {
					return
				}
				c.Count("S5_client_ops", 1)
			}
		}(k, r.Sub(fmt.Sprintf("cl%d", k)))
	}
	if withSet {
		wg.Add(1)
		go func() {
			defer wg.Done()
			rr := r.Sub("set")
			for i := 0; i < 150; i++ {
				switch i % 10 {
				case 0:
					td.SetUsers(mkUsers(rr)...)
				case 1:
					td.SetGroups(mkGroups()...)
				case 2:
					ctl, _ := gldap.NewControlString("1.2.3", gldap.WithControlValue("v"))
					td.SetControls(ctl)
				case 3:
					td.SetTokenGroups(map[string][]*gldap.Entry{"S-1-1": mkGroups()})
				case 4:
					td.SetAllowAnonymousBind(i%20 == 4)
				case 5:
					_ = len(td.Users())
				case 6:
					_ = len(td.Groups())
				case 7:
					_ = len(td.Controls())
				case 8:
					_ = len(td.TokenGroups())
				case 9:
					_ = td.AllowAnonymousBind()
				}
				c.Count("S5_set_calls", 1)
				time.Sleep(200 * time.Microsecond)
			}
		}()
		// ... and a third party that only asks the directory where it listens (what a test does before every dial)
		wg.Add(1)
		go func() {
			defer wg.Done()
			for i := 0; i < 150; i++ {
				switch i % 3 {
				case 0:
					_ = td.Port()
				case 1:
					_ = td.Host()
				case 2:
					_ = len(td.Cert())
				}
				c.Count("S5_address_and_certificate_accessor_calls", 1)
				time.Sleep(200 * time.Microsecond)
			}
		}()
	} else {
		c.Count("S5_set_calls", 0)
	}
	wg.Wait()
	stop.Store(true)
}
