package main

import (
	"crypto/tls"
	"fmt"
	"io"
	"net"
	"runtime"
	"strings"
	"sync"
	"sync/atomic"
	"time"

	"github.com/jimlambrt/gldap"

	"verif/internal/sber"
)

func init() {
	register(&Check{
		ID: "C08", Level: "exploration", Primary: "cells", EvalCount: "connections_checked",
		Rule: "matrix: connection endings {client FIN, client RST, Unbind, malformed frame, unsupported operation, mid-frame disconnect, read-timeout expiry, recovered panic in an inline (unbind-route) handler, " +
			"recovered panic in a request-goroutine handler followed by FIN, Unbind whose Unbind-route handler is itself slow to return (recorded as a handler of the connection), server Stop} x in-flight states {no handler, k handlers parked on a harness gate (with distinct message IDs, all with the same one, and parked only after they have sent their final response), handlers writing large responses, slow requests sent in the same write as the ending (dispatched just before the connection ends), the inline StartTLS handler blocked in a handshake the client never completes (plain transport; endings FIN, RST, read timeout, Stop), the same with two handlers of earlier requests parked, two handlers parked BEFORE a StartTLS upgrade that succeeds (endings FIN, RST, Stop), a parked handler next to one that writes a large response nobody reads (ending Stop; the client probes the server's socket by writing, seconds later), 4 handlers parked behind 66 that were dispatched before them and have returned (endings FIN, Unbind, Stop, RST), a parked handler next to one that left its goroutine with runtime.Goexit after answering (endings FIN, Unbind, Stop)} x transports {plain, TLS listener, " +
			"StartTLS-upgraded}; every connection first makes one verified round trip (this maps the client socket to its ConnectionID). For endings where the client stays connected the gate is opened only after the " +
			"client has watched its socket for a grace period: an EOF seen before the release is a certain violation. Offline oracle over the event log per connection ID: exactly one OnClose, stamped after " +
			"the exit of every handler of that connection; at quiescence no goroutine with a gldap frame and no socket descriptor remain. distinct_nontrivial = distinct (ending, in-flight, transport) cells exercised",
		Assume: []string{"handler enter/exit and OnClose events carry stamps from one process-wide atomic counter taken at the moment they happen"},
		Phases: func(tier string, seed int64) []Phase {
			return []Phase{{Name: "matrix", Run: c08Run}}
		},
		MinObserved: []string{"connections_checked", "endings_with_handlers_parked_behind_more_than_64_that_returned", "endings_after_a_handler_left_its_goroutine_by_goexit", "onclose_events", "handler_exits_recorded", "eof_withheld_until_release_observed", "just_dispatched_endings_checked", "endings_with_a_starttls_handshake_pending", "connections_closed_while_another_connection_waits_for_its_handler", "connections_with_failed_writes_next_to_a_parked_handler", "tls_connections_ended_before_the_handshake", "endings_with_parked_handlers_and_a_starttls_handshake_pending", "endings_of_connections_upgraded_while_handlers_were_parked", "stop_endings_on_a_server_without_panic_recovery", "stop_endings_with_a_parked_handler_next_to_a_writer_nobody_reads", "unbind_endings_whose_unbind_route_handler_takes_its_time"},
	})
}

type c08HEv struct{ Enter, Exit int64 }

type c08Track struct {
	mu       sync.Mutex
	tag      string
	connID   int
	handlers []*c08HEv
	entered  atomic.Int64
	gate     chan struct{}
	early    chan struct{} // a second gate, opened before the ending ("parkearly" handlers)
	exited   atomic.Int64  // handlers that have run to their end
}

type c08World struct {
	writeEntries int // entries written by a "writing" handler (default 150)
	mu           sync.Mutex
	byTag        map[string]*c08Track
	panicUnbind  sync.Map // connID -> true
	slowUnbind   sync.Map // connID -> *c08Track: the Unbind-route handler of that connection records itself and takes its time
	pki          *PKI
}

func (wd *c08World) track(tag string) *c08Track {
	wd.mu.Lock()
	defer wd.mu.Unlock()
	t := wd.byTag[tag]
	if t == nil {
		t = &c08Track{tag: tag, gate: make(chan struct{}), early: make(chan struct{})}
		wd.byTag[tag] = t
	}
	return t
}

func (wd *c08World) register(m *gldap.Mux) {
	blob := strings.Repeat("z", 70000)
	m.Search(func(w *gldap.ResponseWriter, r *gldap.Request) {
		s, _ := r.GetSearchMessage()
		parts := strings.SplitN(s.BaseDN, ";", 2)
		if len(parts) != 2 {
			return
		}
		t := wd.track(parts[0])
		ev := &c08HEv{Enter: nextSeq()}
		t.mu.Lock()
		t.connID = r.ConnectionID()
		t.handlers = append(t.handlers, ev)
		t.mu.Unlock()
		t.entered.Add(1)
		switch parts[1] {
		case "parkdone":
			// the request is answered in full, and THEN its handler stays around (it is still a handler of this connection)
			w.Write(r.NewSearchDoneResponse(gldap.WithResponseCode(0)))
			<-t.gate
			ev.Exit = nextSeq()
			return
		case "park":
			<-t.gate
		case "parkearly":
			<-t.early
		case "goexit":
			// the handler ends its goroutine without returning (what t.FailNow and require.* do in a test double's
			// handler): it has ended all the same
			w.Write(r.NewSearchDoneResponse(gldap.WithResponseCode(0)))
			ev.Exit = nextSeq()
			runtime.Goexit()
		case "slow":
			time.Sleep(60 * time.Millisecond)
		case "write":
			n := wd.writeEntries
			if n == 0 {
				n = 150
			}
			for i := 0; i < n; i++ {
				e := r.NewSearchResponseEntry("cn=e")
				e.AddAttribute("b", []string{blob})
				if w.Write(e) != nil {
					break
				}
			}
		case "stream":
			// as much as the client will take (it takes nothing: this handler ends when its write fails)
			for {
				e := r.NewSearchResponseEntry("cn=e")
				e.AddAttribute("b", []string{blob})
				if w.Write(e) != nil {
					break
				}
			}
		case "panic":
			ev.Exit = nextSeq()
			panic("injected handler panic (C08)")
		}
		w.Write(r.NewSearchDoneResponse(gldap.WithResponseCode(0)))
		ev.Exit = nextSeq()
		t.exited.Add(1)
	})
	m.ExtendedOperation(func(w *gldap.ResponseWriter, r *gldap.Request) {
		w.Write(r.NewExtendedResponse(gldap.WithResponseCode(0)))
		r.StartTLS(wd.pki.ServerOnly)
	}, gldap.ExtendedOperationStartTLS)
	m.Unbind(func(w *gldap.ResponseWriter, r *gldap.Request) {
		if _, ok := wd.panicUnbind.LoadAndDelete(r.ConnectionID()); ok {
			panic("injected inline handler panic (C08)")
		}
		if v, ok := wd.slowUnbind.LoadAndDelete(r.ConnectionID()); ok {
			// the Unbind-route handler is a handler of this connection like any other: it is recorded, and it has not
			// returned yet when the read loop has nothing more to read
			t := v.(*c08Track)
			ev := &c08HEv{Enter: nextSeq()}
			t.mu.Lock()
			t.handlers = append(t.handlers, ev)
			t.mu.Unlock()
			time.Sleep(40 * time.Millisecond)
			t.mu.Lock()
			ev.Exit = nextSeq()
			t.mu.Unlock()
		}
	})
}

var c08Endings = []string{"fin", "rst", "unbind", "malformed", "unsupported", "midframe", "readtimeout", "panic-inline", "panic-goroutine+fin", "stop"}
var c08Inflight = []string{"none", "parked", "parked-same-id", "parked-after-answering", "writing", "just-dispatched"}
var c08Transports = []string{"plain", "tls", "starttls"}

type c08Cell struct{ Ending, Inflight, Transport string }

func c08Search(id int64, base string) []byte {
	return sber.Message(id, sber.Search{Base: []byte(base), Scope: 2, Filter: sber.PresentFilter("cn"), Attrs: [][]byte{}}.Node(), nil).Encode()
}

var c08TagCtr atomic.Int64

// c08Connect opens a client connection over the transport.
func c08Connect(wd *c08World, addr, transport string) (net.Conn, error) {
	switch transport {
	case "tls":
		return tls.Dial("tcp", addr, wd.pki.ClientPlain)
	case "starttls":
		cn, err := net.Dial("tcp", addr)
		if err != nil {
			return nil, err
		}
		cn.Write(sber.Message(1, sber.ExtendedRequest([]byte(sber.OIDStartTLS), nil, false), nil).Encode())
		if _, err := wrapClient(cn).ReadMsg(patience); err != nil {
			return nil, err
		}
		tc := tls.Client(cn, wd.pki.ClientPlain)
		cn.SetDeadline(time.Now().Add(patience))
		if err := tc.Handshake(); err != nil {
			return nil, err
		}
		cn.SetDeadline(time.Time{})
		return tc, nil
	}
	return net.Dial("tcp", addr)
}

func closeWrite(cn net.Conn) {
	switch t := cn.(type) {
	case *net.TCPConn:
		t.CloseWrite()
	case *tls.Conn:
		t.CloseWrite()
	}
}

func hardReset(cn net.Conn) {
	switch t := cn.(type) {
	case *net.TCPConn:
		t.SetLinger(0)
	case *tls.Conn:
		if tc, ok := t.NetConn().(*net.TCPConn); ok {
			tc.SetLinger(0)
			tc.Close()
			return
		}
	}
	cn.Close()
}

// c08OneCell runs one connection through one matrix cell and judges it.
func c08OneCell(c *Ctx, wd *c08World, srv *Srv, cell c08Cell, stopper func()) {
	t00 := time.Now()
	defer func() {
		if d := time.Since(t00); d > 5*time.Second {
			c.Logf("slow cell %v: %s", cell, d)
		}
	}()
	det := map[string]any{"cell": cell}
	tag := fmt.Sprintf("t%d", c08TagCtr.Add(1))
	cn, err := c08Connect(wd, srv.Addr, cell.Transport)
	if err != nil {
		c.Inconclusive(fmt.Sprintf("connect %v: %v", cell, err))
		return
	}
	defer cn.Close()
	cl := wrapClient(cn)
	t := wd.track(tag)
	// 1. verified round trip: maps this socket to its ConnectionID
	cl.Send(c08Search(2, tag+";quick"))
	if m, err := cl.ReadMsg(patience); err != nil || m.ID != 2 {
		c.Inconclusive(fmt.Sprintf("first round trip %v: %v", cell, err))
		return
	}
	// 2. in-flight state
	k := 0
	switch cell.Inflight {
	case "parked":
		k = 3
		for i := 0; i < k; i++ {
			cl.Send(c08Search(int64(10+i), tag+";park"))
		}
	case "parked-same-id":
		// the client reuses one message ID for all its in-flight requests (its business): they are all handlers of
		// this connection just the same
		k = 3
		for i := 0; i < k; i++ {
			cl.Send(c08Search(10, tag+";park"))
		}
	case "parked-after-answering":
		k = 2
		for i := 0; i < k; i++ {
			cl.Send(c08Search(int64(10+i), tag+";parkdone"))
		}
	case "writing":
		k = 2
		for i := 0; i < k; i++ {
			cl.Send(c08Search(int64(10+i), tag+";write"))
		}
	case "parked-behind-many-that-returned":
		// 66 handlers that return before the ending, 4 more (dispatched after them) that stay parked: more requests in
		// flight at once than any fixed-size bookkeeping of 64 would hold
		k = 70
		for i := 0; i < 66; i++ {
			cl.Send(c08Search(int64(10+i), tag+";parkearly"))
		}
		for i := 66; i < k; i++ {
			cl.Send(c08Search(int64(10+i), tag+";park"))
		}
		for dl := time.Now().Add(patience); t.entered.Load() < int64(1+k) && time.Now().Before(dl); {
			time.Sleep(100 * time.Microsecond)
		}
		close(t.early)
		for dl := time.Now().Add(patience); t.exited.Load() < 67 && time.Now().Before(dl); {
			time.Sleep(200 * time.Microsecond)
		}
		c.Count("endings_with_handlers_parked_behind_more_than_64_that_returned", 1)
	case "left-by-goexit":
		k = 2
		cl.Send(c08Search(10, tag+";goexit"))
		cl.Send(c08Search(11, tag+";park"))
		c.Count("endings_after_a_handler_left_its_goroutine_by_goexit", 1)
	case "parked+writer-not-read":
		// one handler parked on the gate, another one writing a large response that the client does not read
		k = 2
		cl.Send(c08Search(10, tag+";park"))
		cl.Send(c08Search(11, tag+";stream"))
		// the writer fills the socket buffers and comes to rest inside a write before the connection ends
		time.Sleep(800 * time.Millisecond)
		c.Count("stop_endings_with_a_parked_handler_next_to_a_writer_nobody_reads", 1)
	case "parked-across-upgrade":
		// handlers of earlier requests are parked, THEN the connection is upgraded with StartTLS (the handshake
		// succeeds): they are handlers of this connection before and after
		k = 2
		for i := 0; i < k; i++ {
			cl.Send(c08Search(int64(10+i), tag+";park"))
		}
		for dl := time.Now().Add(patience); t.entered.Load() < int64(1+k) && time.Now().Before(dl); {
			time.Sleep(100 * time.Microsecond)
		}
		cl.Send(sber.Message(20, sber.ExtendedRequest([]byte(sber.OIDStartTLS), nil, false), nil).Encode())
		if m, err := cl.ReadMsg(patience); err != nil || m.ID != 20 {
			c.Inconclusive(fmt.Sprintf("%v: no StartTLS response: %v", cell, err))
			close(t.gate)
			return
		}
		tc := tls.Client(cn, wd.pki.ClientPlain)
		cn.SetDeadline(time.Now().Add(patience))
		if err := tc.Handshake(); err != nil {
			c.Inconclusive(fmt.Sprintf("%v: handshake: %v", cell, err))
			close(t.gate)
			return
		}
		cn.SetDeadline(time.Time{})
		c.Count("endings_of_connections_upgraded_while_handlers_were_parked", 1)
	case "parked+handshake-pending":
		// handlers of earlier requests are parked AND the inline StartTLS handler sits in a handshake the client never
		// completes: whatever ends that handshake must not end the connection under the parked handlers
		k = 2
		for i := 0; i < k; i++ {
			cl.Send(c08Search(int64(10+i), tag+";park"))
		}
		for dl := time.Now().Add(patience); t.entered.Load() < int64(1+k) && time.Now().Before(dl); {
			time.Sleep(100 * time.Microsecond)
		}
		cl.Send(sber.Message(20, sber.ExtendedRequest([]byte(sber.OIDStartTLS), nil, false), nil).Encode())
		if m, err := cl.ReadMsg(patience); err != nil || m.ID != 20 {
			c.Inconclusive(fmt.Sprintf("%v: no StartTLS response: %v", cell, err))
			close(t.gate)
			return
		}
		if c08TagCtr.Load()%2 == 0 {
			cl.Send([]byte{0x16, 0x03, 0x01, 0x02, 0x00, 0x01, 0x00})
		}
		time.Sleep(2 * time.Millisecond)
		c.Count("endings_with_parked_handlers_and_a_starttls_handshake_pending", 1)
	case "handshake-pending":
		// the inline StartTLS handler is blocked in the TLS handshake: the client took the success response and then
		// sends nothing (or only the first bytes of a ClientHello)
		cl.Send(sber.Message(20, sber.ExtendedRequest([]byte(sber.OIDStartTLS), nil, false), nil).Encode())
		if m, err := cl.ReadMsg(patience); err != nil || m.ID != 20 {
			c.Inconclusive(fmt.Sprintf("%v: no StartTLS response: %v", cell, err))
			return
		}
		if c08TagCtr.Load()%2 == 0 {
			cl.Send([]byte{0x16, 0x03, 0x01, 0x02, 0x00, 0x01, 0x00})
		}
		time.Sleep(2 * time.Millisecond) // the handler is inside Handshake (or about to be: both are states to end in)
		c.Count("endings_with_a_starttls_handshake_pending", 1)
	}
	// just-dispatched: slow requests and the ending leave in ONE write (same segment); the connection ends
	// while the request goroutines may not even have started
	var pre []byte
	just := cell.Inflight == "just-dispatched"
	if just {
		k = 2
		for i := 0; i < k; i++ {
			pre = append(pre, c08Search(int64(10+i), tag+";slow")...)
		}
	}
	for dl := time.Now().Add(patience); !just && t.entered.Load() < int64(1+k) && time.Now().Before(dl); {
		time.Sleep(100 * time.Microsecond)
	}
	if !just && t.entered.Load() < int64(1+k) {
		c.Inconclusive(fmt.Sprintf("%v: in-flight handlers did not start", cell))
		close(t.gate)
		return
	}
	t.mu.Lock()
	connID := t.connID
	t.mu.Unlock()
	// 3. the ending
	clientStays := true
	switch cell.Ending {
	case "fin":
		if just {
			cl.Send(pre)
		}
		closeWrite(cn)
	case "rst":
		if just {
			cl.Send(pre)
			time.Sleep(time.Millisecond) // let the frames reach the server before the reset discards them
		}
		hardReset(cn)
		clientStays = false
	case "unbind":
		cl.Send(append(pre, sber.Message(90, sber.UnbindRequest(), nil).Encode()...))
	case "malformed":
		cl.Send(append(pre, 0x30, 0x03, 0x02, 0x01, 0x01, 0xff, 0xff))
	case "unsupported":
		cl.Send(append(pre, sber.Message(91, sber.Cons(sber.Application, 14, sber.Str("cn=a"), sber.Seq(sber.Str("a"), sber.Str("b"))), nil).Encode()...))
	case "midframe":
		f := c08Search(92, tag+";quick")
		cl.Send(append(pre, f[:len(f)/2]...))
		closeWrite(cn)
	case "readtimeout":
		// the server's absolute read deadline expires on its own
		if just {
			cl.Send(pre)
		}
	case "panic-inline":
		wd.panicUnbind.Store(connID, true)
		cl.Send(append(pre, sber.Message(93, sber.UnbindRequest(), nil).Encode()...))
	case "unbind-slow-handler":
		wd.slowUnbind.Store(connID, t)
		cl.Send(append(pre, sber.Message(95, sber.UnbindRequest(), nil).Encode()...))
		c.Count("unbind_endings_whose_unbind_route_handler_takes_its_time", 1)
	case "panic-goroutine+fin":
		cl.Send(append(pre, c08Search(94, tag+";panic")...))
		for dl := time.Now().Add(patience); t.entered.Load() < int64(2+k) && time.Now().Before(dl); {
			time.Sleep(100 * time.Microsecond)
		}
		closeWrite(cn)
	case "stop":
		if just {
			cl.Send(pre)
		}
		stopper()
	}
	triggerSeq := nextSeq()
	// 4. watch the socket; the gate opens only after the grace period
	var releaseSeq int64
	eofBeforeRelease := false
	if clientStays && cell.Inflight == "parked+writer-not-read" {
		// the client reads nothing until well after any grace period (the unread writer's write has failed by then); what
		// it reads afterwards - see below - is what was queued for it, and no end of the connection: the parked handler
		// is still running
		time.Sleep(time.Duration(c.N(2200, 4000)) * time.Millisecond)
	}
	if clientStays && (cell.Inflight == "parked" || cell.Inflight == "parked-behind-many-that-returned" || cell.Inflight == "left-by-goexit" || cell.Inflight == "parked-same-id" || cell.Inflight == "parked-after-answering" || cell.Inflight == "parked+handshake-pending" || cell.Inflight == "parked-across-upgrade" || cell.Inflight == "parked+writer-not-read") {
		watch := 150 * time.Millisecond
		if cell.Ending == "stop" {
			// a server-initiated ending: hold the handlers well beyond any plausible internal grace period
			watch = time.Duration(c.N(3500, 12000)) * time.Millisecond
		}
		cn.SetReadDeadline(time.Now().Add(watch))
		buf := make([]byte, 4096)
		for {
			_, err := cn.Read(buf)
			if err == nil {
				continue
			}
			if !isTimeout(err) {
				eofBeforeRelease = true
			}
			break
		}
		if !eofBeforeRelease {
			c.Count("eof_withheld_until_release_observed", 1)
		}
	}
	releaseSeq = nextSeq()
	close(t.gate)
	gotEOF := false
	if clientStays {
		cn.SetReadDeadline(time.Now().Add(patience))
		buf := make([]byte, 64<<10)
		for {
			_, err := cn.Read(buf)
			if err == nil {
				continue
			}
			gotEOF = !isTimeout(err)
			break
		}
	}
	eofSeq := nextSeq()
	if just {
		// the request goroutines were possibly not even scheduled when the connection ended: give them time to show up
		wait := patience
		if cell.Ending == "rst" || cell.Ending == "stop" {
			wait = time.Second // a reset (or a Stop) may come before the server has read the frames: they never show up
		}
		for dl := time.Now().Add(wait); t.entered.Load() < int64(1+k) && time.Now().Before(dl); {
			time.Sleep(200 * time.Microsecond)
		}
		if (cell.Ending == "rst" || cell.Ending == "stop") && t.entered.Load() < int64(1+k) {
			k = int(t.entered.Load()) - 1 // the reset may have discarded unread frames
		}
		time.Sleep(80 * time.Millisecond) // slow handlers (60ms) finish
	}
	// 5. wait for this connection's OnClose (patience), then judge
	var mine []closeEv
	for dl := time.Now().Add(patience); time.Now().Before(dl); time.Sleep(300 * time.Microsecond) {
		mine = mine[:0]
		for _, ev := range srv.Closes() {
			if ev.ID == connID {
				mine = append(mine, ev)
			}
		}
		if len(mine) > 0 {
			break
		}
	}
	time.Sleep(2 * time.Millisecond) // a duplicate OnClose would follow closely
	mine = mine[:0]
	for _, ev := range srv.Closes() {
		if ev.ID == connID {
			mine = append(mine, ev)
		}
	}
	c.Count("connections_checked", 1)
	c.Distinct("cells", cell.Ending+"/"+cell.Inflight+"/"+cell.Transport)
	c.Count("cells/"+cell.Ending, 1)
	if eofBeforeRelease {
		c.Violate("socket closed before the connection's handlers returned", fmt.Sprintf("%v: the client saw EOF/RST while %d handlers were still parked (before the gate was opened)", cell, k), det)
	}
	if clientStays && !gotEOF {
		c.Violate("server did not close the socket after the connection ended", fmt.Sprintf("%v: no EOF within patience", cell), det)
	}
	switch len(mine) {
	case 0:
		c.Violate("OnClose not called for an ended connection", fmt.Sprintf("%v connection %d", cell, connID), det)
		return
	case 1:
		c.Count("onclose_events", 1)
	default:
		c.Violate("OnClose called more than once for one connection", fmt.Sprintf("%v connection %d: %d calls", cell, connID, len(mine)), det)
	}
	t.mu.Lock()
	defer t.mu.Unlock()
	if just && clientStays && gotEOF {
		for _, h := range t.handlers {
			if h.Exit == 0 || h.Exit > eofSeq {
				c.Violate("socket closed before the connection's handlers returned", fmt.Sprintf("%v: the client saw the connection end (stamp %d) while a handler dispatched just before the ending had not returned yet (exit stamp %d)", cell, eofSeq, h.Exit), det)
				break
			}
		}
		c.Count("just_dispatched_endings_checked", 1)
	}
	for _, h := range t.handlers {
		c.Count("handler_exits_recorded", 1)
		if h.Exit == 0 || h.Exit > mine[0].Enter {
			c.Violate("OnClose called before a handler of that connection returned", fmt.Sprintf("%v connection %d: handler exit stamp %d, OnClose stamp %d (trigger %d, release %d)", cell, connID, h.Exit, mine[0].Enter, triggerSeq, releaseSeq), det)
			break
		}
	}
	c.Max("max/handlers_in_flight_at_an_ending", int64(k))
}

// c08Independence: connection A ends while one of its handlers is parked (so A's own teardown has to wait - that is
// the property). Meanwhile OTHER connections, which have no handler running, end by FIN or Unbind: each of them is
// closed and reported through OnClose within 10s (bounded progress, own bound) while A's handler is still held.
func c08Independence(c *Ctx, wd *c08World, round int) {
	srv, err := startSrv(SrvCfg{}, wd.register)
	if err != nil {
		c.Inconclusive("server start: " + err.Error())
		return
	}
	defer srv.StopWithin(patience)
	open := func(tag string) (net.Conn, *Client, int) {
		cn, err := net.Dial("tcp", srv.Addr)
		if err != nil {
			return nil, nil, 0
		}
		cl := wrapClient(cn)
		cl.Send(c08Search(2, tag+";quick"))
		if m, err := cl.ReadMsg(patience); err != nil || m.ID != 2 {
			cn.Close()
			return nil, nil, 0
		}
		t := wd.track(tag)
		t.mu.Lock()
		id := t.connID
		t.mu.Unlock()
		return cn, cl, id
	}
	tagA := fmt.Sprintf("t%d", c08TagCtr.Add(1))
	a, acl, aID := open(tagA)
	if a == nil {
		c.Inconclusive("independence: connect")
		return
	}
	ta := wd.track(tagA)
	acl.Send(c08Search(10, tagA+";park"))
	for dl := time.Now().Add(patience); ta.entered.Load() < 2 && time.Now().Before(dl); time.Sleep(100 * time.Microsecond) {
	}
	var others []net.Conn
	var ids []int
	for k := 0; k < 4; k++ {
		cn, _, id := open(fmt.Sprintf("t%d", c08TagCtr.Add(1)))
		if cn != nil {
			others = append(others, cn)
			ids = append(ids, id)
		}
	}
	// A ends
	switch round % 3 {
	case 0:
		closeWrite(a)
	case 1:
		hardReset(a)
	default:
		acl.Send(sber.Message(90, sber.UnbindRequest(), nil).Encode())
	}
	time.Sleep(20 * time.Millisecond)
	// the others end
	for k, cn := range others {
		if k%2 == 0 {
			closeWrite(cn)
		} else {
			cn.Write(sber.Message(91, sber.UnbindRequest(), nil).Encode())
		}
	}
	reported := func(id int) bool {
		for _, ev := range srv.Closes() {
			if ev.ID == id {
				return true
			}
		}
		return false
	}
	late := 0
	for k, cn := range others {
		cn.SetReadDeadline(time.Now().Add(10 * time.Second))
		buf := make([]byte, 4096)
		eof := false
		for {
			_, err := cn.Read(buf)
			if err == nil {
				continue
			}
			eof = !isTimeout(err)
			break
		}
		ok := eof
		for dl := time.Now().Add(10 * time.Second); ok && !reported(ids[k]) && time.Now().Before(dl); time.Sleep(time.Millisecond) {
		}
		if !ok || !reported(ids[k]) {
			late++
		}
		cn.Close()
	}
	stillHeld := !reported(aID)
	if late > 0 && stillHeld {
		c.Violate("closing a connection waits for the handlers of another connection", fmt.Sprintf("connection %d ended with a handler still parked; %d of %d other connections (no handler running) that ended afterwards were not closed and reported through OnClose within 10s", aID, late, len(others)), map[string]any{"round": round})
	}
	c.Count("connections_closed_while_another_connection_waits_for_its_handler", int64(len(others)-late))
	close(ta.gate)
	for dl := time.Now().Add(patience); !reported(aID) && time.Now().Before(dl); time.Sleep(time.Millisecond) {
	}
	if !reported(aID) {
		c.Violate("OnClose not called for an ended connection", fmt.Sprintf("connection %d (independence round %d) after its handler was released", aID, round), nil)
	}
	a.Close()
}

// c08WriteFault: a response write fails on a live connection (its write deadline has passed) while another handler of
// that connection is parked. A failed write is the failing handler's problem: the socket stays open until the
// connection really ends, and then it is closed - and reported - only after the parked handler has returned.
func c08WriteFault(c *Ctx, wd *c08World, round int) {
	srv, err := startSrv(SrvCfg{WriteTimeout: 300 * time.Millisecond}, wd.register)
	if err != nil {
		c.Inconclusive("server start: " + err.Error())
		return
	}
	defer srv.StopWithin(patience)
	tag := fmt.Sprintf("t%d", c08TagCtr.Add(1))
	cn, err := net.Dial("tcp", srv.Addr)
	if err != nil {
		c.Inconclusive("write fault: connect")
		return
	}
	defer cn.Close()
	cl := wrapClient(cn)
	cl.Send(c08Search(2, tag+";quick"))
	if m, err := cl.ReadMsg(patience); err != nil || m.ID != 2 {
		c.Inconclusive("write fault: first round trip")
		return
	}
	t := wd.track(tag)
	t.mu.Lock()
	connID := t.connID
	t.mu.Unlock()
	cl.Send(c08Search(10, tag+";park"))
	for dl := time.Now().Add(patience); t.entered.Load() < 2 && time.Now().Before(dl); time.Sleep(100 * time.Microsecond) {
	}
	time.Sleep(450 * time.Millisecond) // the connection's write deadline has passed
	for k := 0; k < 1+round%3; k++ {
		cl.Send(c08Search(int64(30+k), tag+";quick")) // these handlers' writes fail
	}
	for dl := time.Now().Add(5 * time.Second); t.entered.Load() < int64(3+round%3) && time.Now().Before(dl); time.Sleep(200 * time.Microsecond) {
	}
	cn.SetReadDeadline(time.Now().Add(700 * time.Millisecond))
	buf := make([]byte, 4096)
	early := false
	for {
		_, err := cn.Read(buf)
		if err == nil {
			continue
		}
		early = !isTimeout(err)
		break
	}
	if early {
		c.Violate("socket closed before the connection's handlers returned", fmt.Sprintf("connection %d: response writes failed (write timeout) while a handler was parked; the client saw the socket closed before the parked handler was released", connID), map[string]any{"round": round})
	}
	releaseSeq := nextSeq()
	close(t.gate)
	closeWrite(cn)
	var mine []closeEv
	for dl := time.Now().Add(patience); time.Now().Before(dl) && len(mine) == 0; time.Sleep(300 * time.Microsecond) {
		for _, ev := range srv.Closes() {
			if ev.ID == connID {
				mine = append(mine, ev)
			}
		}
	}
	if len(mine) == 0 {
		c.Violate("OnClose not called for an ended connection", fmt.Sprintf("connection %d after write faults", connID), nil)
	} else if mine[0].Enter < releaseSeq {
		c.Violate("OnClose called before a handler of that connection returned", fmt.Sprintf("connection %d: OnClose stamp %d precedes the release of its parked handler (%d); response writes had failed before", connID, mine[0].Enter, releaseSeq), nil)
	}
	c.Count("connections_with_failed_writes_next_to_a_parked_handler", 1)
}

// c08BeforeTheHandshake: connections to a TLS listener that end before (or instead of) a TLS handshake - plaintext
// LDAP, connect-and-close, half a ClientHello, garbage. They were accepted, so each of them is closed and reported via
// OnClose exactly once, with an ID of its own.
func c08BeforeTheHandshake(c *Ctx, wd *c08World, round int) {
	srv, err := startSrv(SrvCfg{TLS: wd.pki.ServerOnly}, wd.register)
	if err != nil {
		c.Inconclusive("server start: " + err.Error())
		return
	}
	defer srv.StopWithin(patience)
	opened := 0
	for k := 0; k < 8; k++ {
		cn, err := net.Dial("tcp", srv.Addr)
		if err != nil {
			continue
		}
		opened++
		switch (k + round) % 4 {
		case 0:
			cn.Write(sber.Message(1, sber.BindRequest(3, []byte("cn=plain"), []byte("p")), nil).Encode())
			cn.SetReadDeadline(time.Now().Add(300 * time.Millisecond))
			io.Copy(io.Discard, cn)
		case 1: // connect and close (a health check)
		case 2:
			cn.Write([]byte{0x16, 0x03, 0x01, 0x02, 0x00, 0x01, 0x00})
			time.Sleep(2 * time.Millisecond)
		default:
			cn.Write([]byte("\x00\x01garbage\r\n"))
			cn.SetReadDeadline(time.Now().Add(300 * time.Millisecond))
			io.Copy(io.Discard, cn)
		}
		cn.Close()
	}
	if tc, err := tls.Dial("tcp", srv.Addr, wd.pki.ClientPlain); err == nil {
		opened++
		cl := wrapClient(tc)
		cl.Send(c08Search(2, fmt.Sprintf("t%d;quick", c08TagCtr.Add(1))))
		cl.ReadMsg(patience)
		tc.Close()
	}
	var evs []closeEv
	for dl := time.Now().Add(10 * time.Second); time.Now().Before(dl); time.Sleep(time.Millisecond) {
		if evs = srv.Closes(); len(evs) >= opened {
			break
		}
	}
	time.Sleep(5 * time.Millisecond)
	evs = srv.Closes()
	ids := map[int]int{}
	for _, ev := range evs {
		ids[ev.ID]++
	}
	if len(evs) < opened {
		c.Violate("OnClose not called for an ended connection", fmt.Sprintf("TLS listener: %d connections were opened and have ended (most of them before a handshake), %d OnClose callbacks arrived within 10s (ids %v)", opened, len(evs), ids), map[string]any{"round": round})
	}
	for id, n := range ids {
		if n > 1 {
			c.Violate("OnClose called more than once for one connection", fmt.Sprintf("TLS listener, connections ending before the handshake: id %d reported %d times", id, n), nil)
		}
	}
	c.Count("tls_connections_ended_before_the_handshake", int64(opened-1))
}

var c08NoRecCtr atomic.Int64

func c08Run(c *Ctx) { c08RunWith(c, 0, 0) }

// c08RunWith runs the matrix; writeEntries > 0 shrinks the "writing" handlers' output
// (used when the matrix serves as a race-detector workload, where 70KB frames cost ~10ms each).
func c08RunWith(c *Ctx, writeEntries, sweeps int) {
	wd := &c08World{byTag: map[string]*c08Track{}, pki: newPKI(), writeEntries: writeEntries}
	baseFDs := socketFDs()
	var cells []c08Cell
	for _, e := range c08Endings {
		for _, f := range c08Inflight {
			for _, t := range c08Transports {
				cells = append(cells, c08Cell{e, f, t})
			}
		}
	}
	for _, e := range []string{"fin", "rst", "readtimeout", "stop"} {
		cells = append(cells, c08Cell{e, "handshake-pending", "plain"})
	}
	for _, e := range []string{"fin", "readtimeout", "stop"} {
		cells = append(cells, c08Cell{e, "parked+handshake-pending", "plain"})
	}
	for _, e := range []string{"fin", "rst", "stop"} {
		cells = append(cells, c08Cell{e, "parked-across-upgrade", "plain"})
	}
	cells = append(cells, c08Cell{"stop", "parked+writer-not-read", "plain"}, c08Cell{"stop", "parked+writer-not-read", "tls"})
	for _, e := range []string{"fin", "unbind", "stop"} {
		cells = append(cells, c08Cell{e, "parked-behind-many-that-returned", "plain"}, c08Cell{e, "left-by-goexit", "plain"})
	}
	cells = append(cells, c08Cell{"rst", "parked-behind-many-that-returned", "tls"}, c08Cell{"fin", "left-by-goexit", "starttls"})
	// the Unbind-route handler itself is slow to return: the connection's end waits for it as for any other handler
	for _, tr := range c08Transports {
		cells = append(cells, c08Cell{"unbind-slow-handler", "none", tr}, c08Cell{"unbind-slow-handler", "parked", tr})
	}
	reps := c.N(1, 50)
	if sweeps > 0 {
		reps = sweeps
	}
	var servers []*Srv
	mk := func(tc *tls.Config, rt time.Duration) *Srv {
		s, err := startSrv(SrvCfg{TLS: tc, ReadTimeout: rt}, wd.register)
		if err != nil {
			c.Inconclusive("server start: " + err.Error())
			return nil
		}
		servers = append(servers, s)
		return s
	}
	plain, tlsSrv := mk(nil, 0), mk(wd.pki.ServerOnly, 0)
	if plain == nil || tlsSrv == nil {
		return
	}
	for rep := 0; rep < reps; rep++ {
		var wg sync.WaitGroup
		sem := make(chan struct{}, c.N(8, 64)) // connections ending concurrently
		for _, cell := range cells {
			cell := cell
			wg.Add(1)
			sem <- struct{}{}
			go func() {
				defer wg.Done()
				defer func() { <-sem }()
				var tc *tls.Config
				if cell.Transport == "tls" {
					tc = wd.pki.ServerOnly
				}
				switch cell.Ending {
				case "readtimeout":
					s, err := startSrv(SrvCfg{TLS: tc, ReadTimeout: 500 * time.Millisecond}, wd.register)
					if err != nil {
						c.Inconclusive(err.Error())
						return
					}
					c08OneCell(c, wd, s, cell, nil)
					s.StopWithin(patience)
				case "stop":
					// every other stop-ending server runs without panic recovery (nothing panics in these cells)
					noRec := c08NoRecCtr.Add(1)%2 == 0
					if noRec {
						c.Count("stop_endings_on_a_server_without_panic_recovery", 1)
					}
					s, err := startSrv(SrvCfg{TLS: tc, DisableRecover: noRec}, wd.register)
					if err != nil {
						c.Inconclusive(err.Error())
						return
					}
					stopped := make(chan struct{})
					c08OneCell(c, wd, s, cell, func() {
						go func() { s.S.Stop(); close(stopped) }()
					})
					select {
					case <-stopped:
					case <-time.After(patience):
						c.Inconclusive("Stop did not return in a stop-ending cell (see C11)")
					}
				default:
					s := plain
					if cell.Transport == "tls" {
						s = tlsSrv
					}
					c08OneCell(c, wd, s, cell, nil)
				}
			}()
		}
		wg.Wait()
	}
	for round := 0; round < c.N(3, 30); round++ {
		c08Independence(c, wd, round)
	}
	for round := 0; round < c.N(3, 30); round++ {
		c08WriteFault(c, wd, round)
	}
	for round := 0; round < c.N(4, 40); round++ {
		c08BeforeTheHandshake(c, wd, round)
	}
	// every connection has ended but the long-lived servers are still running: apart from their accept loops no
	// goroutine with a gldap frame may remain (a per-connection helper that outlives its connection is a leak even
	// if it would exit at Stop)
	var leaked []string
	for dl := time.Now().Add(5 * time.Second); ; time.Sleep(10 * time.Millisecond) {
		leaked = leaked[:0]
		for _, g := range gldapGoroutines() {
			if strings.Contains(g, "gldap.(*Server).Run(") && strings.Contains(g, ".Accept(") {
				continue // the accept loop of a running server
			}
			leaked = append(leaked, g)
		}
		if len(leaked) == 0 || time.Now().After(dl) {
			break
		}
	}
	if len(leaked) > 0 {
		c.Violate("goroutine belonging to an ended connection remains while the server keeps running", fmt.Sprintf("%d goroutines with gldap frames besides the accept loops", len(leaked)), map[string]any{"goroutines": trimDump(leaked, 3)})
	}
	c.Count("running_server_goroutine_dumps_checked", 1)
	// quiescence: stop everything, then nothing of gldap may remain
	for _, s := range servers {
		s.StopWithin(patience)
	}
	if g := waitNoGldapGoroutines(5 * time.Second); len(g) > 0 {
		c.Violate("goroutine with a gldap frame remains after every connection ended and the servers stopped", fmt.Sprintf("%d goroutines", len(g)), map[string]any{"goroutines": trimDump(g, 3)})
	}
	c.Count("quiescence_goroutine_dumps_checked", 1)
	var fds int
	for dl := time.Now().Add(3 * time.Second); time.Now().Before(dl); time.Sleep(20 * time.Millisecond) {
		if fds = socketFDs(); fds <= baseFDs {
			break
		}
	}
	if fds > baseFDs {
		c.Violate("socket descriptors remain after every connection ended and the servers stopped", fmt.Sprintf("%d sockets open, baseline %d", fds, baseFDs), nil)
	}
	c.Note("socket_fds_baseline_and_final", []int{baseFDs, fds})
	c.Sample(map[string]any{"cell": cells[len(cells)/2], "steps": "round trip; 3 handlers parked; ending; watch socket 150ms; open gate; expect EOF; expect one OnClose stamped after all handler exits"})
}
