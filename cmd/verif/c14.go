package main

import (
	"bytes"
	"fmt"
	"strings"
	"sync"

	ber "github.com/go-asn1-ber/asn1-ber"
	"github.com/go-ldap/ldap/v3"
	"github.com/jimlambrt/gldap"

	"verif/internal/sber"
)

func init() {
	register(&Check{
		ID: "C14", Level: "exploration", Primary: "control_shapes", EvalCount: "controls_checked",
		Rule: "control values are built through gldap's exported types/constructors: paging sizes over {0,1,127,128,2^31-1,2^31,2^32-1}+random with cookies of 0..70000 arbitrary bytes; Behera grace/expire over " +
			"0..2^31-1 and error 0..8 (all 2^3 option subsets, each in every order of its options; error codes up to 300 must be rejected); VChu warning over int64 boundaries; ManageDsaIT both criticalities; the three Microsoft controls; VChu must-change; " +
			"generic ControlString with OIDs other than the typed ones (incl. near misses), both criticalities, empty/binary/long values; 1..6 controls per message in random order; control instances are also re-used: encoded, their exported fields changed, and encoded again (directly and on consecutive responses). Request direction: Encode() output is attached " +
			"to Bind/Search/Modify/Add/Delete requests and compared with what the handler's Controls list holds; the same bytes go through the strict parser and go-ldap's DecodeControl. Response direction: SetControls on Bind and " +
			"SearchDone responses, observed by go-ldap's SimpleBind/Search and the strict parser on a wiretap copy. distinct_nontrivial = distinct (type, field-value classes, direction, neighbours) signatures",
		Assume: []string{"go-ldap's DecodeControl is consulted only for shapes it can decode (it dereferences nil on value-less Behera/paging/VChu-warning controls and special-cases several OIDs); those shapes are judged by the strict parser alone",
			"an empty generic control value and an absent one are the same value (gldap's ControlString cannot express the difference)"},
		Phases: func(tier string, seed int64) []Phase {
			return []Phase{{Name: "request-direction", Run: c14Request}, {Name: "response-direction", Run: c14Response}, {Name: "constructors", Run: c14Constructors}, {Name: "instance-reuse", Run: c14Reuse}}
		},
		MinObserved: []string{"controls_checked", "request_direction_controls", "response_direction_controls", "goldap_decodes_compared", "reused_instance_encodings", "responses_with_a_non_success_result_code", "behera_constructor_calls_with_reordered_options", "messages_with_16_to_40_controls", "request_controls_with_criticality_false_spelled_out"},
	})
}

var goldapSpecialOIDs = map[string]bool{
	"1.3.6.1.4.1.4203.1.11.3": true, "1.2.840.113556.1.4.805": true, "1.2.840.113556.1.4.473": true, "1.2.840.113556.1.4.474": true,
	"1.2.840.113556.1.4.841": true, "1.3.6.1.4.1.4203.1.9.1.1": true, "1.3.6.1.4.1.4203.1.9.1.2": true, "1.3.6.1.4.1.4203.1.9.1.3": true, "1.3.6.1.4.1.4203.1.9.1.4": true,
}

func ctlSig(s CtlSpec) string {
	switch s.Kind {
	case "paging":
		return fmt.Sprintf("paging/s%s/c%s", idClass(s.Size), lenClass(len(s.Cookie)))
	case "behera":
		return fmt.Sprintf("behera/e%s/g%s/x%d", idClass(s.Expire+1), idClass(s.Grace+1), s.Err)
	case "vchu-warn":
		return fmt.Sprintf("vchu-warn/%v/%s", s.Warn < 0, idClass(abs64(s.Warn)))
	case "dsait":
		return fmt.Sprintf("dsait/%v", s.Crit)
	case "generic":
		return fmt.Sprintf("generic/o%s/%v/v%s", lenClass(len(s.OID)), s.Crit, lenClass(len(s.Value)))
	}
	return s.Kind
}

func abs64(v int64) int64 {
	if v < 0 {
		if v == -1<<63 {
			return 1<<63 - 1
		}
		return -v
	}
	return v
}

// goldapCheck compares go-ldap's decoding of the encoded control with the spec.
func goldapCheck(c *Ctx, s CtlSpec, enc []byte) []string {
	if goldapSpecialOIDs[s.OID] {
		return nil
	}
	switch s.Kind {
	case "behera", "paging", "vchu-warn":
		if !s.HasValue {
			return nil
		}
	case "generic":
		if !validUTF8(s.Value) {
			// go-ldap's ControlString carries the value as a Go string as well; fine, bytes are preserved
		}
	}
	var lc ldap.Control
	var err error
	if m, _ := catch(func() { lc, err = ldap.DecodeControl(ber.DecodePacket(enc)) }); m != "" {
		c.Count("goldap_decode_panics_ignored", 1)
		return nil
	}
	if err != nil {
		return []string{"go-ldap cannot decode the control: " + err.Error()}
	}
	c.Count("goldap_decodes_compared", 1)
	return goldapCompare(s, lc)
}

// goldapCompare compares a control as decoded by go-ldap with the spec.
func goldapCompare(s CtlSpec, lc ldap.Control) []string {
	var d []string
	if lc.GetControlType() != s.OID {
		return []string{fmt.Sprintf("go-ldap sees control type %q, want %q", lc.GetControlType(), s.OID)}
	}
	switch v := lc.(type) {
	case *ldap.ControlPaging:
		if s.Kind != "paging" || int64(v.PagingSize) != s.Size || !bytes.Equal(v.Cookie, s.Cookie) {
			d = append(d, fmt.Sprintf("go-ldap sees paging size %d cookie(%d), want size %d cookie(%d)", v.PagingSize, len(v.Cookie), s.Size, len(s.Cookie)))
		}
	case *ldap.ControlBeheraPasswordPolicy:
		if s.Kind != "behera" || v.Expire != s.Expire || v.Grace != s.Grace || int64(v.Error) != s.Err {
			d = append(d, fmt.Sprintf("go-ldap sees behera expire/grace/error %d/%d/%d, want %d/%d/%d", v.Expire, v.Grace, v.Error, s.Expire, s.Grace, s.Err))
		}
	case *ldap.ControlVChuPasswordWarning:
		if s.Kind != "vchu-warn" || v.Expire != s.Warn {
			d = append(d, fmt.Sprintf("go-ldap sees vchu warning %d, want %d", v.Expire, s.Warn))
		}
	case *ldap.ControlVChuPasswordMustChange:
		if s.Kind != "vchu-must" {
			d = append(d, "go-ldap sees a must-change control")
		}
	case *ldap.ControlManageDsaIT:
		if s.Kind != "dsait" || v.Criticality != s.Crit {
			d = append(d, fmt.Sprintf("go-ldap sees ManageDsaIT criticality %v, want %v", v.Criticality, s.Crit))
		}
	case *ldap.ControlMicrosoftNotification, *ldap.ControlMicrosoftShowDeleted, *ldap.ControlMicrosoftServerLinkTTL:
		if !strings.HasPrefix(s.Kind, "ms-") {
			d = append(d, "go-ldap sees a Microsoft control")
		}
	case *ldap.ControlString:
		if s.Kind != "generic" || v.Criticality != s.Crit || v.ControlValue != string(s.Value) {
			d = append(d, fmt.Sprintf("go-ldap sees generic crit %v value(%d), want crit %v value(%d)", v.Criticality, len(v.ControlValue), s.Crit, len(s.Value)))
		}
	default:
		d = append(d, fmt.Sprintf("go-ldap decodes to unexpected type %T", lc))
	}
	return d
}

func c14Request(c *Ctx) {
	n := c.N(500, 40000)
	workers := 8
	var wg sync.WaitGroup
	for w := 0; w < workers; w++ {
		wg.Add(1)
		go func(w int) {
			defer wg.Done()
			r := c.Rng.Sub(fmt.Sprintf("rq%d", w))
			rc := &Recorder{}
			srv, err := startSrv(SrvCfg{}, func(m *gldap.Mux) { rc.RegisterAll(m, nil) })
			if err != nil {
				c.Inconclusive("server start: " + err.Error())
				return
			}
			defer srv.StopWithin(patience)
			cl, err := dialRaw(srv.Addr, nil)
			if err != nil {
				c.Inconclusive("dial: " + err.Error())
				return
			}
			defer cl.Close()
			for i := w; i < n; i += workers {
				specs := genGldapCtls(r, 6)
				if len(specs) == 0 {
					specs = []CtlSpec{genGldapCtl(r, pick(r, ctlKinds))}
				}
				gc, err := toGldapAll(specs)
				if err != nil {
					c.Violate("constructor rejects a valid control value", err.Error(), map[string]any{"controls": specs})
					continue
				}
				// encode with gldap, parse with the strict parser, attach to a request
				ctlNode := sber.Cons(sber.Context, 0)
				bad := false
				for k, g := range gc {
					var enc []byte
					if m, st := catch(func() { enc = g.Encode().Bytes() }); m != "" {
						c.Violate("Encode panicked", m, map[string]any{"control": specs[k], "stack": stackHead(st, 12)})
						bad = true
						break
					}
					node, perr := sber.ParseAll(enc)
					if perr != nil {
						c.Violate("encoded control is not well-formed BER", perr.Error(), map[string]any{"control": specs[k], "hex": hx(trunc(enc, 128))})
						bad = true
						break
					}
					wire, perr := sber.ParseControl(node)
					if perr != nil {
						c.Violate("encoded control is not a well-formed LDAP control", perr.Error(), map[string]any{"control": specs[k], "hex": hx(trunc(enc, 128))})
						bad = true
						break
					}
					if d := checkWireControl(specs[k], wire); len(d) > 0 {
						c.Violate("encoded control differs from the control value ("+specs[k].Kind+")", strings.Join(d, "; "), map[string]any{"control": specs[k], "hex": hx(trunc(enc, 128))})
					}
					if d := goldapCheck(c, specs[k], enc); len(d) > 0 {
						c.Violate("an independent client decodes the control differently ("+specs[k].Kind+")", strings.Join(d, "; "), map[string]any{"control": specs[k], "hex": hx(trunc(enc, 128))})
					}
					// a client may spell out criticality FALSE instead of leaving the element out (legal BER, what
					// non-DER-minimising encoders send): it is the same control
					if !wire.Crit && !wire.HasCrit && len(node.Children) >= 1 && r.Chance(30) {
						kids := append([]*sber.Node{node.Children[0], sber.Bool(false)}, node.Children[1:]...)
						node = sber.Seq(kids...)
						c.Count("request_controls_with_criticality_false_spelled_out", 1)
					}
					ctlNode.Children = append(ctlNode.Children, node)
					c.Count("controls_checked", 1)
					c.Count("request_direction_controls", 1)
					nb := ""
					if k > 0 {
						nb = specs[k-1].Kind
					}
					c.Distinct("control_shapes", "req/"+ctlSig(specs[k])+"/after:"+nb)
				}
				if bad {
					continue
				}
				rc.Reset()
				id := int64(1 + i%1000)
				var op *sber.Node
				kind := pick(r, []string{"bind", "search", "modify", "add", "delete"})
				// the request that carries the controls varies too (empty and odd field values, many attributes):
				// what a control decodes to must not depend on the rest of the request
				carrier := genReq(r, kind)
				carrier.Controls, carrier.HasCtls = nil, false
				op = carrier.Op()
				cl.Send(sber.Seq(sber.Int(id), op, ctlNode).Encode())
				if _, err := cl.ReadMsg(patience); err != nil {
					c.Violate("request carrying gldap-encoded controls was not served", fmt.Sprintf("%s: %v", kind, err), map[string]any{"controls": specs})
					cl.Close()
					cl, _ = dialRaw(srv.Addr, nil)
					continue
				}
				rc.WaitCount(1, patience)
				obs := rc.All()
				if len(obs) != 1 {
					c.Inconclusive("no observation for a served request")
					continue
				}
				// the handler view: same type, same fields, same order
				exp := make([]CtlSpec, len(specs))
				copy(exp, specs)
				for k := range exp {
					// what the decoder is entitled to report for values gldap's encoder cannot express
					if exp[k].Kind == "generic" && len(exp[k].Value) == 0 {
						exp[k].HasValue = false
					}
				}
				if d := compareControls(exp, obs[0].Controls); len(d) > 0 {
					c.Violate("gldap's request decoder recovers a different control than was encoded", strings.Join(d, "; "), map[string]any{"controls": specs, "observed": obs[0].Controls, "op": kind})
				}
				if i < 2 {
					c.Sample(map[string]any{"direction": "request", "op": kind, "controls": specs})
				}
			}
		}(w)
	}
	wg.Wait()
}

func c14Response(c *Ctx) {
	r := c.Rng
	var mu sync.Mutex
	var cur []CtlSpec
	curCode := 0
	setter := func(w *gldap.ResponseWriter, req *gldap.Request) {
		mu.Lock()
		specs, code := cur, curCode
		mu.Unlock()
		gc, _ := toGldapAll(specs)
		// the carrier's result code is none of the controls' business (set before or after them, by option or setter)
		if _, err := req.GetSimpleBindMessage(); err == nil {
			resp := req.NewBindResponse(gldap.WithResponseCode(code))
			resp.SetControls(gc...)
			w.Write(resp)
			return
		}
		resp := req.NewSearchDoneResponse()
		resp.SetControls(gc...)
		resp.SetResultCode(code)
		w.Write(resp)
	}
	srv, err := startSrv(SrvCfg{}, func(m *gldap.Mux) { m.Bind(setter); m.Search(setter) })
	if err != nil {
		c.Inconclusive("server start: " + err.Error())
		return
	}
	defer srv.StopWithin(patience)
	tap, err := newWiretap(srv.Addr)
	if err != nil {
		c.Inconclusive("wiretap: " + err.Error())
		return
	}
	defer tap.Close()
	lc, err := ldap.DialURL("ldap://" + tap.Addr())
	if err != nil {
		c.Inconclusive("go-ldap dial: " + err.Error())
		return
	}
	defer lc.Close()
	lc.SetTimeout(patience)
	raw, err := dialRaw(srv.Addr, nil)
	if err != nil {
		c.Inconclusive("dial: " + err.Error())
		return
	}
	defer raw.Close()
	n := c.N(600, 30000)
	for i := 0; i < n; i++ {
		specs := genGldapCtls(r, 6)
		if len(specs) == 0 {
			specs = []CtlSpec{genGldapCtl(r, pick(r, ctlKinds))}
		}
		if _, err := toGldapAll(specs); err != nil {
			c.Violate("constructor rejects a valid control value", err.Error(), map[string]any{"controls": specs})
			continue
		}
		code := 0
		if i%3 == 2 {
			code = pick(r, []int{1, 3, 4, 11, 12, 32, 49, 50, 53, 80})
			c.Count("responses_with_a_non_success_result_code", 1)
		}
		mu.Lock()
		cur, curCode = specs, code
		mu.Unlock()
		isSearch := r.Bool()
		// strict parser as the first observer (raw connection)
		if isSearch {
			raw.Send(sber.Message(int64(i+1), sber.Search{Base: []byte("dc=x"), Scope: 2, Filter: sber.PresentFilter("cn"), Attrs: [][]byte{}}.Node(), nil).Encode())
		} else {
			raw.Send(sber.Message(int64(i+1), sber.BindRequest(3, []byte("cn=u"), []byte("p")), nil).Encode())
		}
		m, err := raw.ReadMsg(patience)
		if err != nil {
			c.Violate("response carrying controls is not a well-formed LDAPMessage", err.Error(), map[string]any{"controls": specs})
			raw.Close()
			raw, _ = dialRaw(srv.Addr, nil)
			continue
		}
		if d := checkWireControls(specs, m.Controls); len(d) > 0 {
			c.Violate("response controls on the wire differ from what the handler set", strings.Join(d, "; "), map[string]any{"controls": specs, "frame_hex": hx(trunc(m.Raw, 512))})
		}
		for k := range specs {
			c.Count("controls_checked", 1)
			c.Count("response_direction_controls", 1)
			c.Distinct("control_shapes", fmt.Sprintf("resp/%v/%s", isSearch, ctlSig(specs[k])))
		}
		// go-ldap as the independent client, only for control lists it can decode without panicking
		usable := true
		for _, s := range specs {
			if goldapSpecialOIDs[s.OID] || (!s.HasValue && (s.Kind == "behera" || s.Kind == "paging" || s.Kind == "vchu-warn")) {
				usable = false
			}
		}
		if !usable || code != 0 { // (go-ldap returns the error before it looks at the controls)
			continue
		}
		var got []ldap.Control
		var e error
		if pm, _ := catch(func() {
			if isSearch {
				var sr *ldap.SearchResult
				sr, e = lc.Search(ldap.NewSearchRequest("dc=x", 2, 0, 0, 0, false, "(cn=*)", nil, nil))
				if sr != nil {
					got = sr.Controls
				}
			} else {
				var br *ldap.SimpleBindResult
				br, e = lc.SimpleBind(&ldap.SimpleBindRequest{Username: "cn=u", Password: "p"})
				if br != nil {
					got = br.Controls
				}
			}
		}); pm != "" {
			c.Count("goldap_client_panics_ignored", 1)
			lc.Close()
			lc, _ = ldap.DialURL("ldap://" + tap.Addr())
			lc.SetTimeout(patience)
			continue
		}
		if e != nil {
			c.Violate("an independent client cannot read the response controls", e.Error(), map[string]any{"controls": specs})
			continue
		}
		if len(got) != len(specs) {
			c.Violate("an independent client decodes the control differently (count)", fmt.Sprintf("%d controls, want %d", len(got), len(specs)), map[string]any{"controls": specs})
			continue
		}
		for k, g := range got {
			c.Count("goldap_decodes_compared", 1)
			if d := goldapCompare(specs[k], g); len(d) > 0 {
				c.Violate("an independent client decodes the control differently ("+specs[k].Kind+")", "go-ldap, response direction: "+strings.Join(d, "; "), map[string]any{"control": specs[k]})
			}
		}
		if i < 2 {
			c.Sample(map[string]any{"direction": "response", "search": isSearch, "controls": specs})
		}
	}
	c.Count("messages_with_16_to_40_controls", longCtlLists.Swap(0))
}

// c14Reuse: a control VALUE is what its exported fields say at the time it is encoded. One instance is encoded,
// its exported fields are changed directly (not only through setters), and it is encoded again - directly and on
// consecutive responses (the way a paging handler keeps one control and advances its cookie).
func c14Reuse(c *Ctx) {
	r := c.Rng
	check := func(kind string, s CtlSpec, enc []byte, how string) {
		c.Count("controls_checked", 1)
		c.Count("reused_instance_encodings", 1)
		c.Distinct("control_shapes", "reuse/"+how+"/"+ctlSig(s))
		node, err := sber.ParseAll(enc)
		if err != nil {
			c.Violate("encoded control is not well-formed BER", err.Error(), map[string]any{"control": s})
			return
		}
		wire, err := sber.ParseControl(node)
		if err != nil {
			c.Violate("encoded control is not a well-formed LDAP control", err.Error(), map[string]any{"control": s})
			return
		}
		if d := checkWireControl(s, wire); len(d) > 0 {
			c.Violate("a re-used control instance encodes stale field values ("+kind+")", how+": "+strings.Join(d, "; "), map[string]any{"control_fields_now": s, "hex": hx(trunc(enc, 128))})
		}
	}
	n := c.N(300, 10000)
	// ---- direct Encode() on a mutated instance
	for i := 0; i < n; i++ {
		switch i % 4 {
		case 0:
			s := genGldapCtl(r, "paging")
			g, _ := toGldap(s)
			p := g.(*gldap.ControlPaging)
			_ = p.Encode().Bytes()
			if i%8 == 0 {
				_ = p.String()
			}
			s2 := genGldapCtl(r, "paging")
			p.PagingSize = uint32(s2.Size)
			if r.Bool() {
				p.Cookie = s2.Cookie
			} else {
				p.SetCookie(s2.Cookie)
			}
			check("paging", s2, p.Encode().Bytes(), "encode, assign fields, encode")
		case 1:
			s := genGldapCtl(r, "generic")
			g, _ := toGldap(s)
			p := g.(*gldap.ControlString)
			_ = p.Encode().Bytes()
			s2 := genGldapCtl(r, "generic")
			p.ControlType, p.Criticality, p.ControlValue = s2.OID, s2.Crit, string(s2.Value)
			check("generic", s2, p.Encode().Bytes(), "encode, assign fields, encode")
		case 2:
			s := genGldapCtl(r, "dsait")
			g, _ := toGldap(s)
			p := g.(*gldap.ControlManageDsaIT)
			_ = p.Encode().Bytes()
			p.Criticality = !p.Criticality
			s.Crit = p.Criticality
			s.HasCrit = s.Crit
			check("dsait", s, p.Encode().Bytes(), "encode, assign fields, encode")
		case 3:
			s := genGldapCtl(r, "vchu-warn")
			g, _ := toGldap(s)
			p := g.(*gldap.ControlVChuPasswordWarning)
			_ = p.Encode().Bytes()
			s2 := genGldapCtl(r, "vchu-warn")
			p.Expire = s2.Warn
			check("vchu-warn", s2, p.Encode().Bytes(), "encode, assign fields, encode")
		}
	}
	// ---- the same instance on consecutive responses, fields advanced between them
	paging, _ := gldap.NewControlPaging(10)
	generic, _ := gldap.NewControlString("9.8.7", gldap.WithControlValue("v0"))
	var mu sync.Mutex
	srv, err := startSrv(SrvCfg{}, func(m *gldap.Mux) {
		m.Search(func(w *gldap.ResponseWriter, req *gldap.Request) {
			mu.Lock()
			defer mu.Unlock()
			resp := req.NewSearchDoneResponse(gldap.WithResponseCode(0))
			resp.SetControls(paging, generic)
			w.Write(resp)
		})
	})
	if err != nil {
		c.Inconclusive("server start: " + err.Error())
		return
	}
	defer srv.StopWithin(patience)
	cl, err := dialRaw(srv.Addr, nil)
	if err != nil {
		c.Inconclusive("dial: " + err.Error())
		return
	}
	defer cl.Close()
	for page := 0; page < c.N(40, 1000); page++ {
		sp := genGldapCtl(r, "paging")
		sg := genGldapCtl(r, "generic")
		mu.Lock()
		paging.PagingSize = uint32(sp.Size)
		paging.Cookie = sp.Cookie
		generic.ControlType, generic.Criticality, generic.ControlValue = sg.OID, sg.Crit, string(sg.Value)
		mu.Unlock()
		cl.Send(sber.Message(int64(page+1), sber.Search{Base: []byte("dc=x"), Scope: 2, Filter: sber.PresentFilter("cn"), Attrs: [][]byte{}}.Node(), nil).Encode())
		m, err := cl.ReadMsg(patience)
		if err != nil {
			c.Violate("response carrying controls is not a well-formed LDAPMessage", err.Error(), nil)
			return
		}
		c.Count("controls_checked", 2)
		c.Count("reused_instance_encodings", 2)
		if d := checkWireControls([]CtlSpec{sp, sg}, m.Controls); len(d) > 0 {
			c.Violate("a re-used control instance encodes stale field values (response)", fmt.Sprintf("response %d of a paged exchange re-using one control instance: %s", page+1, strings.Join(d, "; ")), map[string]any{"paging_now": sp, "generic_now": sg})
			return
		}
	}
}

// c14Perms: all orders of n (<= 3) things.
func c14Perms(n int) [][]int {
	switch n {
	case 2:
		return [][]int{{0, 1}, {1, 0}}
	case 3:
		return [][]int{{0, 1, 2}, {0, 2, 1}, {1, 0, 2}, {1, 2, 0}, {2, 0, 1}, {2, 1, 0}}
	}
	p := make([]int, n)
	for i := range p {
		p[i] = i
	}
	return [][]int{p}
}

// c14Constructors: the Behera constructor never yields more than one of
// grace/expire/error and rejects error codes above 8 (exhaustive option subsets).
func c14Constructors(c *Ctx) {
	r := c.Rng
	vals := []uint{0, 1, 8, 9, 127, 128, 300, 1<<31 - 1}
	for mask := 0; mask < 8; mask++ {
		for _, g := range vals {
			for _, e := range vals {
				for code := uint(0); code <= 300; code += 1 + uint(r.Intn(3)) {
					var opts []gldap.Option
					set := 0
					if mask&1 != 0 {
						opts = append(opts, gldap.WithGraceAuthNsRemaining(g))
						set++
					}
					if mask&2 != 0 {
						opts = append(opts, gldap.WithSecondsBeforeExpiration(e))
						set++
					}
					if mask&4 != 0 {
						opts = append(opts, gldap.WithErrorCode(code))
						set++
					}
					// the options in every order (the outcome is a property of the set, not of the sequence)
					for pi, perm := range c14Perms(len(opts)) {
						po := make([]gldap.Option, len(opts))
						for k, j := range perm {
							po[k] = opts[j]
						}
						if pi > 0 {
							c.Count("behera_constructor_calls_with_reordered_options", 1)
						}
						b, err := gldap.NewControlBeheraPasswordPolicy(po...)
						c.Count("controls_checked", 1)
						c.Count("behera_constructor_calls", 1)
						c.Distinct("control_shapes", fmt.Sprintf("behera-ctor/%d/%v/%v", mask, code > 8, err == nil))
						det := map[string]any{"mask": mask, "grace": g, "expire": e, "code": code, "option_order": perm}
						switch {
						case set > 1 && err == nil:
							c.Violate("Behera constructor yields a control with more than one of grace, expire and error", fmt.Sprint(det), det)
						case mask&4 != 0 && code > 8 && err == nil:
							c.Violate("Behera constructor accepts an error code above 8", fmt.Sprint(det), det)
						case set <= 1 && !(mask&4 != 0 && code > 8) && err != nil:
							c.Violate("Behera constructor rejects a valid option set", err.Error(), det)
						}
						if err == nil {
							n := 0
							if b.Grace() >= 0 {
								n++
							}
							if b.Expire() >= 0 {
								n++
							}
							if ec, _ := b.ErrorCode(); ec >= 0 {
								n++
							}
							if n > 1 {
								c.Violate("Behera constructor yields a control with more than one of grace, expire and error", fmt.Sprint(det), det)
							}
						}
					}
					if mask&4 == 0 {
						break
					}
				}
			}
		}
	}
	// error codes far beyond 8, up to the top of the option's uint domain
	for _, code := range []uint{1 << 31, 1<<31 + 3, 1 << 32, 1<<32 + 8, 1 << 62, 1 << 63, 1<<63 + 5, ^uint(0) - 8, ^uint(0) - 1, ^uint(0), 255, 256, 257, 264, 65536, 65536 + 4} {
		for _, with := range []string{"", "grace", "expire"} {
			opts := []gldap.Option{gldap.WithErrorCode(code)}
			switch with {
			case "grace":
				opts = append(opts, gldap.WithGraceAuthNsRemaining(3))
			case "expire":
				opts = append([]gldap.Option{gldap.WithSecondsBeforeExpiration(3)}, opts...)
			}
			b, err := gldap.NewControlBeheraPasswordPolicy(opts...)
			c.Count("controls_checked", 1)
			c.Count("behera_constructor_calls", 1)
			c.Distinct("control_shapes", fmt.Sprintf("behera-ctor-huge/%d/%s/%v", code, with, err == nil))
			if err == nil {
				ec, _ := b.ErrorCode()
				c.Violate("Behera constructor accepts an error code above 8", fmt.Sprintf("WithErrorCode(%d) (with %q) was accepted; the control reports error code %d, grace %d, expire %d", code, with, ec, b.Grace(), b.Expire()), map[string]any{"code": code, "with": with})
			}
		}
	}
	c.Note("behera_option_subsets_exhaustive", true)
}
