#!/usr/bin/env python3
"""Regenerates section 6 of DESIGN.md from /verif/seeded/*/meta.json."""
import json, glob, os, re
rows = []
for d in sorted(glob.glob('/verif/seeded/*/')):
    m = json.load(open(os.path.join(d, 'meta.json')))
    name = os.path.basename(d.rstrip('/'))
    caught = '; '.join(m['caught_by']) if m['caught_by'] else '**not caught**'
    hist = m.get('history', '')
    first = 'missed at first' if hist.startswith('MISSED') else 'caught at once'
    rows.append((name, m['property'], m['needs_to_manifest'], caught, first, hist))
out = ['## 6. Seeded breaking changes: which checks catch which',
 '',
 'Each change below was written by a fresh sub-agent that was given only the text of one property and its own scratch',
 'worktree of `/repo` (nothing from `/verif`). Every one was confirmed here before it was kept (`./seedtest.sh`): the patch',
 'applies to `/repo` HEAD and builds, the existing suite passes with it, the agent\'s demonstration fails with it and passes',
 'without it; then the property\'s check was run against a scratch worktree carrying the patch (`VERIF_REPO=<worktree>',
 './check <ID> quick`). Patch, demonstration, notes and `meta.json` are under `/verif/seeded/<name>/`.',
 '',
 '| seeded change | property | needs, to manifest | caught by (violation keys) | first attempt |',
 '|---|---|---|---|---|']
for name, prop, needs, caught, first, hist in rows:
    out.append('| `%s` | %s | %s | %s | %s |' % (name, prop, needs.replace('|', '/'), caught.replace('|', '/'), first))
missed = [(n, h) for n, _, _, _, f, h in rows if f == 'missed at first']
out += ['', 'Totals: %d seeded changes, %d caught by the check as first built, %d missed at first and caught after the check was strengthened, %d still not caught.' % (
    len(rows), sum(1 for r in rows if r[4] == 'caught at once'), len(missed) - sum(1 for r in rows if r[3] == '**not caught**'), sum(1 for r in rows if r[3] == '**not caught**')),
 '', 'What each miss taught (the strengthening is in the check, never in the oracle\'s tolerance):', '']
for n, h in missed:
    out.append('* `%s` — %s' % (n, h))
out.append('')
s = open('/verif/DESIGN.md').read()
i = s.find('## 6. Seeded breaking changes')
if i >= 0:
    s = s[:i].rstrip('\n') + '\n'
s = s.rstrip('\n') + '\n\n' + '\n'.join(out)
open('/verif/DESIGN.md', 'w').write(s)
print('section 6 written:', len(rows), 'rows')
