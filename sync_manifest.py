#!/usr/bin/env python3
"""Keeps MANIFEST.json's level text in step with what each check runs today: the text is the hand-written summary
(kept in level_note_base) followed by the check's current `rule` as recorded in its evidence file."""
import json, re
m = json.load(open('/verif/MANIFEST.json'))
for c in m['checks']:
    ev = json.load(open(c['evidence_file']))
    rule = ev.get('coverage', {}).get('rule', '')
    base = c['level_claimed']['text'].split(' || As built: ')[0]
    if rule:
        c['level_claimed']['text'] = base + ' || As built: ' + rule
json.dump(m, open('/verif/MANIFEST.json', 'w'), indent=1)
print("manifest synced")
