#!/bin/sh
# Runs every registered check (default tier quick) and validates the evidence files.
# usage: ./run_all.sh [quick|thorough] [ID...]
cd "$(dirname "$0")" || exit 2
TIER=${1:-quick}; [ $# -gt 0 ] && shift
IDS=${*:-"C01 C02 C03 C04 C05 C06 C07 C08 C09 C10 C11 C12 C13 C14 C15 C16 C17 C18 C19 C20"}
rc_all=0
for id in $IDS; do
  t0=$(date +%s)
  out=$(./check "$id" "$TIER" 2>&1); rc=$?
  t1=$(date +%s)
  echo "$id rc=$rc $((t1-t0))s $(echo "$out" | grep "^$id " | tail -1)"
  [ $rc -ne 0 ] && { rc_all=1; echo "$out" | grep -a "VIOLATION\|key:\|what:\|INFRA\|INCONCL\|KNOWN" | head -20; }
done
if command -v python3-vt >/dev/null; then python3-vt - <<'PY'
import json,jsonschema,glob
s=json.load(open('/root/.vp/EVIDENCE.schema.json'))
for f in sorted(glob.glob('/verif/evidence/*.json')):
    try:
        jsonschema.validate(json.load(open(f)),s)
    except Exception as e:
        print("EVIDENCE INVALID",f,str(e)[:300])
print("evidence files validated:",len(glob.glob('/verif/evidence/*.json')))
PY
fi
exit $rc_all
