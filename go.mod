module verif

go 1.22

require (
	github.com/go-asn1-ber/asn1-ber v1.5.5
	github.com/go-ldap/ldap/v3 v3.4.6
	github.com/hashicorp/go-hclog v1.6.2
	github.com/jimlambrt/gldap v0.0.0
)

require (
	github.com/Azure/go-ntlmssp v0.0.0-20221128193559-754e69321358 // indirect
	github.com/cenkalti/backoff v2.2.1+incompatible // indirect
	github.com/davecgh/go-spew v1.1.1 // indirect
	github.com/fatih/color v1.16.0 // indirect
	github.com/google/uuid v1.6.0 // indirect
	github.com/mattn/go-colorable v0.1.13 // indirect
	github.com/mattn/go-isatty v0.0.20 // indirect
	github.com/pmezard/go-difflib v1.0.0 // indirect
	github.com/stretchr/testify v1.9.0 // indirect
	golang.org/x/crypto v0.21.0 // indirect
	golang.org/x/exp v0.0.0-20240222234643-814bf88cf225 // indirect
	golang.org/x/sys v0.18.0 // indirect
	gopkg.in/yaml.v3 v3.0.1 // indirect
)

replace github.com/jimlambrt/gldap => /repo
