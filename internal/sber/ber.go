// Package sber is a small, strict BER/LDAP codec written from X.690, RFC 4511,
// RFC 2696 and the Behera / VChu password-policy drafts. It deliberately shares
// no code with github.com/go-asn1-ber/asn1-ber or go-ldap: it is the
// independent observer (encoder of hostile requests, strict parser of
// everything the server sends) used by the runtime monitors.
package sber

import (
	"errors"
	"fmt"
	"io"
)

// Classes.
const (
	Universal   = 0
	Application = 1
	Context     = 2
	Private     = 3
)

// Universal tags used by LDAP.
const (
	TagBoolean     = 1
	TagInteger     = 2
	TagOctetString = 4
	TagNull        = 5
	TagEnumerated  = 10
	TagSequence    = 16
	TagSet         = 17
)

// Node is one BER TLV.
type Node struct {
	Class       int
	Constructed bool
	Tag         int
	Content     []byte  // primitive content
	Children    []*Node // constructed content

	// Raw, when non-nil, is emitted verbatim instead of a TLV (mutation engine only).
	Raw []byte

	// Inner, when non-nil on a primitive node, is a nested BER payload: the
	// content is the concatenated encoding of these nodes (an OCTET STRING
	// carrying a control value, for instance).
	Inner []*Node

	// LenOverride, when non-nil, is emitted instead of the correct length
	// octets (used only by the mutation engine).
	LenOverride []byte
	// Trailer is appended after the content (EOC octets for the indefinite form).
	Trailer []byte
}

// Clone returns a deep copy.
func (n *Node) Clone() *Node {
	if n == nil {
		return nil
	}
	c := &Node{Class: n.Class, Constructed: n.Constructed, Tag: n.Tag}
	if n.Content != nil {
		c.Content = append([]byte{}, n.Content...)
	}
	if n.LenOverride != nil {
		c.LenOverride = append([]byte{}, n.LenOverride...)
	}
	for _, ch := range n.Children {
		c.Children = append(c.Children, ch.Clone())
	}
	if n.Inner != nil {
		c.Inner = []*Node{}
		for _, ch := range n.Inner {
			c.Inner = append(c.Inner, ch.Clone())
		}
	}
	if n.Trailer != nil {
		c.Trailer = append([]byte{}, n.Trailer...)
	}
	if n.Raw != nil {
		c.Raw = append([]byte{}, n.Raw...)
	}
	return c
}

func encodeIdent(class int, constructed bool, tag int) []byte {
	b := byte(class&3) << 6
	if constructed {
		b |= 0x20
	}
	if tag < 31 {
		return []byte{b | byte(tag)}
	}
	out := []byte{b | 0x1f}
	var tmp []byte
	t := tag
	for {
		tmp = append([]byte{byte(t & 0x7f)}, tmp...)
		t >>= 7
		if t == 0 {
			break
		}
	}
	for i := 0; i < len(tmp)-1; i++ {
		tmp[i] |= 0x80
	}
	return append(out, tmp...)
}

// EncodeLength returns minimal definite length octets.
func EncodeLength(n int) []byte {
	if n < 0x80 {
		return []byte{byte(n)}
	}
	var tmp []byte
	for v := n; v > 0; v >>= 8 {
		tmp = append([]byte{byte(v)}, tmp...)
	}
	return append([]byte{0x80 | byte(len(tmp))}, tmp...)
}

// Encode serialises the node (children recursively).
func (n *Node) Encode() []byte {
	if n.Raw != nil {
		return n.Raw
	}
	var body []byte
	if n.Constructed {
		for _, c := range n.Children {
			body = append(body, c.Encode()...)
		}
	} else if n.Inner != nil {
		for _, c := range n.Inner {
			body = append(body, c.Encode()...)
		}
	} else {
		body = n.Content
	}
	out := encodeIdent(n.Class, n.Constructed, n.Tag)
	if n.LenOverride != nil {
		out = append(out, n.LenOverride...)
	} else {
		out = append(out, EncodeLength(len(body))...)
	}
	out = append(out, body...)
	return append(out, n.Trailer...)
}

// Constructors.

func Prim(class, tag int, content []byte) *Node {
	if content == nil {
		content = []byte{}
	}
	return &Node{Class: class, Tag: tag, Content: content}
}

func Cons(class, tag int, children ...*Node) *Node {
	return &Node{Class: class, Constructed: true, Tag: tag, Children: children}
}

// Wrap is an OCTET STRING whose content is the encoding of inner.
func Wrap(inner ...*Node) *Node {
	if inner == nil {
		inner = []*Node{}
	}
	return &Node{Class: Universal, Tag: TagOctetString, Inner: inner}
}

func Seq(children ...*Node) *Node { return Cons(Universal, TagSequence, children...) }
func Set(children ...*Node) *Node { return Cons(Universal, TagSet, children...) }
func Octet(b []byte) *Node        { return Prim(Universal, TagOctetString, b) }
func Str(s string) *Node          { return Prim(Universal, TagOctetString, []byte(s)) }
func Null() *Node                 { return Prim(Universal, TagNull, nil) }

func Bool(v bool) *Node {
	if v {
		return Prim(Universal, TagBoolean, []byte{0xff})
	}
	return Prim(Universal, TagBoolean, []byte{0x00})
}

// IntBytes is the minimal two's-complement big-endian form.
func IntBytes(v int64) []byte {
	n := 1
	for x := v; x > 127 || x < -128; x >>= 8 {
		n++
	}
	out := make([]byte, n)
	for i := n - 1; i >= 0; i-- {
		out[i] = byte(v)
		v >>= 8
	}
	return out
}

func Int(v int64) *Node  { return Prim(Universal, TagInteger, IntBytes(v)) }
func Enum(v int64) *Node { return Prim(Universal, TagEnumerated, IntBytes(v)) }

// ParseIntBytes decodes a two's-complement integer of 1..8 bytes in its minimal form (X.690 8.3.2: the first nine
// bits are neither all zero nor all one).
func ParseIntBytes(b []byte) (int64, error) {
	if len(b) == 0 || len(b) > 8 {
		return 0, fmt.Errorf("sber: integer of %d bytes", len(b))
	}
	if len(b) > 1 && ((b[0] == 0x00 && b[1]&0x80 == 0) || (b[0] == 0xff && b[1]&0x80 != 0)) {
		return 0, fmt.Errorf("sber: integer % x is not minimally encoded", b)
	}
	var v int64
	if b[0]&0x80 != 0 {
		v = -1
	}
	for _, x := range b {
		v = v<<8 | int64(x)
	}
	return v, nil
}

var ErrShort = errors.New("sber: short input")

// header parses identifier and length octets; returns header size and content length.
func header(b []byte) (class int, cons bool, tag int, hdr int, length int, err error) {
	if len(b) < 2 {
		return 0, false, 0, 0, 0, ErrShort
	}
	class = int(b[0] >> 6)
	cons = b[0]&0x20 != 0
	tag = int(b[0] & 0x1f)
	i := 1
	if tag == 0x1f {
		tag = 0
		for {
			if i >= len(b) {
				return 0, false, 0, 0, 0, ErrShort
			}
			c := b[i]
			i++
			tag = tag<<7 | int(c&0x7f)
			if tag > 1<<24 {
				return 0, false, 0, 0, 0, errors.New("sber: tag too large")
			}
			if c&0x80 == 0 {
				break
			}
		}
	}
	if i >= len(b) {
		return 0, false, 0, 0, 0, ErrShort
	}
	l := b[i]
	i++
	switch {
	case l < 0x80:
		length = int(l)
	case l == 0x80:
		return 0, false, 0, 0, 0, errors.New("sber: indefinite length not allowed in LDAP")
	case l == 0xff:
		return 0, false, 0, 0, 0, errors.New("sber: reserved length octet 0xff")
	default:
		n := int(l & 0x7f)
		if n > 4 {
			return 0, false, 0, 0, 0, fmt.Errorf("sber: length of %d octets", n)
		}
		if i+n > len(b) {
			return 0, false, 0, 0, 0, ErrShort
		}
		for k := 0; k < n; k++ {
			length = length<<8 | int(b[i+k])
		}
		i += n
	}
	return class, cons, tag, i, length, nil
}

// Parse decodes exactly one TLV from the front of b and returns the rest.
// It is strict: definite lengths only, children must fill their parent
// exactly, nesting at most 64 deep.
func Parse(b []byte) (*Node, []byte, error) { return parse(b, 0) }

func parse(b []byte, depth int) (*Node, []byte, error) {
	if depth > 64 {
		return nil, nil, errors.New("sber: nesting too deep")
	}
	class, cons, tag, hdr, length, err := header(b)
	if err != nil {
		return nil, nil, err
	}
	if hdr+length > len(b) {
		return nil, nil, ErrShort
	}
	body := b[hdr : hdr+length]
	n := &Node{Class: class, Constructed: cons, Tag: tag}
	if cons {
		for len(body) > 0 {
			c, rest, err := parse(body, depth+1)
			if err != nil {
				if err == ErrShort {
					err = errors.New("sber: child overruns its parent")
				}
				return nil, nil, err
			}
			n.Children = append(n.Children, c)
			body = rest
		}
	} else {
		n.Content = append([]byte{}, body...)
	}
	return n, b[hdr+length:], nil
}

// ParseAll decodes b as exactly one TLV with nothing left over.
func ParseAll(b []byte) (*Node, error) {
	n, rest, err := Parse(b)
	if err != nil {
		return nil, err
	}
	if len(rest) != 0 {
		return nil, fmt.Errorf("sber: %d trailing bytes", len(rest))
	}
	return n, nil
}

// FrameLen inspects the front of buf: it returns the total length of the first
// TLV when its header is complete (n > 0), 0 when more bytes are needed, or an
// error when the header is not acceptable.
func FrameLen(buf []byte) (int, error) {
	_, _, _, hdr, length, err := header(buf)
	if err == ErrShort {
		return 0, nil
	}
	if err != nil {
		return 0, err
	}
	return hdr + length, nil
}

// ReadFrame reads one complete top-level TLV from r (which should be
// buffered). io.EOF is returned only when not a single byte was available.
func ReadFrame(r io.Reader) ([]byte, error) {
	var buf []byte
	one := make([]byte, 1)
	for {
		n, err := FrameLen(buf)
		if err != nil {
			return buf, err
		}
		if n > 0 {
			if n > 64<<20 {
				return buf, fmt.Errorf("sber: frame of %d bytes", n)
			}
			rest := make([]byte, n-len(buf))
			if _, err := io.ReadFull(r, rest); err != nil {
				if err == io.EOF {
					err = io.ErrUnexpectedEOF
				}
				return append(buf, rest...), err
			}
			return append(buf, rest...), nil
		}
		if _, err := io.ReadFull(r, one); err != nil {
			if err == io.EOF && len(buf) > 0 {
				err = io.ErrUnexpectedEOF
			}
			return buf, err
		}
		buf = append(buf, one[0])
	}
}

// Is reports class/constructed/tag equality.
func (n *Node) Is(class int, cons bool, tag int) bool {
	return n != nil && n.Class == class && n.Constructed == cons && n.Tag == tag
}

func (n *Node) String() string {
	if n == nil {
		return "<nil>"
	}
	cl := [...]string{"U", "A", "C", "P"}[n.Class&3]
	if n.Constructed {
		s := fmt.Sprintf("%s%d{", cl, n.Tag)
		for i, c := range n.Children {
			if i > 0 {
				s += " "
			}
			s += c.String()
		}
		return s + "}"
	}
	if len(n.Content) > 24 {
		return fmt.Sprintf("%s%d:%x..(%d)", cl, n.Tag, n.Content[:24], len(n.Content))
	}
	return fmt.Sprintf("%s%d:%x", cl, n.Tag, n.Content)
}
