package sber

import (
	"errors"
	"fmt"
)

// LDAP application tags.
const (
	AppBindRequest       = 0
	AppBindResponse      = 1
	AppUnbindRequest     = 2
	AppSearchRequest     = 3
	AppSearchResultEntry = 4
	AppSearchResultDone  = 5
	AppModifyRequest     = 6
	AppModifyResponse    = 7
	AppAddRequest        = 8
	AppAddResponse       = 9
	AppDelRequest        = 10
	AppDelResponse       = 11
	AppModifyDNRequest   = 12
	AppCompareRequest    = 14
	AppAbandonRequest    = 16
	AppExtendedRequest   = 23
	AppExtendedResponse  = 24
)

// Control OIDs (copied from the RFCs / drafts, not from gldap).
const (
	OIDPaging           = "1.2.840.113556.1.4.319"
	OIDBehera           = "1.3.6.1.4.1.42.2.27.8.5.1"
	OIDVChuMustChange   = "2.16.840.1.113730.3.4.4"
	OIDVChuWarning      = "2.16.840.1.113730.3.4.5"
	OIDManageDsaIT      = "2.16.840.1.113730.3.4.2"
	OIDMSNotification   = "1.2.840.113556.1.4.528"
	OIDMSShowDeleted    = "1.2.840.113556.1.4.417"
	OIDMSServerLinkTTL  = "1.2.840.113556.1.4.2309"
	OIDStartTLS         = "1.3.6.1.4.1.1466.20037"
	OIDWhoAmI           = "1.3.6.1.4.1.4203.1.11.3"
	OIDPasswordModify   = "1.3.6.1.4.1.4203.1.11.1"
	OIDNoticeDisconnect = "1.3.6.1.4.1.1466.20036"
)

// Control is the generic RFC 4511 control.
type Control struct {
	OID      string
	Crit     bool
	HasCrit  bool // criticality element explicitly encoded
	Value    []byte
	HasValue bool
}

func (c Control) Node() *Node {
	n := Seq(Str(c.OID))
	if c.HasCrit || c.Crit {
		n.Children = append(n.Children, Bool(c.Crit))
	}
	if c.HasValue {
		n.Children = append(n.Children, Octet(c.Value))
	}
	return n
}

func ControlsNode(cs []Control) *Node {
	n := Cons(Context, 0)
	for _, c := range cs {
		n.Children = append(n.Children, c.Node())
	}
	return n
}

// PagingValue builds the RFC 2696 realSearchControlValue.
func PagingValue(size int64, cookie []byte) []byte {
	return Seq(Int(size), Octet(cookie)).Encode()
}

// BeheraValue builds a PasswordPolicyResponseValue; pass -1 for absent.
func BeheraValue(expire, grace, errCode int64) []byte {
	s := Seq()
	if expire >= 0 {
		s.Children = append(s.Children, Cons(Context, 0, Prim(Context, 0, IntBytes(expire))))
	} else if grace >= 0 {
		s.Children = append(s.Children, Cons(Context, 0, Prim(Context, 1, IntBytes(grace))))
	}
	if errCode >= 0 {
		s.Children = append(s.Children, Prim(Context, 1, IntBytes(errCode)))
	}
	return s.Encode()
}

// Message wraps an operation in an LDAPMessage.
func Message(id int64, op *Node, controls []Control) *Node {
	m := Seq(Int(id), op)
	if controls != nil {
		m.Children = append(m.Children, ControlsNode(controls))
	}
	return m
}

func BindRequest(version int64, name, password []byte) *Node {
	return Cons(Application, AppBindRequest, Int(version), Octet(name), Prim(Context, 0, password))
}

func UnbindRequest() *Node { return Prim(Application, AppUnbindRequest, nil) }

func DelRequest(dn []byte) *Node { return Prim(Application, AppDelRequest, dn) }

func ExtendedRequest(name []byte, value []byte, hasValue bool) *Node {
	n := Cons(Application, AppExtendedRequest, Prim(Context, 0, name))
	if hasValue {
		n.Children = append(n.Children, Prim(Context, 1, value))
	}
	return n
}

type Search struct {
	Base      []byte
	Scope     int64
	Deref     int64
	SizeLimit int64
	TimeLimit int64
	TypesOnly bool
	Filter    *Node // already-encoded filter tree
	Attrs     [][]byte
}

func (s Search) Node() *Node {
	attrs := Seq()
	for _, a := range s.Attrs {
		attrs.Children = append(attrs.Children, Octet(a))
	}
	return Cons(Application, AppSearchRequest, Octet(s.Base), Enum(s.Scope), Enum(s.Deref),
		Int(s.SizeLimit), Int(s.TimeLimit), Bool(s.TypesOnly), s.Filter, attrs)
}

// PresentFilter is (attr=*).
func PresentFilter(attr string) *Node { return Prim(Context, 7, []byte(attr)) }

// EqFilter is (attr=value).
func EqFilter(attr, value string) *Node { return Cons(Context, 3, Str(attr), Str(value)) }

type Attr struct {
	Type []byte
	Vals [][]byte
}

func (a Attr) Node() *Node {
	set := Set()
	for _, v := range a.Vals {
		set.Children = append(set.Children, Octet(v))
	}
	return Seq(Octet(a.Type), set)
}

func AddRequest(dn []byte, attrs []Attr) *Node {
	l := Seq()
	for _, a := range attrs {
		l.Children = append(l.Children, a.Node())
	}
	return Cons(Application, AppAddRequest, Octet(dn), l)
}

type Change struct {
	Op   int64
	Attr Attr
}

func ModifyRequest(dn []byte, changes []Change) *Node {
	l := Seq()
	for _, c := range changes {
		l.Children = append(l.Children, Seq(Enum(c.Op), c.Attr.Node()))
	}
	return Cons(Application, AppModifyRequest, Octet(dn), l)
}

// ---------------------------------------------------------------- responses

// Msg is a strictly parsed LDAPMessage envelope.
type Msg struct {
	ID       int64
	Op       *Node
	Controls []Control
	HasCtl   bool
	Raw      []byte
}

// ParseMessage strictly parses one complete LDAPMessage frame.
func ParseMessage(frame []byte) (*Msg, error) {
	n, err := ParseAll(frame)
	if err != nil {
		return nil, err
	}
	if !n.Is(Universal, true, TagSequence) {
		return nil, fmt.Errorf("sber: LDAPMessage is not a SEQUENCE: %s", n)
	}
	if len(n.Children) < 2 || len(n.Children) > 3 {
		return nil, fmt.Errorf("sber: LDAPMessage with %d elements", len(n.Children))
	}
	idn := n.Children[0]
	if !idn.Is(Universal, false, TagInteger) {
		return nil, fmt.Errorf("sber: messageID is not an INTEGER: %s", idn)
	}
	id, err := ParseIntBytes(idn.Content)
	if err != nil {
		return nil, err
	}
	if id < 0 || id > 2147483647 {
		return nil, fmt.Errorf("sber: messageID %d out of range", id)
	}
	op := n.Children[1]
	if op.Class != Application {
		return nil, fmt.Errorf("sber: protocolOp is not APPLICATION class: %s", op)
	}
	m := &Msg{ID: id, Op: op, Raw: frame}
	if len(n.Children) == 3 {
		cn := n.Children[2]
		if !cn.Is(Context, true, 0) {
			return nil, fmt.Errorf("sber: third element is not [0] Controls: %s", cn)
		}
		m.HasCtl = true
		for _, c := range cn.Children {
			pc, err := ParseControl(c)
			if err != nil {
				return nil, err
			}
			m.Controls = append(m.Controls, pc)
		}
	}
	return m, nil
}

// ParseControl strictly parses a Control SEQUENCE.
func ParseControl(c *Node) (Control, error) {
	var out Control
	if !c.Is(Universal, true, TagSequence) {
		return out, fmt.Errorf("sber: control is not a SEQUENCE: %s", c)
	}
	if len(c.Children) < 1 || len(c.Children) > 3 {
		return out, fmt.Errorf("sber: control with %d elements", len(c.Children))
	}
	if !c.Children[0].Is(Universal, false, TagOctetString) {
		return out, fmt.Errorf("sber: controlType is not an OCTET STRING: %s", c.Children[0])
	}
	out.OID = string(c.Children[0].Content)
	rest := c.Children[1:]
	if len(rest) > 0 && rest[0].Is(Universal, false, TagBoolean) {
		if len(rest[0].Content) != 1 {
			return out, errors.New("sber: BOOLEAN of wrong length")
		}
		out.HasCrit = true
		out.Crit = rest[0].Content[0] != 0
		rest = rest[1:]
	}
	if len(rest) > 0 {
		if !rest[0].Is(Universal, false, TagOctetString) {
			return out, fmt.Errorf("sber: controlValue is not an OCTET STRING: %s", rest[0])
		}
		out.HasValue = true
		out.Value = rest[0].Content
		rest = rest[1:]
	}
	if len(rest) != 0 {
		return out, errors.New("sber: unexpected elements in control")
	}
	return out, nil
}

// Result is an LDAPResult.
type Result struct {
	Code    int64
	Matched []byte
	Diag    []byte
	Extra   []*Node // anything after the three mandatory elements
}

// AsResult interprets op's content as COMPONENTS OF LDAPResult.
func AsResult(op *Node) (*Result, error) {
	if !op.Constructed {
		return nil, fmt.Errorf("sber: LDAPResult op is primitive: %s", op)
	}
	if len(op.Children) < 3 {
		return nil, fmt.Errorf("sber: LDAPResult with %d elements", len(op.Children))
	}
	c := op.Children
	if !c[0].Is(Universal, false, TagEnumerated) {
		return nil, fmt.Errorf("sber: resultCode is not ENUMERATED: %s", c[0])
	}
	code, err := ParseIntBytes(c[0].Content)
	if err != nil {
		return nil, err
	}
	if !c[1].Is(Universal, false, TagOctetString) || !c[2].Is(Universal, false, TagOctetString) {
		return nil, fmt.Errorf("sber: matchedDN/diagnosticMessage not OCTET STRINGs: %s %s", c[1], c[2])
	}
	return &Result{Code: code, Matched: c[1].Content, Diag: c[2].Content, Extra: c[3:]}, nil
}

// Entry is a SearchResultEntry.
type Entry struct {
	DN    []byte
	Attrs []Attr
}

// AsEntry interprets op as SearchResultEntry content.
func AsEntry(op *Node) (*Entry, error) {
	if !op.Constructed || len(op.Children) != 2 {
		return nil, fmt.Errorf("sber: SearchResultEntry shape: %s", op)
	}
	if !op.Children[0].Is(Universal, false, TagOctetString) {
		return nil, fmt.Errorf("sber: objectName is not an OCTET STRING")
	}
	e := &Entry{DN: op.Children[0].Content}
	l := op.Children[1]
	if !l.Is(Universal, true, TagSequence) {
		return nil, fmt.Errorf("sber: attributes is not a SEQUENCE: %s", l)
	}
	for _, a := range l.Children {
		if !a.Is(Universal, true, TagSequence) || len(a.Children) != 2 ||
			!a.Children[0].Is(Universal, false, TagOctetString) || !a.Children[1].Is(Universal, true, TagSet) {
			return nil, fmt.Errorf("sber: PartialAttribute shape: %s", a)
		}
		at := Attr{Type: a.Children[0].Content, Vals: [][]byte{}}
		for _, v := range a.Children[1].Children {
			if !v.Is(Universal, false, TagOctetString) {
				return nil, fmt.Errorf("sber: attribute value is not an OCTET STRING: %s", v)
			}
			at.Vals = append(at.Vals, v.Content)
		}
		e.Attrs = append(e.Attrs, at)
	}
	return e, nil
}

// DecodePaging parses an RFC 2696 control value.
func DecodePaging(v []byte) (size int64, cookie []byte, err error) {
	n, err := ParseAll(v)
	if err != nil {
		return 0, nil, err
	}
	if !n.Is(Universal, true, TagSequence) || len(n.Children) != 2 ||
		!n.Children[0].Is(Universal, false, TagInteger) || !n.Children[1].Is(Universal, false, TagOctetString) {
		return 0, nil, fmt.Errorf("sber: paging value shape: %s", n)
	}
	size, err = ParseIntBytes(n.Children[0].Content)
	return size, n.Children[1].Content, err
}

// DecodeBehera parses a PasswordPolicyResponseValue; -1 = absent.
func DecodeBehera(v []byte) (expire, grace, errCode int64, err error) {
	expire, grace, errCode = -1, -1, -1
	n, err := ParseAll(v)
	if err != nil {
		return
	}
	if !n.Is(Universal, true, TagSequence) || len(n.Children) > 2 {
		err = fmt.Errorf("sber: behera value shape: %s", n)
		return
	}
	for _, c := range n.Children {
		switch {
		case c.Is(Context, true, 0):
			if len(c.Children) != 1 || c.Children[0].Class != Context || c.Children[0].Constructed {
				err = fmt.Errorf("sber: behera warning shape: %s", c)
				return
			}
			var val int64
			val, err = ParseIntBytes(c.Children[0].Content)
			if err != nil {
				return
			}
			switch c.Children[0].Tag {
			case 0:
				expire = val
			case 1:
				grace = val
			default:
				err = fmt.Errorf("sber: behera warning choice %d", c.Children[0].Tag)
				return
			}
		case c.Is(Context, false, 1):
			errCode, err = ParseIntBytes(c.Content)
			if err != nil {
				return
			}
		default:
			err = fmt.Errorf("sber: behera element: %s", c)
			return
		}
	}
	return
}
