#!/usr/bin/env python3
"""Archive a validated seeded change under /verif/seeded/<name>/ (patch.diff, demonstration, notes, meta.json).
usage: seedkeep.py <srcdir> <name> <property> <caught_by(comma sep or 'none')> <needs text> [history text]"""
import sys, os, shutil, json, glob
src, name, prop, caught, needs = sys.argv[1:6]
history = sys.argv[6] if len(sys.argv) > 6 else ""
dst = os.path.join('/verif/seeded', name)
os.makedirs(dst, exist_ok=True)
for f in glob.glob(os.path.join(src, '*')):
    if os.path.isfile(f):
        shutil.copy(f, dst)
demos = [os.path.basename(f) for f in glob.glob(os.path.join(dst, '*.go'))]
meta = {
 "property": prop,
 "breaks": open(os.path.join(src, 'notes.md')).read().split('\n')[0][:300] if os.path.exists(os.path.join(src,'notes.md')) else "",
 "needs_to_manifest": needs,
 "demonstration": demos,
 "confirmed": ["patch applies to /repo HEAD and builds", "existing suite (go test -vet=off -count=1 ./...) passes with the patch",
               "demonstration fails with the patch and passes without it (run by /verif/seedtest.sh in a scratch worktree)"],
 "ran": f"/verif/seedtest.sh {dst} {prop}   (VERIF_REPO=<scratch worktree with the patch> ./check {prop} quick)",
 "caught_by": [] if caught == 'none' else caught.split(','),
 "history": history,
}
json.dump(meta, open(os.path.join(dst, 'meta.json'), 'w'), indent=1)
print("kept", dst)
